"""
C17 — identity attestations and token disclosure require the owner's consent
(ipv8/attestation/identity/{community,manager,database,metadata,attestation}.py).

Link to the code:
  * translator tools/gen_c17.py regenerates lean/Ipv8/C17/Gen.lean from community.py on every run: the guard sequence of
    `should_sign` (AST -> list of guard constructors, tuple indices resolved against the tuple `add_known_hash` stores),
    the 300 s window and its comparison, the SHA-1 padding rule, the token hand-out rule of `on_request_missing`
    (default permission, slice, comparison operators, packet limit) and `request_attestation_advertisement`;
    the theorems of Props.lean are stated over the model instantiated with these generated definitions;
  * correspondence: three real IdentityCommunity nodes (in-memory databases, the repo's mock endpoints with a capturing
    `send`, virtual clock) execute seeded event sequences; every event is also sent as one protocol line to the Lean
    model (driver drv_c17), and emitted packets, Attestations rows, the consent table and the permission table are
    compared after every event;
  * oracle (independent of the Lean model): every AttestPayload / MissingResponsePayload / DisclosePayload leaving a node
    and every new Attestations row is judged against the property text using the harness's own log of registrations,
    deliveries and permissions and the real signature check.
"""
from __future__ import annotations

import asyncio
import hashlib
import json
import logging
import random
import re
import struct

import gen_c17
import vclock
from vlib import Ctx, InfraError

PROPERTY = "C17"
LEAN_TARGETS = ["Ipv8.C17.Props"]
PROPS_FILE = "Ipv8/C17/Props.lean"
DRIVER = "drv_c17"
RULE = ("worlds of 3 real IdentityCommunity nodes + 2 node-less third-party keys; each world = one scripted opener "
        "(cross-subject registration, expiry boundary, third-party attestation stored first, replay, long chain, "
        "sha1, fixed-metadata, wrong-name, tainted disclosure, restart over the same database with a new or the old "
        "IdentityManager (third party's row first / own row stored / own row plus a row of another subject for the same "
        "metadata), stale-plus-fresh registration, orphan flood beyond the 100-token cap, registration without a JSON form, chain with one forged link delivered out of order, metadata over a bad token then restart, refused advertise call then chain growth, two keys behind one network address, forged copy of an already chained token in a later disclosure, none) followed by 25-45 seeded events drawn from: add_known_hash (any subject incl. "
        "third parties, 5 hashes + one 20-byte hash, 3 names, 5 metadata dicts), request_attestation_advertisement, "
        "self_advertise (single / bulk), deliver / replay / drop of captured packets, restarts, clock steps in multiples of "
        "1/8 s incl. exactly +299.875, +300, +300.125 and +301 s after a registration, registered and disclosed metadata "
        "with str / int / bool / float values, crafted DisclosePayload (own tokens, shadow tokens with foreign hashes, "
        "orphans, foreign-signed and garbage tokens, metadata with other name / extra keys / missing fields / bad "
        "JSON / foreign signature, third-party attestations valid / invalid / wrong authority, truncations), crafted "
        "AttestPayload (own / third-party / garbage / truncated), RequestMissingPayload (any index), "
        "MissingResponsePayload; distinct = distinct canonical model-line sequence of a world; non-trivial = the "
        "world contains at least one delivered disclosure to a node holding a registration for the sender")
TRUSTED_BASE = [
    "tools/gen_c17.py: AST matcher for should_sign / add_known_hash / pad_hash / on_request_missing / request_attestation_advertisement / _fit_disclosure constants (fixed statement shapes only; anything else is a TranslatorError)",
    "hand-written model of _received_disclosure_for_attest, substantiate, TokenTree.gather_token, the three INSERT OR IGNORE tables, on_attest (Ipv8/C17/Model.lean), tied by the correspondence run",
    "the harness's wire parser for the four identity payloads and its interning of byte strings to model ids",
    "signatures enter the model as verification facts (bit mask of the keys under which an object verifies) computed with the real ECCrypto.is_valid_signature; unforgeability is outside the model",
    "the authenticity of the packet sender (lazy_wrapper / BinMemberAuthenticationPayload) is C01's subject and assumed here",
]
ASSUMPTIONS = [
    "object lifetimes are modelled (restart over the same database with a new or the old IdentityManager); co-hosted pseudonyms sharing one manager are not",
    "JSON values are compared type-exactly (canonical json.dumps with sorted keys), as should_sign does since the fix",
    "SHA3-256 is injective on the byte strings that occur (ids are interned byte strings)",
    "curve25519 keys (64-byte deterministic signatures); peers never send to themselves",
    "model time is whole milliseconds; the harness moves the clock in multiples of 1/8 s (exact in binary floating point)",
]

KNOWN_SIGNATURE = "should_sign:attested-twice-after-restart"
PAD = b"SHA-1" + b"\x00" * 7
SIGLEN = 64
TOKSZ = 64 + SIGLEN
WINDOW = 300
WINDOW_MS = WINDOW * 1000
LIMIT = 1296
NAMES = ["attribute", "name1", "n"]
# names as production hands them through from the requester's JSON, untyped: True == 1 == 1.0 in Python, three JSON texts
NAMES_TYPED = [True, 1, 1.0, "1"]
MDS = [None, None, {}, {"a": "b"}, {"a": "c"}, {"a": "b", "x": "y"}, {"a": 1}, {"a": True}, {"a": 1.0}]
# registrations only: values that have no JSON form (misuse of add_known_hash; they must simply match nothing)
# registrations only: fixed metadata that itself carries one of the standard keys (e.g. the dict of an attestation request
# that names the schema); the code compares the credential's CUSTOM fields with the registered dict as given
MDS_STANDARD_KEY = [{"schema": "id_metadata", "a": "b"}, {"schema": "other", "a": "b"}, {"date": 1, "a": "b"},
                    {"name": "attribute"}, {"schema": "id_metadata"}]
MDS_NONJSON = [{"a": b"b"}, {"a": {1, 2}}, {1: "x", "a": "b"}]


def jd(x) -> str:
    """type-exact canonical form of a JSON value (True, 1 and 1.0 are written true, 1 and 1.0: three different texts);
    something that has no JSON form gets a text no JSON value has"""
    try:
        return json.dumps(x, sort_keys=True)
    except (TypeError, ValueError):
        return "<no JSON form: %r>" % (x,)
N_NODES = 3
N_EXTRA = 2


def sha3(b: bytes) -> bytes:
    return hashlib.sha3_256(b).digest()


class Pkt:
    __slots__ = ("src", "dst", "data", "kind", "body", "crafted", "note")

    def __init__(self, src, dst, data, kind, body):
        self.src, self.dst, self.data, self.kind, self.body = src, dst, data, kind, body
        self.crafted = False
        self.note = ""


class World:
    """Three real nodes, a capturing network, interning tables, the oracle's own logs."""

    def __init__(self, ctx: Ctx, loop, use_model: bool, world_seed: int):
        from ipv8.attestation.identity.community import IdentityCommunity, IdentitySettings
        from ipv8.attestation.identity.manager import IdentityManager
        from ipv8.attestation.identity import payload as P
        from ipv8.keyvault.crypto import default_eccrypto
        from ipv8.peer import Peer
        from ipv8.test.mocking.ipv8 import MockIPv8
        self.P = P
        self.ctx, self.rng, self.loop = ctx, random.Random(world_seed), loop
        self.world_seed = world_seed
        self.crypto = default_eccrypto
        self.sk = {}
        for k in range(1, N_NODES + N_EXTRA + 1):
            self.sk[k] = default_eccrypto.key_from_private_bin(b"LibNaCLSK:" + self.rng.randbytes(64))
        self.pk = {k: s.pub() for k, s in self.sk.items()}
        self.pkbin = {k: p.key_to_bin() for k, p in self.pk.items()}
        self.kids = {b: k for k, b in self.pkbin.items()}
        self.nodes, self.ov = {}, {}
        self.queue: list[Pkt] = []
        self.history: list[Pkt] = []
        for k in range(1, N_NODES + 1):
            n = MockIPv8(Peer(self.sk[k]), IdentityCommunity,
                         settings=IdentitySettings(identity_manager=IdentityManager(":memory:")))
            self.nodes[k], self.ov[k] = n, n.overlay
        self.addr = {k: n.endpoint.wan_address for k, n in self.nodes.items()}
        self.by_addr = {a: k for k, a in self.addr.items()}
        for k, n in self.nodes.items():
            n.endpoint.send = self._mk_send(k)
        self.observation_failed = None
        self.seen_attr, self.seen_tok = set(), set()
        self.ever_chain = {}
        self._rows_before = {}
        self.retired = []                                   # objects of earlier lifetimes (stopped at the end)
        self.lifetime = {k: 0 for k in self.nodes}
        self.attested_life = {k: {} for k in self.nodes}    # v -> metadata hash -> lifetime in which it was attested
        # interning
        self._h, self._n, self._x, self._s = {}, {}, {}, {}
        self._vkc = {}
        self._own_sig = {}
        # object registries for the oracle
        self.tokens = {}      # hash -> (prev, content, sig)
        self.metas = {}       # hash -> (token_ptr, json bytes, sig)
        # oracle logs
        self.regs = {k: [] for k in self.nodes}            # add_known_hash calls
        self.delivered = {k: {} for k in self.nodes}       # v -> p -> set(token hash) delivered from p, valid under p
        self.attested = {k: [] for k in self.nodes}        # metadata hashes v emitted an AttestPayload for
        self.chain = {k: [] for k in self.nodes}           # own chain token hashes
        self.perm = {k: {} for k in self.nodes}            # s -> p -> chain length opened
        self.lines: list[str] = []
        self.expect: list[str] = []
        self.use_model = use_model
        self.nontrivial = False
        self.genesis = {k: sha3(b) for k, b in self.pkbin.items()}
        self.lines.append("init %d %s" % (N_NODES, " ".join(str(self.hid(self.genesis[k])) for k in sorted(self.sk))))
        self.expect.append("ok")
        self.trace: list[dict] = []    # abstract replayable event list

    # ---- network ------------------------------------------------------------------------------------------
    def _mk_send(self, k):
        def send(address, data):
            dst = self.by_addr.get(address)
            kind, body = self.decode(k, data)
            self.queue.append(Pkt(k, dst, data, kind, body))
        return send

    def decode(self, k, data):
        """Split a packet produced by node k into (msg id, payload fields) the way lazy_wrapper does."""
        from ipv8.messaging.payload_headers import BinMemberAuthenticationPayload
        ov = self.ov[k]
        try:
            kind = data[22]
            cls = {1: self.P.DisclosePayload, 2: self.P.AttestPayload, 3: self.P.RequestMissingPayload,
                   4: self.P.MissingResponsePayload}.get(kind)
            if cls is None:
                return kind, None
            auth, _ = ov.serializer.unpack_serializable(BinMemberAuthenticationPayload, data, offset=23)
            _, remainder = ov._verify_signature(auth, data)
            (pl,) = ov.serializer.unpack_serializable_list([cls], remainder, offset=23)
            return kind, pl
        except Exception as e:  # never expected: packets come from real ez_send
            raise InfraError(f"harness cannot decode a packet it captured: {e!r}")

    def now(self) -> int:
        """virtual time in milliseconds"""
        return int(round(self.loop.time() * 1000))

    # ---- interning ----------------------------------------------------------------------------------------
    def hid(self, b: bytes) -> int:
        return self._h.setdefault(bytes(b), len(self._h) + 1)

    def nid(self, v) -> int:
        return self._n.setdefault(jd(v), len(self._n) + 1)

    def xid(self, d: dict) -> int:
        return self._x.setdefault(jd(d), len(self._x) + 1)

    def kid(self, keybin: bytes) -> int:
        if keybin not in self.kids:
            k = len(self.kids) + 1
            self.kids[keybin] = k
            self.pkbin[k] = keybin
            self.pk[k] = self.crypto.key_from_public_bin(keybin)
        return self.kids[keybin]

    def vk(self, plain: bytes, sig: bytes) -> int:
        """bit mask of the keys under which (plain, sig) verifies (real signature check)"""
        key = (plain, sig)
        if key not in self._vkc:
            m = 0
            for k, p in self.pk.items():
                if self.crypto.is_valid_signature(p, plain, sig):
                    m |= 1 << k
            self._vkc[key] = m
        return self._vkc[key]

    def sigid(self, mp: bytes, sig: bytes) -> str:
        """deterministic signatures: the signature key k makes over mp is written o<k>.<mp>, anything else e<n>"""
        key = (mp, sig)
        if key not in self._own_sig:
            r = None
            for k, s in self.sk.items():
                if len(mp) == 32 and s.signature(mp) == sig:
                    r = "o%d.%d" % (k, self.hid(mp))
                    break
            if r is None:
                r = "e%d" % self._s.setdefault(bytes(sig), len(self._s) + 1)
            self._own_sig[key] = r
        return self._own_sig[key]

    # ---- wire parsing, mirroring what the receiving code tolerates --------------------------------------------
    def parse_tokens(self, blob: bytes):
        out, abort = [], False
        for i in range(0, len(blob), TOKSZ):
            chunk = blob[i:i + TOKSZ]
            if len(chunk) < TOKSZ:
                abort = True
                break
            prev, content, sig = chunk[:32], chunk[32:64], chunk[64:]
            h = sha3(chunk)
            self.tokens.setdefault(h, (prev, content, sig))
            out.append({"h": h, "prev": prev, "content": content, "vk": self.vk(prev + content, sig)})
        return out, abort

    def json_view(self, js: bytes):
        try:
            tr = json.loads(js)
            keys = set(tr.keys())
        except Exception:
            return None
        f = (1 if "name" in keys else 0) | (2 if "date" in keys else 0) | (4 if "schema" in keys else 0)
        name = self.nid(tr["name"]) if "name" in keys else 0
        extra = self.xid({k: v for k, v in tr.items() if k not in ("name", "date", "schema")})
        return {"fields": f, "name": name, "extra": extra, "dict": tr}

    def parse_metadata(self, blob: bytes):
        out, abort, off = [], False, 0
        while off < len(blob):
            if len(blob) - off < 4:
                abort = True
                break
            (ln,) = struct.unpack_from(">I", blob, off)
            data = blob[off + 4: off + 4 + ln]
            tp, js, sig = data[:32], data[32:-SIGLEN], data[-SIGLEN:]
            h = sha3(tp + js + sig)
            self.metas.setdefault(h, (tp, js, sig))
            out.append({"h": h, "tp": tp, "vk": self.vk(tp + js, sig), "json": self.json_view(js)})
            off += 4 + ln
        return out, abort

    def parse_attestations(self, atts: bytes, auths: bytes):
        out, abort, off, aoff = [], False, 0, 0
        while off < len(auths):
            if len(auths) - off < 2:
                abort = True
                break
            (ln,) = struct.unpack_from(">H", auths, off)
            try:
                authority = self.crypto.key_from_public_bin(auths[off + 2: off + 2 + ln])
            except Exception:
                abort = True
                break
            off += 2 + ln
            sl = authority.get_signature_length()
            if len(atts) - aoff < 32 + sl:
                abort = True
                break
            mp, sig = atts[aoff:aoff + 32], atts[aoff + 32: aoff + 32 + sl]
            k = self.kid(authority.key_to_bin())
            out.append({"auth": k, "mp": mp, "sig": sig, "vk": self.vk(mp, sig)})
            aoff += 32 + sl
        return out, abort

    # ---- model line fragments -----------------------------------------------------------------------------
    def l_tokens(self, toks, abort):
        items = ["%d:%d:%d:%d" % (self.hid(t["h"]), self.hid(t["prev"]), self.hid(t["content"]), t["vk"]) for t in toks]
        if abort:
            items.append("!")
        return "[" + ",".join(items) + "]"

    def l_mds(self, mds, abort):
        items = []
        for m in mds:
            j = m["json"]
            if j is None:
                items.append("%d:%d:%d:0:0:0:0" % (self.hid(m["h"]), self.hid(m["tp"]), m["vk"]))
            else:
                items.append("%d:%d:%d:1:%d:%d:%d" % (self.hid(m["h"]), self.hid(m["tp"]), m["vk"], j["fields"],
                                                      j["name"], j["extra"]))
        if abort:
            items.append("!")
        return "[" + ",".join(items) + "]"

    def l_atts(self, atts, abort):
        items = ["%d:%d:%s:%d" % (a["auth"], self.hid(a["mp"]), self.sigid(a["mp"], a["sig"]), a["vk"]) for a in atts]
        if abort:
            items.append("!")
        return "[" + ",".join(items) + "]"

    # ---- observation of the real nodes ----------------------------------------------------------------------
    def rows(self, v):
        db = self.ov[v].identity_manager.database
        return [tuple(bytes(c) for c in r) for r in
                db.execute("SELECT public_key, authority_key, metadata_pointer, signature FROM Attestations")]

    def row_str(self, r):
        return "%d:%d:%d:%s" % (self.kid(r[0]), self.kid(r[1]), self.hid(r[2]), self.sigid(r[2], r[3]))

    def dump(self, v):
        """rows | consent table | permissions, in the model's print format"""
        ov = self.ov[v]
        rows = " ".join(sorted(self.row_str(r) for r in self.rows(v))) or "-"
        kn = getattr(ov, "known_attestation_hashes", None)
        if isinstance(kn, dict):
            ks = []
            for h, tup in kn.items():
                try:
                    name, t, key, md = tup
                    ks.append("%d:%d:%d:%d:%s" % (self.hid(h), self.nid(name), int(round(t * 1000)), self.kid(key),
                                                  "-" if md is None else str(self.xid(md))))
                except Exception:
                    ks.append("?")
            known = " ".join(ks) or "-"
        else:
            known = None
        pm = getattr(ov, "permissions", None)
        if isinstance(pm, dict):
            ent = []
            for p, n in list(pm.items())[:50]:
                kb = p.public_key.key_to_bin()
                ent.append("%s:%d" % (self.kids[kb] if kb in self.kids else "foreign", n))
            perms = " ".join(sorted(ent)) or "-"
        else:
            perms = None
        return rows, known, perms

    def check_dump(self, v):
        try:
            rows, known, perms = self.dump(v)
        except Exception as exc:      # private state changed shape: a failed observation, not an infrastructure error
            rows, known, perms = None, None, None
            self.observation_failed = "state of node %d unreadable: %s: %s" % (v, type(exc).__name__, exc)
        self.lines.append("X %d" % v)
        self.expect.append(("dump", rows, known, perms))

    def out_str(self, p: Pkt, to=None) -> str:
        """canonical form of an emitted packet; `to` = key of the peer it answers (a reply is addressed to the authenticated
        sender of the message being handled, whatever network address that message came from)"""
        if to is not None:
            q = Pkt(p.src, to, p.data, p.kind, p.body)
            return self.out_str(q)
        if p.kind == 2:
            att = p.body.attestation
            return "A%d:%d" % (p.dst, self.hid(att[:32]))
        if p.kind == 3:
            return "R%d:%d" % (p.dst, p.body.known)
        if p.kind == 4:
            toks, _ = self.parse_tokens(p.body.tokens)
            return "S%d:[%s]" % (p.dst, ",".join(str(self.hid(t["h"])) for t in toks))
        if p.kind == 1:
            mds, _ = self.parse_metadata(p.body.metadata)
            toks, _ = self.parse_tokens(p.body.tokens)
            got, mine = {t["h"] for t in toks}, set(self.chain.get(p.src, []))
            tag = "all" if got == mine else "sub" if got <= mine else "foreign"
            return "P%d:[%s]:%d:%s" % (p.dst, ",".join(str(self.hid(m["h"])) for m in mds), len(toks), tag)
        return "?%d" % p.kind

    # ---- oracle -------------------------------------------------------------------------------------------------
    def fail(self, sig, what):
        self.ctx.oracle_fail(sig, what, {"world_seed": self.world_seed, "opener": self.opener, "n_events": self.n_events,
                                         "vidx": getattr(self, "vidx", 0), "t": self.now(),
                                         "events_so_far": list(self.trace)})

    def root_path_ok(self, v, p, h) -> bool:
        """token h and all its ancestors down to p's genesis were delivered from p to v and verify under p's key"""
        seen = self.delivered[v].get(p, set())
        cur, steps = h, 0
        while steps < 5000:
            if cur not in seen or cur not in self.tokens:
                return False
            prev = self.tokens[cur][0]
            if prev == self.genesis[p]:
                return True
            cur = prev
            steps += 1
        return False

    def oracle_outputs(self, v, trigger: Pkt | None, emitted: list[Pkt], api: str | None = None):
        now = self.now()
        for e in emitted:
            if e.dst is None:
                self.fail("ez_send:non-peer-destination", f"node {v} sent message {e.kind} to an address that is no peer's")
                continue
            if e.kind == 2:
                self.oracle_attest(v, trigger, e, now)
            elif e.kind in (1, 4):
                self.oracle_tokens_out(v, trigger, e, api)

    def oracle_attest(self, v, trigger, e, now):
        self.ctx.count("oracle:attest-judged")
        p = trigger.src if trigger is not None else e.dst
        mp = e.body.attestation[:32]
        tag = f"node {v} attested metadata #{self.hid(mp)} for subject {p} at t={now}"
        if trigger is None or trigger.kind not in (1, 4) or trigger.src != p:
            self.fail("_received_disclosure_for_attest:no-disclosure", tag + " without a disclosure from that subject")
            return
        site = "should_sign"
        if mp in self.attested[v]:
            if self.attested_life[v].get(mp) == self.lifetime[v]:
                self.fail(site + ":attested-twice", tag + " although it had attested the same metadata before")
            else:
                rows = self._rows_before.get(v, [])
                own = [r for r in rows if r[0] == self.pkbin[p] and r[1] == self.pkbin[v] and r[2] == mp]
                other = [r for r in rows if r[0] == self.pkbin[p] and r[1] != self.pkbin[v] and r[2] == mp]
                if own:
                    self.ctx.count("oracle:attested-again-after-restart:own-row-stored")
                    self.fail(site + ":attested-again-own-row-stored", tag + " although it had attested the same "
                              "metadata before a restart AND its own attestation row is in the table: the database "
                              "guard did not find it")
                elif other:
                    self.ctx.count("oracle:attested-again-after-restart:third-party-row-first")
                    self.fail(site + ":attested-twice-after-restart", tag + " although it had attested the same metadata "
                              "before a restart (its own row was dropped in favour of a third party's, primary key "
                              "(subject, metadata)): the database guard cannot see it")
                else:
                    self.ctx.count("oracle:attested-again-after-restart:no-row")
                    self.fail(site + ":attested-again-row-missing", tag + " although it had attested the same metadata "
                              "before a restart; no attestation row for (subject, metadata) is in the table at all")
        self.attested[v].append(mp)
        self.attested_life[v][mp] = self.lifetime[v]
        if not self.crypto.is_valid_signature(self.pk[v], mp, e.body.attestation[32:]):
            self.fail("create_attestation:bad-own-signature", tag + " with a signature that does not verify")
        md = self.metas.get(mp)
        if md is None:
            self.fail(site + ":unknown-metadata", tag + ", which nobody ever disclosed")
            return
        tp, js, msig = md
        if not self.crypto.is_valid_signature(self.pk[p], tp + js, msig):
            self.fail("add_metadata:not-subjects-metadata", tag + " but the metadata is not signed by the subject")
        tok = self.tokens.get(tp)
        if tok is None or not self.root_path_ok(v, p, tp):
            self.fail("substantiate:chain-not-verified", tag + " but the token it points to has no verified path to the "
                      "subject's genesis among the tokens that subject disclosed")
            return
        # every (complete) token the subject disclosed in the triggering message must be the subject's, and every
        # (authority, attestation) pair the disclosure DECLARES through its authorities list must be present.  Deliberately
        # NOT judged (the code is stricter, but the property does not ask for it): a trailing partial token chunk, and
        # whether a complete third-party attestation verifies
        if trigger.kind == 1:
            _, declared_incomplete = self.parse_attestations(trigger.body.attestations, trigger.body.authorities)
            if declared_incomplete:
                self.fail("substantiate:declared-attestation-missing",
                          tag + " in reaction to a disclosure that names an authority whose attestation is missing, cut "
                          "short or unreadable: what the disclosure declares cannot be verified")
        toks, _ = self.parse_tokens(trigger.body.tokens)
        if any(not (t["vk"] >> p) & 1 for t in toks):
            self.fail("_received_disclosure_for_attest:disclosure-not-verified",
                      tag + " in reaction to a disclosure containing a token that does not verify under the subject's key")
        try:
            tr = json.loads(js)
            name = tr["name"]
            extra = {k: x for k, x in tr.items() if k not in ("name", "date", "schema")}
        except Exception:
            self.fail(site + ":no-name", tag + " but the metadata has no readable name")
            return
        content = tok[1]
        key_ = (v, self.lifetime[v], p)
        if (key_, content) in self.seen_attr:
            self.ctx.count("oracle:attest:further-metadata-same-attribute-hash")
        if (key_, tp) in self.seen_tok:
            self.ctx.count("oracle:attest:further-metadata-same-token")
        self.seen_attr.add((key_, content))
        self.seen_tok.add((key_, tp))
        cands = [r for r in self.regs[v] if r["h"] == content]
        if not cands:
            self.fail(site + ":hash-not-registered", tag + " but its user never registered that attribute hash")
            return
        c2 = [r for r in cands if r["key"] == p]
        if not c2:
            self.fail(site + ":subject-key", tag + " but the attribute hash was registered for another subject key only")
            return
        c3 = [r for r in c2 if jd(r["name"]) == jd(name)]
        if not c3:
            self.fail(site + ":name", tag + f" under name {name!r}, registered only under {[r['name'] for r in c2]}")
            return
        c4 = [r for r in c3 if r["md"] is None or jd(r["md"]) == jd(extra)]
        if not c4:
            self.fail(site + ":fixed-metadata", tag + f" with extra metadata {extra!r}, registration fixed "
                      f"{[r['md'] for r in c3]}")
            return
        c5 = [r for r in c4 if now <= r["t"] + WINDOW_MS]
        if not c5:
            self.fail(site + ":expired", tag + f" but the matching registrations were made at {[r['t'] for r in c4]}")

    def oracle_tokens_out(self, s, trigger, e, api):
        # who is being served: the authenticated sender of the request (its key), not whoever owns the address
        p = trigger.src if (trigger is not None and e.kind == 4) else e.dst
        toks, _ = self.parse_tokens(e.body.tokens)
        self.ctx.count("oracle:handout-judged:%s:%s" % ("missing_response" if e.kind == 4 else "disclose",
                                                        "empty" if not toks else "tokens"))
        site = "on_request_missing" if e.kind == 4 else "request_attestation_advertisement"
        if e.kind == 1 and api != "advert":
            site = "ez_send"
        opened = self.perm[s].get(p)
        allowed = self.chain[s][:opened] if opened is not None else []
        mine = set(self.chain[s])
        for t in toks:
            if t["h"] in allowed:
                continue
            if opened is None:
                self.fail(site + ":unpermitted-peer", f"node {s} handed token #{self.hid(t['h'])} to peer {p}, to whom "
                          "its user never opened the chain")
            elif t["h"] in mine:
                self.fail(site + ":beyond-permission", f"node {s} handed chain token at index "
                          f"{self.chain[s].index(t['h'])} to peer {p}, who was opened only {opened} tokens")
            else:
                self.fail(site + ":foreign-token", f"node {s} handed out token #{self.hid(t['h'])} that is not on its chain")
            break

    def oracle_rows(self, v, trigger: Pkt | None, before, after):
        old = set(before)
        for r in after:
            if r in old:
                continue
            subj, auth, mp, sig = r
            self.ctx.count("oracle:row-judged:" + ("own" if auth == self.pkbin[v] else
                                                   "from-attest-msg" if trigger is not None and trigger.kind == 2
                                                   else "from-disclosure"))
            try:
                ok = self.crypto.is_valid_signature(self.crypto.key_from_public_bin(auth), mp, sig)
            except Exception:
                ok = False
            tag = f"node {v} stored an attestation row (subject {self.kid(subj)}, authority {self.kid(auth)}, metadata #{self.hid(mp)})"
            if trigger is not None and trigger.kind == 2:
                if not ok:
                    self.fail("on_attest:stored-invalid-signature", tag + " whose signature does not verify")
                elif auth != self.pkbin[trigger.src]:
                    self.fail("on_attest:stored-not-senders", tag + f" received from peer {trigger.src}, not signed by it")
                elif subj != self.pkbin[v]:
                    self.fail("on_attest:wrong-subject", tag + " under a pseudonym that is not its own")
            elif not ok:
                self.fail("add_attestation:stored-invalid-signature", tag + " whose signature does not verify under the authority key")
            elif trigger is not None and trigger.kind in (1, 4) and subj != self.pkbin[trigger.src]:
                self.fail("substantiate:row-under-other-subject", tag + f" while handling a disclosure from peer {trigger.src}")
        for r in before:
            if r not in set(after):
                self.fail("insert_attestation:row-lost", f"node {v} lost an attestation row")

    # ---- events --------------------------------------------------------------------------------------------------
    def ev_reg(self, v, raw, name, subj, md):
        self.trace.append({"op": "reg", "v": v, "raw": raw.hex()[:8], "name": name, "subj": subj, "md": repr(md)})
        now = self.now()
        self.ov[v].add_known_hash(raw, name, self.pkbin[subj], md)
        padded = PAD + raw if len(raw) == 20 else raw
        self.regs[v].append({"t": now, "h": padded, "name": name, "key": subj, "md": md})
        self.lines.append("K %d %d %d %d %d %d %d %s" % (v, now, len(raw), self.hid(raw), self.hid(PAD + raw),
                                                        self.nid(name), subj, "-" if md is None else self.xid(md)))
        self.expect.append("ok")
        self.ctx.count("ev:reg")
        self.ctx.count("reg:name=" + ("str" if isinstance(name, str) else "non-str"))
        if isinstance(md, dict) and any(k in md for k in ("name", "date", "schema")):
            self.ctx.count("reg:md-carries-standard-key")
        self.ctx.count("reg:md=" + ("none" if md is None else "fixed-without-json-form" if jd(md).startswith("<no JSON")
                                    else "fixed"))
        self.ctx.count("reg:subject=" + ("node" if subj <= N_NODES else "third-party"))
        self.check_dump(v)

    def ev_restart(self, v, keep=False):
        """A new IdentityCommunity object (and a new IdentityManager: empty pseudonym cache) over the same database."""
        from ipv8.attestation.identity.community import IdentityCommunity, IdentitySettings
        from ipv8.attestation.identity.manager import IdentityManager
        from ipv8.peer import Peer
        from ipv8.test.mocking.ipv8 import MockIPv8
        self.trace.append({"op": "restart", "v": v, "keep_manager": keep})
        old = self.nodes[v]
        old_chain = [t.get_hash() for t in old.overlay.token_chain]
        if keep:
            im = old.overlay.identity_manager                    # production unload/load: the manager (and its
        else:                                                    # pseudonym cache with the subject trees) survives
            im = IdentityManager(":memory:")
            im.database.close()
            im.database = old.overlay.identity_manager.database  # same tables, nothing else survives
        n = MockIPv8(Peer(self.sk[v]), IdentityCommunity, settings=IdentitySettings(identity_manager=im))
        self.retired.append(old)
        self.nodes[v], self.ov[v] = n, n.overlay
        self.addr[v] = n.endpoint.wan_address
        self.by_addr[self.addr[v]] = v
        n.endpoint.send = self._mk_send(v)
        self.lifetime[v] += 1
        new_chain = [t.get_hash() for t in n.overlay.token_chain]
        # oracle bookkeeping: the user has to open the chain again; the chain is whatever the object reloaded
        self.ever_chain.setdefault(v, set()).update(old_chain)
        # a request the library refused half-way (metadata without a JSON form) leaves its token in the own tree; a later
        # reload may pick it up: own token, not judged here (seen: `restart:chain-has-token-of-refused-request`)
        own_tree = set(old.overlay.pseudonym_manager.tree.elements)
        if any(h not in self.ever_chain[v] for h in [t.get_hash() for t in n.overlay.token_chain]) :
            self.ctx.count("restart:chain-has-token-of-refused-request")
        self.ever_chain[v].update(own_tree)
        if sorted(new_chain) != sorted(set(new_chain)) or any(h not in self.ever_chain[v] for h in new_chain):
            self.fail("__init__:chain-reload", f"node {v} reloaded a chain with tokens it never had")
        self.ctx.count("restart:chain=%s" % ("same" if new_chain == old_chain else
                                             "reversed" if new_chain == old_chain[::-1] else
                                             "shorter" if len(new_chain) < len(old_chain) else "permuted"))
        self.chain[v] = new_chain
        self.perm[v] = {}
        self.lines.append("Z %d [%s] %d" % (v, ",".join(str(self.hid(h)) for h in new_chain), 1 if keep else 0))
        self.ctx.count("restart:manager=" + ("kept" if keep else "new"))
        self.expect.append("ok")
        self.ctx.count("ev:restart")
        self.check_dump(v)

    def ev_advance(self, dt):
        self.trace.append({"op": "adv", "dt": dt})
        self.loop.advance(dt)
        self.ctx.count("ev:advance")
        self.ctx.count("advance:" + ("fractional" if dt != int(dt) else "whole"))

    def ev_advert(self, s, v, raw, name, md):
        self.trace.append({"op": "advert", "s": s, "v": v, "raw": raw.hex()[:8], "len": len(raw), "name": name,
                           "md": repr(md)})
        ov = self.ov[s]
        q0 = len(self.queue)
        n0 = len(ov.token_chain)
        try:
            ov.request_attestation_advertisement(self.ov[v].my_peer, raw, name, "id_metadata", md)
            self.ctx.count("advert:" + ("credential-made" if len(ov.token_chain) == n0 + 1 else "no-credential"))
        except Exception as exc:       # the call is refused (malformed hash, metadata without a JSON form, ...):
            self.ctx.count("advert:raised:" + type(exc).__name__)   # nothing may have been opened or sent
            if len(ov.token_chain) != n0:
                self.fail("request_attestation_advertisement:chain-grew-although-raised",
                          f"node {s}: the call raised {type(exc).__name__} but the chain grew")
        emitted = self.queue[q0:]
        if len(ov.token_chain) == n0 + 1:
            tok, meta = ov.token_chain[-1], ov.metadata_chain[-1]
            th = tok.get_hash()
            self.tokens.setdefault(th, (tok.previous_token_hash, tok.content_hash, tok.signature))
            self.metas.setdefault(meta.get_hash(), (meta.token_pointer, meta.serialized_json_dict, meta.signature))
            self.chain[s].append(th)
            self.perm[s][v] = len(self.chain[s])
            mlen = 4 + len(meta.get_plaintext_signed())
            # after a restart the reloaded chain can fork (metadata_chain is rebuilt in set order): the model's linear
            # chain does not predict how many tokens the new token's root path has
            self.lines.append("V %d %d %d %d %d %d %s" % (s, self.now(), v, self.hid(th), self.hid(meta.get_hash()), mlen,
                                                         "x" if self.lifetime[s] else "n"))
        else:
            self.lines.append("V %d %d %d 0 0 0 n" % (s, self.now(), v))
        outs = sorted(self.out_str(e) for e in emitted)
        if self.lifetime[s]:
            outs = sorted(re.sub(r"^(P\d+:\[\d*\]):\d+:(all|sub)$", r"\1:*", o) for o in outs)
        self.expect.append(" ".join(outs) or "-")
        for e in emitted:
            self.ctx.count("out:" + {1: "disclose", 2: "attest", 3: "request_missing", 4: "missing_response"}.get(e.kind, "other"))
            if e.dst != v:
                self.fail("request_attestation_advertisement:other-destination",
                          f"node {s} was asked to advertise to peer {v} and sent message {e.kind} to {e.dst}")
        self.oracle_outputs(s, None, emitted, api="advert")
        self.ctx.count("ev:advert")
        self.check_dump(s)

    def ev_selfadv(self, s, raw, name):
        self.trace.append({"op": "selfadv", "s": s, "raw": raw.hex()[:8], "name": name})
        ov = self.ov[s]
        q0 = len(self.queue)
        try:
            cred = ov.self_advertise(raw, name)
        except Exception as exc:
            self.ctx.count("self_advertise:raised:" + type(exc).__name__)
            cred = None
        if cred is not None:
            tok, meta = ov.token_chain[-1], ov.metadata_chain[-1]
            th = tok.get_hash()
            self.tokens.setdefault(th, (tok.previous_token_hash, tok.content_hash, tok.signature))
            self.metas.setdefault(meta.get_hash(), (meta.token_pointer, meta.serialized_json_dict, meta.signature))
            self.chain[s].append(th)
            self.lines.append("S %d %d %d" % (s, self.now(), self.hid(th)))
            self.expect.append("ok")
        self.oracle_outputs(s, None, self.queue[q0:], api="selfadv")
        self.ctx.count("ev:self_advertise")

    def ev_deliver(self, pkt: Pkt, replayed=False, via=None):
        """hand the packet to its destination; `via` = node whose network address the packet appears to come from (two
        keys behind one address: shared endpoint, tunnel exit, re-used NAT mapping); default: the sender's own address"""
        v = pkt.dst
        if v is None:
            return
        if via is not None and via != pkt.src:
            self.ctx.count("deliver:via-address-of-another-key")
        self.ctx.count("ev:deliver:%s%s" % ({1: "disclose", 2: "attest", 3: "request_missing", 4: "missing_response"}
                                            .get(pkt.kind, "other"), ":replay" if replayed else ""))
        before = self.rows(v)
        self._rows_before[v] = before
        q0 = len(self.queue)
        self.nodes[v].endpoint.notify_listeners((self.addr[via if via is not None else pkt.src], pkt.data))
        emitted = self.queue[q0:]
        after = self.rows(v)
        if pkt not in self.history:
            self.history.append(pkt)
        now, p = self.now(), pkt.src
        if pkt.kind in (1, 4):
            toks, tabort = self.parse_tokens(pkt.body.tokens)
            if any(r["key"] == p for r in self.regs[v]):
                self.nontrivial = True
                # tokens count as disclosed to v only if the node looked at the message at all
                for t in toks:
                    if (t["vk"] >> p) & 1:
                        self.delivered[v].setdefault(p, set()).add(t["h"])
            if pkt.kind == 1:
                mds, mabort = self.parse_metadata(pkt.body.metadata)
                atts, aabort = self.parse_attestations(pkt.body.attestations, pkt.body.authorities)
            else:
                mds, mabort, atts, aabort = [], False, [], False
            db = self.ov[v].identity_manager.database
            order = [self.hid(c.metadata.get_hash()) for c in db.get_credentials_for(self.pk[p])]
            self.lines.append("D %d %d %d %s %s %s [%s]" % (v, now, p, self.l_tokens(toks, tabort),
                                                           self.l_mds(mds, mabort), self.l_atts(atts, aabort),
                                                           ",".join(map(str, order))))
            self.ctx.count("disclosure:tokens=%s" % (len(toks) if len(toks) < 3 else "3+"))
            self.ctx.count("disclosure:attestations=%d" % min(len(atts), 2))
            if tabort or mabort or aabort:
                self.ctx.count("disclosure:truncated")
        elif pkt.kind == 2:
            att = pkt.body.attestation
            if len(att) < 32 + SIGLEN:
                self.lines.append("T %d %d %d !" % (v, now, p))
                self.ctx.count("attest:truncated")
            else:
                mp, sig = att[:32], att[32:32 + SIGLEN]
                m = self.vk(mp, sig)
                self.lines.append("T %d %d %d %d:%s:%d" % (v, now, p, self.hid(mp), self.sigid(mp, sig), m))
                self.ctx.count("attest:" + ("valid-for-sender" if (m >> p) & 1 else "valid-for-other" if m else "invalid"))
        elif pkt.kind == 3:
            self.lines.append("Q %d %d %d %d" % (v, now, p, pkt.body.known))
            opened = self.perm[v].get(p)
            self.ctx.count("request_missing:" + ("unpermitted" if opened is None else
                                                 "beyond" if pkt.body.known >= opened else "within"))
        else:
            return
        outs = sorted(self.out_str(e, to=pkt.src) for e in emitted)
        self.expect.append(" ".join(outs) or "-")
        for e in emitted:
            self.ctx.count("out:" + {1: "disclose", 2: "attest", 3: "request_missing", 4: "missing_response"}[e.kind])
        self.oracle_outputs(v, pkt, emitted)
        self.oracle_rows(v, pkt, before, after)
        self.check_dump(v)

    def craft(self, p, v, payload, note):
        q0 = len(self.queue)
        self.ov[p].ez_send(self.ov[v].my_peer, payload)
        for e in self.queue[q0:]:
            e.crafted = True
            e.note = note
        return self.queue[q0:]


# ---- object recipes for crafted (dishonest) messages ----------------------------------------------------------------
def mk_token(w: World, signer, prev: bytes, content: bytes) -> bytes:
    from ipv8.attestation.tokentree.token import Token
    t = Token(prev, content_hash=content, private_key=w.sk[signer])
    return t.get_plaintext_signed()


def mk_metadata(w: World, signer, token_hash: bytes, js: bytes) -> bytes:
    from ipv8.attestation.identity.metadata import Metadata
    m = Metadata(token_hash, js, private_key=w.sk[signer])
    return m.get_plaintext_signed()


def mk_attestation(w: World, signer, mp: bytes) -> bytes:
    return mp + w.sk[signer].signature(mp)


def frame_md(blobs) -> bytes:
    return b"".join(struct.pack(">I", len(b)) + b for b in blobs)


def frame_auth(w: World, keys) -> bytes:
    return b"".join(struct.pack(">H", len(w.pkbin[k])) + w.pkbin[k] for k in keys)


class Gen:
    """Seeded event generator over one world.  Every random decision is recorded in w.trace (replayable)."""

    def __init__(self, w: World, hashes):
        self.w, self.rng = w, w.rng
        self.hashes = hashes                      # 5 x 32 bytes + 1 x 20 bytes
        self.shadow = {k: [] for k in w.sk}       # p -> token blobs made outside p's node (dishonest alternatives)
        self.known_mds = []                       # (signer, metadata blob)
        self.vidx = 0                             # which variant of its opener this world plays (rotates: see `pick`)

    def pick(self, options, salt=0):
        """opener variants rotate with the world index instead of being drawn: every variant occurs in every run"""
        return options[(self.vidx + salt) % len(options)]

    def rhash(self):
        return self.rng.choice(self.hashes)

    def node(self, *exclude):
        return self.rng.choice([k for k in self.w.nodes if k not in exclude])

    def json_variant(self, name, md, variant):
        base = {"name": name, "schema": "id_metadata", "date": float(self.w.loop.time())}
        if md:
            base.update(md)
        if variant == "ok":
            return json.dumps(base).encode()
        if variant == "no-date":
            base.pop("date")
        elif variant == "no-schema":
            base.pop("schema")
        elif variant == "no-name":
            base.pop("name")
        elif variant == "name-int":
            base["name"] = 7
        elif variant == "extra-int":
            base["a"] = 1
        elif variant == "extra-bool":
            base["a"] = True
        elif variant == "extra-float":
            base["a"] = 1.0
        elif variant == "bad-json":
            return b"{not json"
        elif variant == "list-json":
            return b"[1, 2]"
        return json.dumps(base).encode()

    def craft_disclosure(self, p, v, deliver=True):
        """A disclosure from p to v assembled from p's real chain, shadow tokens and doctored metadata."""
        w, rng = self.w, self.rng
        real = [t.get_plaintext_signed() for t in w.ov[p].token_chain]
        toks = []
        mode = rng.choice(["real", "real", "shadow", "shadow", "mixed", "none"])
        if mode in ("real", "mixed") and real:
            cut = rng.randint(1, len(real))
            toks += real[:cut] if rng.random() < 0.8 else real[cut - 1:cut]
        target = None       # token the doctored metadata will point to
        if mode in ("shadow", "mixed") or not real:
            # a fresh token signed by p with an arbitrary (possibly foreign-registered) content hash
            prev_choices = [w.genesis[p]] + [sha3(b) for b in real] + [sha3(b) for b in self.shadow[p]]
            prev = rng.choice(prev_choices)
            content = self.rhash()
            content = PAD + content if len(content) == 20 else content
            blob = mk_token(w, p, prev, content)
            self.shadow[p].append(blob)
            # include the ancestors (if they are real chain tokens) most of the time
            if prev != w.genesis[p] and rng.random() < 0.8:
                anc, cur = [], prev
                allb = {sha3(b): b for b in real + self.shadow[p]}
                while cur in allb and len(anc) < 60:
                    anc.append(allb[cur])
                    cur = allb[cur][:32]
                for b in reversed(anc):
                    if b not in toks:
                        toks.append(b)
            toks.append(blob)
            target = blob
        elif toks:
            target = rng.choice(toks)
        tv = rng.choice(["ok"] * 6 + ["foreign-signed", "garbage", "orphan", "truncate", "shuffle", "dup", "forged-link",
                                      "forged-link", "other-subjects-token", "forged-copy", "forged-copy"])
        w.ctx.count("craft:token-variant:" + tv)
        if tv == "forged-link" and toks:
            # one token of the chain keeps its place (predecessor pointer and content hash) but not its signature; its
            # successors are re-made on top of it, so the chain is unbroken apart from that one signature
            toks, target = self.forge_link(p, toks, target)
            if rng.random() < 0.6:
                toks = list(reversed(toks))          # children before parents: they wait for their predecessor
        if tv == "forged-copy" and toks:
            # a copy of a token the verifier may already have chained: same pointers, a signature that does not verify;
            # everything else in the disclosure (successors included: they point at the ORIGINAL's hash) stays genuine
            at = rng.randrange(len(toks))
            toks[at] = self.forged_copy(p, toks[at])
            w.ctx.count("craft:forged-copy:in-random-disclosure")
        bad = None
        if tv == "foreign-signed":
            q = rng.choice([k for k in w.sk if k != p])
            bad = mk_token(w, q, w.genesis[p], self.rhash().ljust(32, b"\0"))
            toks.append(bad)
        elif tv == "garbage":
            toks.insert(rng.randint(0, len(toks)), rng.randbytes(TOKSZ))
        elif tv == "orphan":
            bad = mk_token(w, p, rng.randbytes(32), self.rhash().ljust(32, b"\0"))
            toks.append(bad)
        elif tv == "other-subjects-token":
            # a genuine token of another subject's chain (the verifier may well have it in that subject's tree)
            others = [t.get_plaintext_signed() for k in w.nodes if k != p for t in w.ov[k].token_chain]
            if others:
                bad = rng.choice(others)
                if rng.random() < 0.5:
                    toks.append(bad)
        if bad is not None and rng.random() < 0.6:
            target = bad                        # the metadata made below points at the token that must not count
            w.ctx.count("craft:metadata-points-at:" + tv)
        elif tv == "shuffle":
            rng.shuffle(toks)
        elif tv == "dup" and toks:
            toks.append(rng.choice(toks))
        tokens = b"".join(toks)
        if tv == "truncate" and tokens:
            tokens = tokens[:-rng.randint(1, TOKSZ - 1)]
        # metadata
        mds = []
        n_md = rng.choice([0, 1, 1, 1, 2])
        for _ in range(n_md):
            mv = rng.choice(["ok"] * 5 + ["no-date", "no-schema", "no-name", "name-int", "extra-int", "extra-bool", "extra-float", "bad-json",
                                          "list-json", "foreign-signed", "dangling", "bad-sig", "reuse"])
            w.ctx.count("craft:metadata-variant:" + mv)
            name, md = rng.choice(NAMES), rng.choice(MDS)
            tgt = sha3(target) if target is not None else rng.randbytes(32)
            if mv == "dangling":
                tgt = rng.randbytes(32)
            if mv == "reuse" and self.known_mds:
                mds.append(rng.choice(self.known_mds)[1])
                continue
            signer = p
            if mv == "foreign-signed":
                signer = rng.choice([k for k in w.sk if k != p])
            blob = mk_metadata(w, signer, tgt, self.json_variant(name, md, mv))
            if mv == "bad-sig":
                blob = blob[:-1] + bytes([blob[-1] ^ 1])
            mds.append(blob)
            self.known_mds.append((signer, blob))
        metadata = frame_md(mds)
        if mds and rng.random() < 0.04:
            metadata = metadata[:-rng.randint(1, 40)] if rng.random() < 0.5 else metadata + b"\x00\x00"
            w.ctx.count("craft:metadata-variant:truncated")
        # attestations by third parties
        atts, auths = [], []
        n_att = rng.choice([0, 0, 0, 1, 1, 2])
        pool = [sha3(b) for b in mds] + [sha3(b) for _, b in self.known_mds[-4:]]
        for _ in range(n_att):
            if not pool:
                break
            av = rng.choice(["ok", "ok", "ok", "self", "wrong-authority", "bad-sig", "by-verifier"])
            w.ctx.count("craft:attestation-variant:" + av)
            x = rng.choice([k for k in w.sk if k not in (p, v)])
            if av == "self":
                x = p
            if av == "by-verifier":
                x = v
            mp = rng.choice(pool)
            a = mk_attestation(w, x, mp)
            if av == "bad-sig":
                a = a[:-1] + bytes([a[-1] ^ 1])
            atts.append(a)
            auths.append(rng.choice([k for k in w.sk if k != x]) if av == "wrong-authority" else x)
        attestations, authorities = b"".join(atts), frame_auth(w, auths)
        r = rng.random()
        if atts and r < 0.05:
            attestations = attestations[:-rng.randint(1, 50)]
            w.ctx.count("craft:attestation-variant:truncated")
        elif atts and r < 0.08:
            authorities = authorities[:-rng.randint(1, 70)]
            w.ctx.count("craft:attestation-variant:authority-truncated")
        elif r < 0.10:
            authorities += struct.pack(">H", 10) + b"LibNaCLPK:"
            w.ctx.count("craft:attestation-variant:authority-garbage")
        w.trace.append({"op": "craft_disclosure", "p": p, "v": v, "token_variant": tv, "n_tokens": len(toks),
                        "n_metadata": len(mds), "n_attestations": len(atts), "deliver": deliver})
        pk = w.craft(p, v, w.P.DisclosePayload(metadata, tokens, attestations, authorities), "crafted disclosure")
        w.ctx.count("ev:craft:disclose")
        if deliver:
            for e in pk:
                w.queue.remove(e)
                w.ev_deliver(e)

    def renewed_registration_replay(self, v, raw, name, subj, pk):
        """same lifetime: the window of the first registration runs out, the user registers the same attribute again
        and the old disclosure is replayed - what was attested must not be attested again"""
        w, rng = self.w, self.rng
        w.ev_advance(self.pick([301, 450.5, 900]))
        w.ev_reg(v, raw, name, subj, None)
        w.ctx.count("renewed-registration-then-replay")
        for e in pk:
            w.ev_deliver(e, replayed=True)

    def forged_copy(self, p, blob):
        """the same pointer pair (previous hash, content hash) under a signature that does not verify under p's key"""
        w, rng = self.w, self.rng
        kind = rng.choice(["garbage-signature", "signed-by-other-key", "bit-flip"])
        w.ctx.count("craft:forged-copy:" + kind)
        if kind == "garbage-signature":
            return blob[:64] + rng.randbytes(SIGLEN)
        if kind == "signed-by-other-key":
            return mk_token(w, rng.choice([k for k in w.sk if k != p]), blob[:32], blob[32:64])
        return blob[:-1] + bytes([blob[-1] ^ 1])

    def forge_link(self, p, toks, target, at=None):
        """Re-make the chain `toks` with token `at` carrying a signature that does not verify under p's key."""
        w, rng = self.w, self.rng
        at = rng.randrange(len(toks)) if at is None else at
        kind = rng.choice(["garbage-signature", "signed-by-other-key", "bit-flip"])
        w.ctx.count("craft:forged-link:" + kind)
        w.ctx.count("craft:forged-link:position=" + ("last" if at == len(toks) - 1 else "inner"))
        out, remap, new_target = [], {}, target
        for i, b in enumerate(toks):
            prev, content = b[:32], b[32:64]
            prev = remap.get(prev, prev)
            if i == at:
                if kind == "garbage-signature":
                    nb = prev + content + rng.randbytes(SIGLEN)
                elif kind == "signed-by-other-key":
                    nb = mk_token(w, rng.choice([k for k in w.sk if k != p]), prev, content)
                else:
                    good = mk_token(w, p, prev, content)
                    nb = good[:-1] + bytes([good[-1] ^ 1])
            elif prev != b[:32]:
                nb = mk_token(w, p, prev, content)
            else:
                nb = b
            remap[sha3(b)] = sha3(nb)
            if target is not None and b == target:
                new_target = nb
            out.append(nb)
        return out, new_target

    def craft_attest(self, p, v):
        w, rng = self.w, self.rng
        pool = list(w.metas.keys())
        mp = rng.choice(pool) if pool and rng.random() < 0.8 else rng.randbytes(32)
        av = rng.choice(["own", "own", "third-party", "bad-sig", "truncated", "long"])
        signer = p if av != "third-party" else rng.choice([k for k in w.sk if k != p])
        a = mk_attestation(w, signer, mp)
        if av == "bad-sig":
            a = a[:40] + bytes([a[40] ^ 1]) + a[41:]
        elif av == "truncated":
            a = a[:rng.randint(0, 95)]
        elif av == "long":
            a += b"xx"
        w.ctx.count("craft:attest:" + av)
        w.trace.append({"op": "craft_attest", "p": p, "v": v, "variant": av})
        for e in w.craft(p, v, w.P.AttestPayload(a), "crafted attest"):
            w.queue.remove(e)
            w.ev_deliver(e)

    def craft_request(self, p, s, known=None, via=None):
        w, rng = self.w, self.rng
        n = len(w.chain[s])
        if via is None and rng.random() < 0.15:
            # from the network address of another key, preferably one the owner opened its chain to
            opened = [k for k in w.perm[s] if k != p and k in w.nodes]
            via = rng.choice(opened) if opened else rng.choice([k for k in w.nodes if k not in (p, s)] or [None])
        if via is not None and via != p:
            w.ctx.count("request_missing:via-other-address:" +
                        ("requester-permitted" if p in w.perm[s] else "requester-unpermitted") + ":" +
                        ("address-permitted" if via in w.perm[s] else "address-unpermitted"))
        if known is None:
            known = rng.choice([0, 0, 1, max(0, n - 1), n, n + 1, rng.randint(0, n + 2), w.perm[s].get(p, 0)])
        w.trace.append({"op": "craft_request", "p": p, "s": s, "known": known, "via": via})
        w.ctx.count("ev:craft:request_missing")
        for e in w.craft(p, s, w.P.RequestMissingPayload(known), "crafted request"):
            w.queue.remove(e)
            w.ev_deliver(e, via=via)

    def craft_missing_response(self, p, v):
        w, rng = self.w, self.rng
        real = [t.get_plaintext_signed() for t in w.ov[p].token_chain] + self.shadow[p]
        rng.shuffle(real)
        toks = real[:rng.randint(0, min(len(real), 10))]
        if rng.random() < 0.2:
            toks.append(rng.randbytes(TOKSZ))
        blob = b"".join(toks)
        if rng.random() < 0.1 and blob:
            blob = blob[:-5]
        w.trace.append({"op": "craft_missing", "p": p, "v": v, "n_tokens": len(toks)})
        w.ctx.count("ev:craft:missing_response")
        for e in w.craft(p, v, w.P.MissingResponsePayload(blob), "crafted missing response"):
            w.queue.remove(e)
            w.ev_deliver(e)

    # ---- scripted openers: the combinations the property text names ------------------------------------------------
    def opener(self, kind):
        w, rng = self.w, self.rng
        v = self.node()
        a = self.node(v)
        b = self.node(v, a)
        h1, h2 = rng.sample(self.hashes[:5], 2)
        name = rng.choice(NAMES)
        if kind == "cross-subject":
            # h1 registered for b only; a holds a valid registration for h2 and discloses a chain carrying h1 as well
            w.ev_reg(v, h1, name, b, None)
            w.ev_reg(v, h2, name, a, None)
            w.ev_advert(a, v, h2, name, None)
            self.flush()
            blob = mk_token(w, a, w.chain[a][-1], h1)
            self.shadow[a].append(blob)
            md = mk_metadata(w, a, sha3(blob), self.json_variant(name, None, "ok"))
            real = [t.get_plaintext_signed() for t in w.ov[a].token_chain]
            pl = w.P.DisclosePayload(frame_md([md]), b"".join(real + [blob]), b"", b"")
            w.trace.append({"op": "opener", "kind": kind})
            for e in w.craft(a, v, pl, "cross-subject disclosure"):
                w.queue.remove(e)
                w.ev_deliver(e)
        elif kind == "expiry":
            w.ev_reg(v, h1, name, a, None)
            w.ev_advance(rng.choice([299, 299.875, 300, 300, 300.125, 301, 301, 302, 600]))
            w.ev_advert(a, v, h1, name, None)
            self.flush()
        elif kind == "third-party-first":
            # a discloses its credential together with a third party's attestation over it, then replays
            w.ev_reg(v, h1, name, a, None)
            cred = w.ov[a].self_advertise(h1, name)
            tok, meta = w.ov[a].token_chain[-1], w.ov[a].metadata_chain[-1]
            w.trace.append({"op": "opener", "kind": kind})
            w.tokens.setdefault(tok.get_hash(), (tok.previous_token_hash, tok.content_hash, tok.signature))
            w.metas.setdefault(meta.get_hash(), (meta.token_pointer, meta.serialized_json_dict, meta.signature))
            w.chain[a].append(tok.get_hash())
            w.lines.append("S %d %d %d" % (a, w.now(), w.hid(tok.get_hash())))
            w.expect.append("ok")
            x = rng.choice([k for k in w.sk if k not in (a, v)])
            real = [t.get_plaintext_signed() for t in w.ov[a].token_chain]
            att = mk_attestation(w, x, meta.get_hash())
            pl = w.P.DisclosePayload(frame_md([meta.get_plaintext_signed()]), b"".join(real), att, frame_auth(w, [x]))
            pk = w.craft(a, v, pl, "disclosure with third-party attestation")
            for e in pk:
                w.queue.remove(e)
            for _ in range(rng.randint(2, 3)):
                for e in pk:
                    w.ev_deliver(e, replayed=True)
            if self.pick([True, True, False]):
                # the node's own row was NOT stored (third party's came first): only its memory stands between the
                # renewed registration and a second attestation
                self.renewed_registration_replay(v, h1, name, a, pk)
        elif kind == "tainted":
            # everything needed for an attestation is there, but the disclosure carries one thing that does not verify
            w.ev_reg(v, h1, name, a, None)
            w.ev_selfadv(a, h1, name)
            meta = w.ov[a].metadata_chain[-1]
            real = [t.get_plaintext_signed() for t in w.ov[a].token_chain]
            x = rng.choice([k for k in w.sk if k not in (a, v)])
            taint = self.pick(["garbage-token", "foreign-token", "bad-attestation", "wrong-authority", "orphan-token",
                               "foreign-metadata", "attestation-missing", "attestation-cut-short",
                               "second-attestation-missing"])
            w.ctx.count("craft:taint:" + taint)
            toks, att, auth = list(real), b"", b""
            mdblob = meta.get_plaintext_signed()
            if taint.endswith("-token") and rng.random() < 0.5:
                # an invalid token followed by a perfectly valid third-party attestation
                att, auth = mk_attestation(w, x, meta.get_hash()), frame_auth(w, [x])
                w.ctx.count("craft:taint:+valid-attestation")
            at = rng.randint(0, len(toks))       # anywhere: before, between or after the real tokens
            if taint == "garbage-token":
                toks.insert(at, rng.randbytes(TOKSZ))
            elif taint == "foreign-token":
                toks.insert(at, mk_token(w, x, w.genesis[a], h2))
            elif taint == "orphan-token":
                toks.insert(at, mk_token(w, a, rng.randbytes(32), h2))
            elif taint == "foreign-metadata":
                # the same statement about a's token, but signed by somebody else
                mdblob = mk_metadata(w, x, meta.token_pointer, meta.serialized_json_dict)
            elif taint == "attestation-missing":
                # the disclosure names an authority, the attestation it announces is not there
                att, auth = b"", frame_auth(w, [x])
            elif taint == "attestation-cut-short":
                att = mk_attestation(w, x, meta.get_hash())[:rng.choice([1, 31, 32, 60, 95])]
                auth = frame_auth(w, [x])
            elif taint == "second-attestation-missing":
                att = mk_attestation(w, x, meta.get_hash())
                auth = frame_auth(w, [x, rng.choice([k for k in w.sk if k not in (x, a)])])
            elif taint == "bad-attestation":
                att = mk_attestation(w, x, meta.get_hash())
                att = att[:-1] + bytes([att[-1] ^ 1])
                auth = frame_auth(w, [x])
            else:
                att = mk_attestation(w, x, meta.get_hash())
                auth = frame_auth(w, [rng.choice([k for k in w.sk if k != x])])
            w.trace.append({"op": "opener", "kind": kind, "taint": taint})
            pl = w.P.DisclosePayload(frame_md([mdblob]), b"".join(toks), att, auth)
            for e in w.craft(a, v, pl, "tainted disclosure"):
                w.queue.remove(e)
                w.ev_deliver(e)
            if rng.random() < 0.5:
                pl = w.P.DisclosePayload(frame_md([meta.get_plaintext_signed()]), b"".join(real), b"", b"")
                for e in w.craft(a, v, pl, "clean disclosure"):
                    w.queue.remove(e)
                    w.ev_deliver(e)
        elif kind == "stale-plus-fresh":
            # an expired registration next to a fresh one for the same subject: only the fresh one may be honoured
            w.ev_reg(v, h1, name, a, None)
            w.ev_advance(rng.choice([301, 302, 400, 1000]))
            w.ev_reg(v, h2, name, a, None)
            w.ev_selfadv(a, h1, name)
            m1 = w.ov[a].metadata_chain[-1]
            w.ev_selfadv(a, h2, name)
            m2 = w.ov[a].metadata_chain[-1]
            real = [t.get_plaintext_signed() for t in w.ov[a].token_chain]
            w.trace.append({"op": "opener", "kind": kind})
            mds = [m1.get_plaintext_signed(), m2.get_plaintext_signed()]
            rng.shuffle(mds)
            pl = w.P.DisclosePayload(frame_md(mds), b"".join(real), b"", b"")
            for e in w.craft(a, v, pl, "stale and fresh credential"):
                w.queue.remove(e)
                w.ev_deliver(e)
        elif kind == "forged-copy-of-chained-token":
            # first contact is honest and chains the subject's tokens at the verifier; a later disclosure carries a NEW
            # signable credential whose root path repeats an already chained token with a signature that does not verify
            w.ev_reg(v, h1, name, a, None)
            w.ev_reg(v, h2, name, a, None)
            for i in range(self.pick([0, 1, 2])):
                w.ev_selfadv(a, sha3(b"pre%d" % i), "pre")
            w.ev_advert(a, v, h1, name, None)
            self.flush()
            w.ev_selfadv(a, h2, name)
            meta = w.ov[a].metadata_chain[-1]
            real = [t.get_plaintext_signed() for t in w.ov[a].token_chain]
            at = self.pick([0, len(real) - 2, 0], salt=1) if len(real) > 1 else 0
            toks_ = list(real)
            toks_[at] = self.forged_copy(a, real[at])
            how = self.pick(["replaced", "added-before", "added-after"], salt=self.vidx // 3)
            if how == "added-before":
                toks_ = [toks_[at]] + real
            elif how == "added-after":
                toks_ = real + [toks_[at]]
            w.ctx.count("forged-copy-of-chained-token:" + how)
            w.trace.append({"op": "opener", "kind": kind, "how": how, "at": at})
            pl = w.P.DisclosePayload(frame_md([meta.get_plaintext_signed()]), b"".join(toks_), b"", b"")
            for e in w.craft(a, v, pl, "new credential, root path with a forged copy of a chained token"):
                w.queue.remove(e)
                w.ev_deliver(e)
            if self.pick([True, False]):
                pl = w.P.DisclosePayload(frame_md([meta.get_plaintext_signed()]), b"".join(real), b"", b"")
                for e in w.craft(a, v, pl, "the same, genuine"):
                    w.queue.remove(e)
                    w.ev_deliver(e)
        elif kind == "shared-address":
            # a opens its chain to b only; another key (v) asks from b's network address, and b asks from v's address:
            # the permission belongs to the KEY that signed the request, not to the address it came from
            for i in range(rng.randint(1, 3)):
                w.ev_selfadv(a, sha3(b"own%d" % i), "own")
            w.ev_advert(a, b, h1, name, None)
            w.trace.append({"op": "opener", "kind": kind})
            for k in (0, 1):
                self.craft_request(v, a, known=k, via=b)       # unpermitted key, permitted address
                self.craft_request(b, a, known=k, via=v)       # permitted key, foreign address
                self.craft_request(b, a, known=k, via=b)
            if self.pick([False, True]):
                # the same for a disclosure: v holds a registration for a; b sends a's genuine disclosure from a's address
                w.ev_reg(v, h2, name, a, None)
                w.ev_advert(a, v, h2, name, None)
                pk = [e for e in w.queue if e.kind == 1 and e.src == a and e.dst == v]
                for e in pk:
                    w.queue.remove(e)
                    for e2 in w.craft(b, v, w.P.DisclosePayload(e.body.metadata, e.body.tokens, b"", b""), "a's disclosure, signed by b"):
                        w.queue.remove(e2)
                        w.ev_deliver(e2, via=a)
                    w.ev_deliver(e)
            self.flush()
        elif kind == "refused-advert-then-growth":
            # a opens (or not) its chain to b, then a request to b that the library refuses, then the chain grows for
            # other reasons, then b asks for everything: b may only get what was opened by SUCCESSFUL requests
            if rng.random() < 0.6:
                w.ev_advert(a, b, h1, name, None)
            for _ in range(rng.randint(1, 2)):
                if rng.random() < 0.5:
                    w.ev_advert(a, b, rng.randbytes(rng.choice([16, 31, 40])), name, None)
                else:
                    w.ev_advert(a, b, h2, name, rng.choice(MDS_NONJSON))
            for i in range(rng.randint(1, 3)):
                if rng.random() < 0.5:
                    w.ev_selfadv(a, sha3(b"private%d" % i), "private")
                else:
                    w.ev_advert(a, v, sha3(b"for-v%d" % i), name, None)
            w.trace.append({"op": "opener", "kind": kind})
            for k in (0, w.perm[a].get(b, 0), max(0, len(w.chain[a]) - 1)):
                self.craft_request(b, a, known=k)
            self.flush()
        elif kind == "bad-token-then-restart":
            # metadata of a points at a token that is NOT on a verified chain of a (a waiting orphan of a, or a token of
            # b's chain that v holds in b's tree); v restarts with a NEW manager (trees are reloaded from the Tokens
            # table), the user registers again, and a nudges v with an empty token list
            which = self.pick(["orphan", "other-subjects-token", "orphan"])
            w.ctx.count("bad-token-then-restart:" + which)
            w.ev_reg(v, h1, name, a, None)
            w.ev_selfadv(a, h2, name)
            real = [t.get_plaintext_signed() for t in w.ov[a].token_chain]
            if which == "orphan":
                badtok = mk_token(w, a, rng.randbytes(32), h1)
                toks_ = real + [badtok]
            else:
                w.ev_reg(v, h1, name, b, None)
                w.ev_advert(b, v, h1, name, None)
                self.flush()
                badtok = w.ov[b].token_chain[-1].get_plaintext_signed()
                toks_ = real
            md = mk_metadata(w, a, sha3(badtok), self.json_variant(name, None, "ok"))
            w.trace.append({"op": "opener", "kind": kind, "which": which})
            for e in w.craft(a, v, w.P.DisclosePayload(frame_md([md]), b"".join(toks_), b"", b""), "metadata over a bad token"):
                w.queue.remove(e)
                w.ev_deliver(e)
            w.ev_restart(v, keep=False)
            w.ev_reg(v, h1, name, a, None)
            for pl in (w.P.MissingResponsePayload(b""), w.P.DisclosePayload(frame_md([md]), b"".join(real), b"", b"")):
                for e in w.craft(a, v, pl, "nudge after restart"):
                    w.queue.remove(e)
                    w.ev_deliver(e)
        elif kind == "forged-out-of-order":
            # the subject's chain arrives out of order and one link of it is not signed by the subject: first the later
            # tokens (they wait for their predecessor) with properly signed metadata, then the earlier ones
            w.ev_reg(v, h1, name, a, None)
            n = rng.choice([2, 2, 3, 4])
            prev, blobs = w.genesis[a], []
            for i in range(n):
                blob = mk_token(w, a, prev, h1 if i == n - 1 else sha3(b"link%d" % i))
                blobs.append(blob)
                prev = sha3(blob)
            forged = self.pick([True, True, False, True])
            if forged:
                blobs, _ = self.forge_link(a, blobs, None, at=rng.choice([n - 1, n - 1, rng.randrange(n)]))
            w.ctx.count("forged-out-of-order:" + ("forged" if forged else "honest-control"))
            md = mk_metadata(w, a, sha3(blobs[-1]), self.json_variant(name, None, "ok"))
            w.trace.append({"op": "opener", "kind": kind, "n": n, "forged": forged})
            cut = rng.randint(1, n - 1)
            first, later = blobs[cut:], blobs[:cut]
            if rng.random() < 0.5:
                first = list(reversed(first))
            for e in w.craft(a, v, w.P.DisclosePayload(frame_md([md]), b"".join(first), b"", b""), "later tokens first"):
                w.queue.remove(e)
                w.ev_deliver(e)
            how = self.pick(["missing-response", "disclose", "one-by-one"])
            w.ctx.count("forged-out-of-order:rest-by-" + how)
            if how == "missing-response":
                pls = [w.P.MissingResponsePayload(b"".join(later))]
            elif how == "disclose":
                pls = [w.P.DisclosePayload(frame_md([md]), b"".join(later), b"", b"")]
            else:
                pls = [w.P.MissingResponsePayload(b) for b in reversed(later)]
            for pl in pls:
                for e in w.craft(a, v, pl, "earlier tokens afterwards"):
                    w.queue.remove(e)
                    w.ev_deliver(e)
            for e in w.craft(a, v, w.P.DisclosePayload(frame_md([md]), b"", b"", b""), "metadata once more"):
                w.queue.remove(e)
                w.ev_deliver(e)
        elif kind == "unserialisable-registration":
            # h1 registered with metadata that has no JSON form, h2 registered properly; one disclosure carries both
            # credentials: the first must be refused as a plain mismatch, the second must still be attested
            w.ev_reg(v, h1, name, a, rng.choice(MDS_NONJSON))
            w.ev_reg(v, h2, name, a, None)
            w.ev_selfadv(a, h1, name)
            m1 = w.ov[a].metadata_chain[-1]
            w.ev_selfadv(a, h2, name)
            m2 = w.ov[a].metadata_chain[-1]
            real = [t.get_plaintext_signed() for t in w.ov[a].token_chain]
            w.trace.append({"op": "opener", "kind": kind})
            pl = w.P.DisclosePayload(frame_md([m1.get_plaintext_signed(), m2.get_plaintext_signed()]), b"".join(real),
                                     b"", b"")
            for e in w.craft(a, v, pl, "credential with unserialisable registration next to a good one"):
                w.queue.remove(e)
                w.ev_deliver(e)
        elif kind == "restart":
            # first lifetime: attest a's credential, with or without a third party's attestation stored first;
            # then a new object over the same database, a renewed registration, and the same disclosure again
            variant = self.pick(["third-party-first", "own-row-stored", "third-party-first",
                                 "own-row-plus-row-of-other-subject"])
            keep = self.pick([False, True], salt=self.vidx // 4)
            w.ctx.count("restart-opener:" + variant)
            w.ev_reg(v, h1, name, a, None)
            w.ev_selfadv(a, h1, name)
            meta = w.ov[a].metadata_chain[-1]
            real = [t.get_plaintext_signed() for t in w.ov[a].token_chain]
            x = rng.choice([k for k in w.sk if k not in (a, v)])
            third_first = variant == "third-party-first"
            att, auth = (mk_attestation(w, x, meta.get_hash()), frame_auth(w, [x])) if third_first else (b"", b"")
            w.trace.append({"op": "opener", "kind": kind, "variant": variant, "keep_manager": keep})
            if variant == "own-row-plus-row-of-other-subject":
                # another subject b files x's attestation over a's metadata under ITS pseudonym first:
                # rows (b, x, mp) and later (a, v, mp) share the metadata pointer
                w.ev_reg(v, h2, name, b, None)
                pl = w.P.DisclosePayload(b"", b"", mk_attestation(w, x, meta.get_hash()), frame_auth(w, [x]))
                for e in w.craft(b, v, pl, "attestation over a foreign metadata filed under b"):
                    w.queue.remove(e)
                    w.ev_deliver(e)
            pl = w.P.DisclosePayload(frame_md([meta.get_plaintext_signed()]), b"".join(real), att, auth)
            pk = w.craft(a, v, pl, "disclosure before restart")
            for e in pk:
                w.queue.remove(e)
                w.ev_deliver(e)
            self.flush()
            if rng.random() < 0.5:
                w.ev_advert(v, b, h2, name, None)       # v also has a chain of its own and opened it to b
                self.craft_request(b, v, known=0)
            w.ev_restart(v, keep=keep)
            self.craft_request(b, v, known=0)           # permissions do not survive
            for e in pk:
                w.ev_deliver(e, replayed=True)           # nothing registered in this lifetime: unsolicited
            w.ev_reg(v, h1, name, a, None)
            for e in pk:
                w.ev_deliver(e, replayed=True)
            for e in pk:
                w.ev_deliver(e, replayed=True)
        elif kind == "orphan-flood":
            # more waiting tokens than the tree keeps (100): the oldest are forgotten; then the missing link arrives
            w.ev_reg(v, h1, name, a, None)
            n = self.pick([98, 101, 105, 120])
            prev, blobs = w.genesis[a], []
            for i in range(n):
                blob = mk_token(w, a, prev, h1 if i == n - 1 else sha3(b"flood%d" % i))
                blobs.append(blob)
                prev = sha3(blob)
            w.trace.append({"op": "opener", "kind": kind, "n": n})
            w.ctx.count("orphan-flood:%s" % ("over-cap" if n - 1 > 100 else "within-cap"))
            order = list(reversed(blobs[1:]))            # newest first: every one of them waits for its predecessor
            for i in range(0, len(order), 40):
                for e in w.craft(a, v, w.P.MissingResponsePayload(b"".join(order[i:i + 40])), "orphans"):
                    w.queue.remove(e)
                    w.ev_deliver(e)
            for e in w.craft(a, v, w.P.MissingResponsePayload(blobs[0]), "the missing first token"):
                w.queue.remove(e)
                w.ev_deliver(e)
            md = mk_metadata(w, a, sha3(blobs[-1]), self.json_variant(name, None, "ok"))
            for e in w.craft(a, v, w.P.DisclosePayload(frame_md([md]), b"", b"", b""), "metadata for the last token"):
                w.queue.remove(e)
                w.ev_deliver(e)
        elif kind == "replay":
            w.ev_reg(v, h1, name, a, None)
            w.ev_advert(a, v, h1, name, None)
            pk = [e for e in w.queue if e.kind == 1 and e.src == a]
            self.flush()
            for _ in range(rng.randint(1, 3)):
                if rng.random() < 0.3:
                    w.ev_advance(rng.choice([1, 100, 301]))
                for e in pk:
                    w.ev_deliver(e, replayed=True)
            if self.pick([True, False]):
                self.renewed_registration_replay(v, h1, name, a, pk)
        elif kind == "long-chain":
            n = rng.choice([8, 9, 10, 11, 12, 21, 39])
            for i in range(n):
                w.ev_selfadv(a, sha3(b"attr%d" % i), "attribute%d" % (i % 3))
            opened_to = rng.choice([v, b])
            w.ev_reg(opened_to, h1, name, a, None)
            w.ev_advert(a, opened_to, h1, name, None)
            for i in range(rng.randint(0, 3)):
                w.ev_selfadv(a, sha3(b"later%d" % i), "later")
            for q in (v, b):
                self.craft_request(q, a)
                self.craft_request(q, a, known=rng.choice([0, len(w.chain[a]) - 2, w.perm[a].get(q, 0)]))
            self.flush()
        elif kind == "sha1":
            h20 = self.hashes[5]
            w.ev_reg(v, h20, name, a, None)
            w.ev_advert(a, v, h20 if rng.random() < 0.7 else h1, name, None)
            self.flush()
        elif kind == "fixed-metadata":
            if self.pick([False, True, False]):
                md = self.pick(MDS_STANDARD_KEY, salt=self.vidx // 3)
                w.ctx.count("fixed-metadata:registered-with-standard-key")
                w.ev_reg(v, h1, name, a, md)
                # the credential agrees in every custom field; it can differ only in the standard key
                w.ev_advert(a, v, h1, name, {k: x for k, x in md.items() if k not in ("name", "date", "schema")} or None)
            else:
                md = rng.choice(MDS[2:])
                w.ev_reg(v, h1, name, a, md)
                w.ev_advert(a, v, h1, name, rng.choice(MDS[2:] + [md, md]))
            self.flush()
        elif kind == "wrong-name":
            w.ev_reg(v, h1, name, a, None)
            w.ev_advert(a, v, h1, rng.choice(NAMES), None)
            self.flush()

    def flush(self, limit=12):
        """deliver everything in flight (and whatever that triggers), oldest first"""
        w = self.w
        n = 0
        while w.queue and n < limit:
            e = w.queue.pop(0)
            w.ev_deliver(e)
            n += 1

    def random_event(self):
        w, rng = self.w, self.rng
        r = rng.random()
        if r < 0.16:
            v = self.node()
            subj = rng.choice([k for k in (w.nodes if rng.random() < 0.9 else w.sk) if k != v])
            w.ev_reg(v, self.rhash(), rng.choice(NAMES_TYPED) if rng.random() < 0.08 else rng.choice(NAMES), subj,
                     rng.choice(MDS_NONJSON) if rng.random() < 0.06 else
                     rng.choice(MDS_STANDARD_KEY) if rng.random() < 0.06 else rng.choice(MDS))
        elif r < 0.27:
            s = self.node()
            v = self.node(s)
            # prefer something v has registered for s (so that honest runs succeed often)
            regs = [x for x in w.regs[v] if x["key"] == s]
            if regs and rng.random() < 0.7:
                x = rng.choice(regs)
                raw = x["h"][len(PAD):] if x["h"].startswith(PAD) else x["h"]
                w.ev_advert(s, v, raw, x["name"] if rng.random() < 0.7 else rng.choice(NAMES + NAMES_TYPED),
                            x["md"] if rng.random() < 0.7 and not jd(x["md"]).startswith("<no JSON") else rng.choice(MDS))
            elif rng.random() < 0.25:
                # a request the library refuses: hash that is not digest sized, or metadata without a JSON form
                if rng.random() < 0.5:
                    w.ev_advert(s, v, rng.randbytes(rng.choice([0, 16, 31, 33])), rng.choice(NAMES), rng.choice(MDS))
                else:
                    w.ev_advert(s, v, self.rhash(), rng.choice(NAMES), rng.choice(MDS_NONJSON))
            else:
                w.ev_advert(s, v, self.rhash(), rng.choice(NAMES), rng.choice(MDS))
        elif r < 0.30:
            w.ev_selfadv(self.node(), self.rhash(), rng.choice(NAMES))
        elif r < 0.50:
            if w.queue:
                e = w.queue.pop(0 if rng.random() < 0.7 else rng.randrange(len(w.queue)))
                w.trace.append({"op": "deliver", "kind": e.kind, "src": e.src, "dst": e.dst})
                w.ev_deliver(e)
        elif r < 0.58:
            if w.history:
                e = rng.choice(w.history)
                w.trace.append({"op": "replay", "kind": e.kind, "src": e.src, "dst": e.dst})
                w.ev_deliver(e, replayed=True)
        elif r < 0.595:
            if w.queue:
                w.queue.pop(rng.randrange(len(w.queue)))
                w.trace.append({"op": "drop"})
                w.ctx.count("ev:drop")
        elif r < 0.61:
            w.ev_restart(self.node(), keep=rng.random() < 0.5)
        elif r < 0.69:
            # clock: small steps, or exactly onto / past the end of some registration's window
            allregs = [x for v in w.regs for x in w.regs[v]]
            if allregs and rng.random() < 0.5:
                x = rng.choice(allregs)
                tgt = x["t"] + rng.choice([WINDOW_MS - 1000, WINDOW_MS - 125, WINDOW_MS, WINDOW_MS, WINDOW_MS + 125,
                                           WINDOW_MS + 1000])
                if tgt > w.now():
                    w.ev_advance((tgt - w.now()) / 1000)
                    return
            w.ev_advance(rng.choice([0.125, 1, 1, 10.5, 100, 150, 299, 299.875, 300, 300.125, 301]))
        elif r < 0.84:
            pairs = [(x["key"], v_) for v_ in w.nodes for x in w.regs[v_] if x["key"] in w.nodes and x["key"] != v_]
            if pairs and rng.random() < 0.7:
                p, v_ = rng.choice(pairs)           # v_ holds (or held) a registration for p: the message is looked at
                w.ctx.count("craft:disclose:to-registered-verifier")
            else:
                p = self.node()
                v_ = self.node(p)
            self.craft_disclosure(p, v_, deliver=rng.random() < 0.85)
        elif r < 0.90:
            p = self.node()
            self.craft_attest(p, self.node(p))
        elif r < 0.96:
            p = self.node()
            self.craft_request(p, self.node(p))
        else:
            p = self.node()
            self.craft_missing_response(p, self.node(p))


OPENERS = ["cross-subject", "expiry", "third-party-first", "replay", "long-chain", "sha1", "fixed-metadata",
           "wrong-name", "tainted", "restart", "stale-plus-fresh", "orphan-flood",
           "unserialisable-registration", "forged-out-of-order",
           "bad-token-then-restart", "refused-advert-then-growth",
           "shared-address", "forged-copy-of-chained-token", "none"]


async def run_world(ctx: Ctx, loop, use_model: bool, opener: str, n_events: int, world_seed: int, vidx: int = 0):
    w = World(ctx, loop, use_model, world_seed)
    w.opener, w.n_events = opener, n_events
    try:
        hashes = [w.rng.randbytes(32) for _ in range(5)] + [w.rng.randbytes(20)]
        g = Gen(w, hashes)
        g.vidx = vidx
        w.vidx = vidx
        ctx.count("opener:" + opener)
        try:
            g.opener(opener)
            for _ in range(n_events):
                g.random_event()
            g.flush(limit=20)
        except InfraError:
            raise
        except Exception as exc:       # the harness reads private state / calls APIs of the tree under test: if that
            import traceback           # fails, the observation failed - a broken correspondence, never exit 2
            tb = traceback.extract_tb(exc.__traceback__)[-1]
            w.observation_failed = "%s: %s (at %s:%d)" % (type(exc).__name__, exc, tb.filename.split("/")[-1], tb.lineno)
            ctx.count("world:observation-failed")
    finally:
        for n in list(w.nodes.values()) + w.retired:
            await n.stop()
    return w


def compare(ctx: Ctx, w: World, replies):
    for i, (ln, exp, got) in enumerate(zip(w.lines, w.expect, replies)):
        ctxt = w.lines[max(0, i - 40):i + 1]
        if isinstance(exp, tuple):
            _, rows, known, perms = exp
            parts = got.split(" | ")
            if len(parts) != 3:
                ctx.disagree(f"model dump unreadable {got!r} on `{ln}`", {"line": ln, "model": got})
                return
            for label, e, m in (("Attestations rows", rows, parts[0]), ("consent table", known, parts[1]),
                                ("permissions", perms, parts[2])):
                if e is not None and e != m:
                    ctx.disagree(f"{label}: model {m!r} != implementation {e!r} after `{w.lines[i - 1][:300]}`",
                                 {"line": ln, "model": m, "impl": e, "what": label, "lines": ctxt})
                    return
        else:
            model = got.split(" # ")[0]
            if " # " in got:
                for tag in got.split(" # ")[1].split():
                    ctx.count("should_sign:" + tag)
            if model != exp:
                ctx.disagree(f"model {model!r} != implementation {exp!r} on `{ln[:300]}`",
                             {"line": ln, "model": model, "impl": exp, "lines": ctxt})
                return


def run_worlds(ctx: Ctx, n_worlds: int, use_model: bool):
    import ipv8.attestation.identity.community  # noqa: F401  (so that vclock.install patches its `time`)
    logging.getLogger("IdentityCommunity").setLevel(logging.CRITICAL)
    logging.disable(logging.CRITICAL)
    loop = vclock.new_loop()
    try:
        for i in range(n_worlds):
            opener = OPENERS[i % len(OPENERS)]
            n_events = ctx.rng.randint(25, 45)
            ws = ctx.rng.getrandbits(32)
            w = loop.run_until_complete(run_world(ctx, loop, use_model, opener, n_events, ws, i // len(OPENERS)))
            if w.observation_failed:
                ctx.disagree("the harness could not observe the implementation (private state or an API it reads "
                             "changed shape): " + w.observation_failed, {"opener": opener, "world_seed": ws})
            if use_model:
                d = ctx.driver()
                replies = d.batch(w.lines)
                compare(ctx, w, replies)
            ctx.case(hashlib.sha1("\n".join(w.lines).encode()).hexdigest(), w.nontrivial)
            ctx.count("world:events", len(w.trace))
            if ctx.searching and [f for f in ctx.failures if f["signature"] != KNOWN_SIGNATURE]:
                break
            if len(ctx.failures) >= 200 or (len(ctx.disagreements) >= 200 and _new_failures(ctx)):
                ctx.extra["stopped_early"] = f"after {i + 1} of {n_worlds} worlds: failure/disagreement buffer full"
                break
            if i < 2:
                ctx.sample({"opener": opener, "first_lines": w.lines[:8]})
    finally:
        vclock.uninstall()
        logging.disable(logging.NOTSET)
        asyncio.set_event_loop(None)
        loop.close()


async def run_matrix_world(ctx: Ctx, loop, use_model, combo, world_seed):
    """One cell of the exhaustive single-registration matrix: who the hash was registered for, which name and fixed
    metadata, how old the registration is, what the subject then discloses; followed by one replay."""
    reg_for_other, name_ok, md_reg, md_adv, age, sha1 = combo
    w = World(ctx, loop, use_model, world_seed)
    w.opener, w.n_events = "matrix:" + repr(combo), 0
    try:
        try:
            v, a, b = 1, 2, 3
            h = w.rng.randbytes(20 if sha1 else 32)
            reg_name, adv_name = ("attribute", "attribute") if name_ok is True else ("attribute", "name1") if name_ok is False \
                else name_ok
            w.ev_reg(v, h, reg_name, b if reg_for_other else a, md_reg)
            if reg_for_other:
                # the requester holds a different, valid registration (the case the unit tests never combine)
                h2 = w.rng.randbytes(32)
                w.ev_reg(v, h2, "attribute", a, None)
                w.ev_advert(a, v, h2, "attribute", None)
                g0 = Gen(w, [h, h2])
                g0.flush()
            w.ev_advance(age)
            w.ev_advert(a, v, h, adv_name, md_adv)
            pk = [e for e in w.queue if e.kind == 1 and e.src == a]
            g = Gen(w, [h])
            g.flush()
            for e in pk:
                w.ev_deliver(e, replayed=True)
            g.flush()
        except InfraError:
            raise
        except Exception as exc:
            w.observation_failed = "%s: %s" % (type(exc).__name__, exc)
            ctx.count("world:observation-failed")
    finally:
        for n in list(w.nodes.values()) + w.retired:
            await n.stop()
    return w


def _new_failures(ctx: Ctx):
    return [f for f in ctx.failures if f["signature"] != KNOWN_SIGNATURE]


def run_matrix(ctx: Ctx, use_model: bool):
    import itertools
    import ipv8.attestation.identity.community  # noqa: F401
    logging.disable(logging.CRITICAL)
    loop = vclock.new_loop()
    try:
        combos = itertools.product([False, True], [True, False, (True, 1), (1, 1.0), (1, 1)] if ctx.thorough() and not ctx.searching else [True, False, (True, 1)],
                                   [None, {}, {"a": "b"}, {"a": 1}],
                                   [None, {"a": "b"}, {"a": "c"}, {"a": True}],
                                   [0, 300, 300.125, 301], [False, True] if ctx.thorough() and not ctx.searching else [False])
        for i, combo in enumerate(combos):
            w = loop.run_until_complete(run_matrix_world(ctx, loop, use_model, combo, 1000 + i))
            if w.observation_failed:
                ctx.disagree("the harness could not observe the implementation: " + w.observation_failed, {"matrix": repr(combo)})
            if use_model:
                compare(ctx, w, ctx.driver().batch(w.lines))
            ctx.case(("matrix", combo), w.nontrivial)
            ctx.count("matrix:cells")
            if len(ctx.failures) >= 200 or (len(ctx.disagreements) >= 200 and _new_failures(ctx)):
                break
    finally:
        vclock.uninstall()
        logging.disable(logging.NOTSET)
        asyncio.set_event_loop(None)
        loop.close()


# Input / branch classes every run (quick included) must reach.  A class that stays at zero means the generator silently lost
# coverage of a branch the design lists: the run then ends as an infrastructure error (exit 2), never as a pass.
REQUIRED_CLASSES = (
    ["should_sign:" + k for k in ("unsolicited", "aborted", "incorrect", "json-raises", "token-unknown", "fields-missing",
                                  "hash-unregistered", "other-subject", "expired", "name-differs", "metadata-differs",
                                  "attested-mem", "attested-db", "signs")]
    + ["attest:" + k for k in ("valid-for-sender", "valid-for-other", "invalid", "truncated")]
    + ["request_missing:" + k for k in ("unpermitted", "beyond", "within")]
    + ["out:" + k for k in ("attest", "request_missing", "missing_response", "disclose")]
    + ["restart:manager=kept", "restart:manager=new", "restart:chain=reversed", "restart:chain=same"]
    + ["restart-opener:" + k for k in ("third-party-first", "own-row-stored", "own-row-plus-row-of-other-subject")]
    + ["craft:taint:" + k for k in ("garbage-token", "foreign-token", "bad-attestation", "wrong-authority", "orphan-token",
                                    "foreign-metadata", "attestation-missing", "attestation-cut-short",
                                    "second-attestation-missing")]
    + ["fixed-metadata:registered-with-standard-key", "reg:md-carries-standard-key",
       "forged-copy-of-chained-token:replaced", "forged-copy-of-chained-token:added-before",
       "forged-copy-of-chained-token:added-after", "craft:forged-copy:in-random-disclosure",
       "renewed-registration-then-replay"]
    + ["forged-out-of-order:forged", "forged-out-of-order:honest-control", "craft:forged-link:position=last",
       "craft:forged-link:position=inner", "bad-token-then-restart:orphan", "bad-token-then-restart:other-subjects-token",
       "orphan-flood:over-cap", "orphan-flood:within-cap", "advert:raised:RuntimeError", "advert:raised:TypeError",
       "advert:credential-made", "deliver:via-address-of-another-key",
       "request_missing:via-other-address:requester-unpermitted:address-permitted",
       "request_missing:via-other-address:requester-permitted:address-unpermitted", "disclosure:truncated", "disclosure:attestations=1", "reg:name=non-str",
       "reg:md=fixed-without-json-form", "reg:md=none", "reg:md=fixed", "advance:fractional", "advance:whole",
       "ev:deliver:disclose:replay", "oracle:attest-judged", "oracle:row-judged:own", "oracle:row-judged:from-attest-msg",
       "oracle:row-judged:from-disclosure", "oracle:handout-judged:missing_response:tokens",
       "oracle:handout-judged:missing_response:empty", "oracle:handout-judged:disclose:tokens",
       "oracle:attested-again-after-restart:third-party-row-first", "matrix:cells"])


def require_classes(ctx: Ctx):
    missing = [k for k in REQUIRED_CLASSES if not ctx.counts.get(k)]
    ctx.extra["required_classes"] = {"listed": len(REQUIRED_CLASSES), "missing": missing}
    if missing and not _new_failures(ctx) and not ctx.disagreements and not ctx.broken:
        raise InfraError("coverage lost: these input/branch classes were not reached in this run: " + ", ".join(missing))


def generate(ctx: Ctx):
    return [("Ipv8/C17/Gen.lean", gen_c17.translate())]


def run(ctx: Ctx):
    if ctx.replay_input is not None:
        return replay(ctx, ctx.replay_input)
    run_matrix(ctx, ctx.model_ok)
    run_worlds(ctx, ctx.scale(228, 3002), ctx.model_ok)
    if ctx.model_ok:
        require_classes(ctx)


def search(ctx: Ctx, reason: str):
    # bounded: a failing quick run has to end within ~3 minutes; stop at the first new failing input
    run_matrix(ctx, False)
    if not [f for f in ctx.failures if f["signature"] != KNOWN_SIGNATURE]:
        run_worlds(ctx, 8 * len(OPENERS), False)


def replay(ctx: Ctx, rec: dict):
    """Re-run the recorded world: the world seed fixes keys, hashes and every event choice."""
    r = rec.get("replay", rec)
    import ipv8.attestation.identity.community  # noqa: F401
    logging.disable(logging.CRITICAL)
    loop = vclock.new_loop()
    try:
        if str(r["opener"]).startswith("matrix:"):
            import ast
            combo = ast.literal_eval(r["opener"][len("matrix:"):])
            w = loop.run_until_complete(run_matrix_world(ctx, loop, False, combo, r["world_seed"]))
        else:
            w = loop.run_until_complete(run_world(ctx, loop, False, r["opener"], r["n_events"], r["world_seed"],
                                                  r.get("vidx", 0)))
    finally:
        vclock.uninstall()
        logging.disable(logging.NOTSET)
        asyncio.set_event_loop(None)
        loop.close()
    ctx.case(("replay", r["world_seed"]), True)
    print(f"replay: world seed {r['world_seed']} opener {r['opener']} {r['n_events']} events -> "
          f"{len(w.trace)} events executed; property {'FAILS: ' + ctx.failures[0]['what'] if ctx.failures else 'holds'}")
