"""
C09 — tunnel state is always reclaimed, whatever gets lost.

Link to the code
  * translator tools/gen_c09.py regenerates lean/Ipv8/C09/GenC09.lean (TunnelSettings defaults, task intervals, the
    do_remove sweep conditions, the join-limit test, the relay_early budget test, the retry give-up test, the guard
    of the removal sleep) from the working tree on every run; the theorems are stated over those definitions;
  * correspondence: real TunnelCommunity nodes (MockIPv8 + AutoMockEndpoint, real Rust crypto, real exit sockets)
    run under the virtual clock with DEFAULT settings; every stimulus a node receives (cells reaching process_cell,
    authenticated destroys, local remove_* calls, retries, outside datagrams) is logged with its virtual time and
    replayed to the per-node Lean model (driver drv_c09); once per virtual second the three tables of every node,
    the retry state, open exit sockets, leaked sockets and the destroys / forwards / drops / refusals since the last
    checkpoint are compared;
  * oracle (independent of the model): at the virtual deadline every table of every live node is empty and every
    exit socket ever created has closed its transports; a create is never accepted at the join limit; a relay route
    never forwards more relay_early cells than the configured max_relay_early; no cell is emitted by send_cell for an id
    the node no longer holds; a torn-down circuit's entries are gone at its deadline also while other circuits live.
"""
from __future__ import annotations

import asyncio
import logging

import gen_c09
from vlib import Ctx, InfraError

PROPERTY = "C09"
LEAN_TARGETS = ["Ipv8.C09.Props"]
PROPS_FILE = "Ipv8/C09/Props.lean"
DRIVER = "drv_c09"
RULE = ("a case = one run on 4-6 real TunnelCommunity nodes under the virtual clock. Scenario cases: hops 1..3, phase "
        "{half-built, ready, mid-transfer}, teardown {originator destroy / destroy with reason 0 / abandon / dies, relay "
        "destroy / dies, exit destroy / dies, none}, teardown time, node count, fault plan (drop / duplicate / delay of "
        "destroy, create(d), extend(ed), relayed, ping/pong, data cells by kind, occurrence index and optionally "
        "source/destination node), outside chatter, traffic-limit hit, payload kind (allowed / refused by the exit "
        "policy / speed test), post-mortem data cells, nodes whose own circuit building fails; plus join-limit, "
        "relay_early and age-limit (3600 s) runs. distinct = distinct value of ALL these spec fields (so two cases "
        "that differ only in teardown time or node count count as distinct); non-trivial = a routing entry existed on "
        "a node other than the originator when the teardown happened (special runs: always)")
TRUSTED_BASE = [
    "tools/gen_c09.py (AST subset translator for the sweep/join/budget/give-up conditions and the settings)",
    "hand-written per-node model Ipv8/C09/Model.lean, tied to the code by the virtual-clock correspondence run",
    "tools/vclock.py and CPython asyncio timer semantics (timers fire in time order; a cancelled sleep never resumes)",
    "ipv8_rust_tunnels (real AEAD/DH used by the nodes; the model only sees 'decrypts here: yes/no')",
    "the harness taps (wrappers around process_cell, on_packet_from_circuit, send_extend, send_initial_create, "
    "request_cache.add, relay_cell, send_destroy, should_join_circuit, endpoint.send)",
]
ASSUMPTIONS = [
    "the periodic do_circuits task keeps running while the overlay is loaded (fairness)",
    "node clocks advance at the same rate; message delay in the mock network is zero unless the fault plan delays it",
    "cryptography is abstract: a cell either decrypts at a node or it does not (input of the model)",
    "forged traffic by third parties is out of scope (C05); only loss, duplication, delay/reordering of genuine messages",
]

TPS = gen_c09.TPS
SWEEP_ALLOWANCE_S = 5      # frozen: the property's bound allows one 5 s sweep period on top of the configured limits
BT_DATA = b"d1:ad2:id20:abcdefghij0123456789e1:q4:ping1:t2:aa1:y1:qe"
JUNK_DATA = b"\xff" * 30      # neither BT-like nor IPv8-like: the exit policy refuses it


def generate(ctx: Ctx):
    src, meta = gen_c09.translate()
    ctx.extra["translated_constants"] = {k: (v if isinstance(v, (int, float, bool)) else str(v)) for k, v in meta.items()}
    return [("Ipv8/C09/GenC09.lean", src)]


# ======================================================================================================
#  the world: real nodes under the virtual clock, with taps
# ======================================================================================================
class Fault:
    """one rule of a fault plan: matches packets on a link by kind and occurrence index"""

    def __init__(self, action, kinds, src=None, dst=None, nth=None, delay=0, window=None):
        self.action, self.kinds, self.src, self.dst, self.nth, self.delay, self.window = \
            action, set(kinds), src, dst, (set(nth) if nth is not None else None), delay, window
        self.seen = 0

    def key(self):
        return (self.action, tuple(sorted(self.kinds)), self.src, self.dst,
                tuple(sorted(self.nth)) if self.nth is not None else None, self.delay, self.window)


class World:
    def __init__(self, seed_rng, n_nodes, settings_patch=None):
        self.rng = seed_rng
        self.n = n_nodes
        self.nodes = []
        self.starts = []
        self.lines = {}           # label -> list of protocol lines (model input)
        self.expect = []          # (line index in flat list) handled at the end
        self.flat = []            # flat list of (line, expected-or-None, meta)
        self.pending = {}         # label -> list of stimulus records not yet flushed
        self.ctx = {}             # label -> current synchronous stimulus record (or None)
        self.outs = {}            # label -> dict(D=[], F=[], P=[], J=[])
        self.faults = []
        self.dead = set()
        self.exit_socks = {}      # label -> list of TunnelExitSocket objects ever installed
        self.flag_fwd = {}        # id(route) -> flagged cells forwarded
        self.oracle = []          # (signature, what)
        self.sendkind = {}
        self.settings_patch = settings_patch or {}
        self.stats = {}
        self.base = None
        self.loop = None
        self.keylabel = {}
        self.addrlabel = {}
        self.torn_at = None
        self.api = {}             # label -> True while a teardown API of the overlay runs on the harness' behalf
        self.no_ipv6 = False      # the host cannot bind "::" (configuration class)
        self.creates = []         # every create that went over the wire (for late duplicates)
        self.parent = {}          # circuit id -> the id it was extended from (lineage, over all nodes)
        self.transports = []      # (owner exit socket, transport) of every datagram endpoint the loop created

    # ---- time --------------------------------------------------------------------------------------
    def ticks(self) -> int:
        x = (self.loop.time() - self.base) * TPS
        r = round(x)
        if abs(x - r) > 1e-6:
            raise InfraError(f"virtual time {self.loop.time()} is not on the tick grid")
        return r

    def count(self, k, n=1):
        self.stats[k] = self.stats.get(k, 0) + n

    # ---- construction ------------------------------------------------------------------------------
    async def build(self, exit_flags, hidden=()):
        from ipv8.messaging.anonymization.community import TunnelCommunity, TunnelSettings
        from ipv8.messaging.anonymization.hidden_services import HiddenTunnelCommunity, HiddenTunnelSettings
        from ipv8.messaging.anonymization.tunnel import PEER_FLAG_EXIT_BT, PEER_FLAG_RELAY, PEER_FLAG_SPEED_TEST
        from ipv8.test.mocking.ipv8 import MockIPv8
        for j in range(self.n):
            s = HiddenTunnelSettings() if (j + 1) in hidden else TunnelSettings()
            s.min_circuits = 0
            s.max_circuits = 0
            flags = {PEER_FLAG_RELAY, PEER_FLAG_SPEED_TEST}
            if exit_flags[j]:
                flags.add(PEER_FLAG_EXIT_BT)
            s.peer_flags = flags
            for k, v in self.settings_patch.items():
                setattr(s, k, v)
            node = MockIPv8("curve25519", HiddenTunnelCommunity if (j + 1) in hidden else TunnelCommunity, settings=s)
            self.nodes.append(node)
            lab = j + 1
            self.starts.append(self.ticks())
            self.keylabel[node.my_peer.public_key.key_to_bin()] = lab
            self.addrlabel[node.endpoint.wan_address] = lab
            self.addrlabel[node.endpoint.lan_address] = lab
            self.pending[lab] = []
            self.ctx[lab] = None
            self.outs[lab] = {"D": [], "F": [], "P": [], "J": [], "S": []}
            self.exit_socks[lab] = []
            self.flat.append((f"node {lab} {self.starts[-1]}", None, None))
            self.tap(lab, node)
            await asyncio.sleep(28 / TPS)
        for a in self.nodes:
            for b in self.nodes:
                if a is not b:
                    a.overlay.walk_to(b.endpoint.wan_address)
        await asyncio.sleep(4 / TPS)
        # discovery order depends on hash order of random keys: re-insert the candidates in label order so that
        # path selection only depends on the seeded `random` module
        for node in self.nodes:
            ov = node.overlay
            items = sorted(ov.candidates.items(), key=lambda kv: self.label_key(kv[0].public_key.key_to_bin()))
            ov.candidates.clear()
            for peer, flags in items:
                ov.candidates[peer] = sorted(flags)

    def label_key(self, key_bin) -> int:
        return self.keylabel.get(key_bin, 0)

    def label_addr(self, addr) -> int:
        return self.addrlabel.get(tuple(addr[:2]) if not isinstance(addr, tuple) else addr, self.addrlabel.get(addr, 0))

    # ---- taps --------------------------------------------------------------------------------------
    def tap(self, lab, node):  # noqa: C901, PLR0915
        from ipv8.messaging.anonymization.caches import CreateRequestCache, RetryRequestCache
        from ipv8.messaging.anonymization.payload import (
            CellPayload, CreatedPayload, CreatePayload, DataPayload, DestroyPayload, ExtendedPayload, ExtendPayload,
            PingPayload, PongPayload, TestRequestPayload)
        ov = node.overlay
        ce = ov.crypto_endpoint
        world = self

        def log(rec):
            rec["t"] = world.ticks()
            world.pending[lab].append(rec)
            return rec

        self.log = getattr(self, "log", {})
        self.log[lab] = log

        # -- cells
        orig_pc = ce.process_cell

        def process_cell(source, data):
            try:
                cell = CellPayload.from_bin(data)
            except Exception:
                return orig_pc(source, data)
            rec = log({"k": "cell", "id": cell.circuit_id, "early": bool(cell.relay_early), "plain": bool(cell.plaintext),
                       "ok": False, "body": ["junk"], "relay": cell.circuit_id in ce.relays})
            if rec["relay"]:
                rec["ok"] = True     # set to False by crypto_tap when the real AEAD rejects the cell
            prev = world.ctx[lab]
            world.ctx[lab] = rec
            try:
                return orig_pc(source, data)
            finally:
                world.ctx[lab] = prev
        ce.process_cell = process_cell

        # the real cryptography decides whether a relayed cell can be re-encrypted / peeled (a duplicated cell
        # fails the AEAD replay check): that outcome is an input of the model
        def crypto_tap(orig):
            def wrapped(cell, direction, *hops):
                try:
                    return orig(cell, direction, *hops)
                except Exception:
                    rec = world.ctx[lab]
                    if rec is not None and rec["k"] == "cell" and rec["relay"]:
                        rec["ok"] = False
                        world.count("relay:crypto-reject")
                    raise
            return wrapped
        ce.decrypt_cell = crypto_tap(ce.decrypt_cell)
        ce.encrypt_cell = crypto_tap(ce.encrypt_cell)

        orig_pfc = ov.on_packet_from_circuit

        def on_packet_from_circuit(source, data, circuit_id):
            rec = world.ctx[lab]
            if rec is not None and rec["k"] == "cell" and not rec["relay"] and not rec["ok"] and rec["id"] == circuit_id:
                rec["ok"] = True
                mid = data[22] if len(data) > 22 else -1
                try:
                    if mid == CreatePayload.msg_id:
                        p, _ = ov.serializer.unpack_serializable(CreatePayload, data, offset=23)
                        rec["body"] = ["create", world.label_key(p.node_public_key)]
                    elif mid == CreatedPayload.msg_id:
                        p, _ = ov.serializer.unpack_serializable(CreatedPayload, data, offset=23)
                        rec["body"] = ["created", p.identifier, 1, None]
                        rec["hs"] = "created"
                    elif mid == ExtendedPayload.msg_id:
                        p, _ = ov.serializer.unpack_serializable(ExtendedPayload, data, offset=23)
                        rec["body"] = ["extended", p.identifier, 1, None]
                        rec["hs"] = "extended"
                    elif mid == ExtendPayload.msg_id:
                        rec["body"] = ["extend", 70000, 0, 0, 1]
                    elif mid == PingPayload.msg_id:
                        rec["body"] = ["ping"]
                    elif mid == PongPayload.msg_id:
                        rec["body"] = ["pong"]
                    elif mid == DataPayload.msg_id:
                        p, _ = ov.serializer.unpack_serializable(DataPayload, data, offset=23)
                        sent = False
                        es = ov.exit_sockets.get(circuit_id)
                        foreign = es is not None and not es.enabled and source[0] != es.hop.address[0]
                        if es is not None and not foreign and tuple(p.dest_address) != ("0.0.0.0", 0):
                            sent = bool(es.is_allowed(p.data)) and \
                                (not world.no_ipv6 or es.transport_ipv4 is not None)
                            if not es.enabled:
                                world.count("exit_enabled_by_data:" + ("after_teardown" if world.torn_at is not None
                                                                       else "before_teardown"))
                        # (exit_data refuses to enable the socket for a foreign source address: no effect at all)
                        rec["body"] = ["other"] if foreign else ["data", int(sent)]
                    elif mid == TestRequestPayload.msg_id:
                        rec["body"] = ["testreq"]
                    else:
                        rec["body"] = ["other"]
                except Exception:
                    rec["body"] = ["other"]
            return orig_pfc(source, data, circuit_id)
        ov.on_packet_from_circuit = on_packet_from_circuit

        # crypto verification outcome of _ours_on_created_extended
        orig_verify = ov.crypto.verify_and_generate_shared_secret

        def verify(*a, **kw):
            rec = world.ctx[lab]
            try:
                return orig_verify(*a, **kw)
            except ValueError:
                if rec is not None and rec["body"][0] in ("created", "extended"):
                    rec["body"][2] = 0
                raise
            except Exception:
                # the handshake does not verify: the handler is aborted (exception swallowed by
                # on_packet_from_circuit), the retry cache must stay in charge of the circuit
                if rec is not None and rec["body"][0] in ("created", "extended"):
                    rec["body"] = ["other"]
                    world.count("handshake:verify_failed:" + rec.get("hs", "?"))
                raise
        ov.crypto.verify_and_generate_shared_secret = verify

        # -- retry caches: the node's own choices (number of alternatives, identifier)
        def after_send(circuit):
            cache = ov.request_cache.get(RetryRequestCache, circuit.circuit_id)
            nxt = (len(cache.candidates), cache.packet_identifier) if cache is not None else None
            rec = world.ctx[lab]
            world.count("branch:send_extend_or_create:" + ("cache_installed" if nxt is not None else "no_candidate_left"))
            if rec is not None and rec["k"] == "mk":
                rec["next"] = nxt
            elif rec is not None and rec["k"] == "cell" and rec["body"][0] in ("created", "extended"):
                rec["body"][3] = nxt
                rec["sent_ext"] = True
            else:
                hop = circuit.hop
                log({"k": "retry", "id": circuit.circuit_id, "next": nxt,
                     "peer": world.label_key(hop.peer.public_key.key_to_bin()) if hop is not None else 0})

        orig_se, orig_sic = ov.send_extend, ov.send_initial_create

        def send_extend(circuit, candidates, max_tries):
            try:
                return orig_se(circuit, candidates, max_tries)
            finally:
                after_send(circuit)

        def send_initial_create(circuit, candidate_peers, max_tries):
            try:
                return orig_sic(circuit, candidate_peers, max_tries)
            finally:
                after_send(circuit)
        ov.send_extend, ov.send_initial_create = send_extend, send_initial_create

        orig_add = ov.request_cache.add

        def add(cache):
            r = orig_add(cache)
            if r is not None and isinstance(cache, CreateRequestCache):
                world.parent[cache.to_circuit_id] = cache.from_circuit_id
                world.count("branch:on_extend:create_sent")
                es0 = ov.exit_sockets.get(cache.from_circuit_id)
                if es0 is not None and es0.enabled:
                    world.count("extend_of_enabled_exit_socket")
                for rec in reversed(world.pending[lab]):
                    if rec["k"] == "cell" and rec["body"][0] == "extend" and rec["id"] == cache.from_circuit_id \
                            and rec["body"][1] == 70000:
                        rec["body"] = ["extend", cache.number, cache.to_circuit_id,
                                       world.label_key(cache.to_peer.public_key.key_to_bin()), 1]
                        break
            return r
        ov.request_cache.add = add

        # -- destroys (authenticated)
        orig_destroy = ov.decode_map[DestroyPayload.msg_id]

        def on_destroy_raw(source, data):
            try:
                from ipv8.messaging.payload_headers import BinMemberAuthenticationPayload
                auth, _ = ov.serializer.unpack_serializable(BinMemberAuthenticationPayload, data, offset=23)
                valid, remainder = ov._verify_signature(auth, data)
                payload = ov.serializer.unpack_serializable_list([DestroyPayload], remainder, offset=23)[0]
                if not valid:
                    raise ValueError("bad signature")
                log({"k": "destroy", "id": payload.circuit_id, "peer": world.label_key(auth.public_key_bin),
                     "fwd": int(payload.reason != 0)})
                # which branch of on_destroy this input selects (measured, for the coverage floor)
                cidd, signer = payload.circuit_id, auth.public_key_bin
                nr = ov.relay_from_to.get(cidd)
                pr = ov.relay_from_to.get(nr.circuit_id) if nr else None

                def same(hop):
                    return hop.peer.public_key.key_to_bin() == signer
                if pr is not None and same(pr.hop):
                    br = "relay_pair:" + ("passed_on" if payload.reason else "reason0")
                elif cidd in ov.exit_sockets and same(ov.exit_sockets[cidd].hop):
                    br = "exit"
                elif cidd in ov.circuits and ov.circuits[cidd].hop is not None and same(ov.circuits[cidd].hop):
                    br = "circuit"
                else:
                    br = "ignored"
                world.count("branch:on_destroy:" + br)
            except Exception as e:
                world.count("destroy:undecodable:" + type(e).__name__)
            return orig_destroy(source, data)
        ov.decode_map[DestroyPayload.msg_id] = on_destroy_raw

        # -- outputs
        orig_sd = ov.send_destroy

        def send_destroy(target, circuit_id, reason):
            world.outs[lab]["D"].append((world.label_addr(target), circuit_id))
            return orig_sd(target, circuit_id, reason)
        ov.send_destroy = send_destroy

        orig_rc = ce.relay_cell

        def relay_cell(cell):
            cid, flagged = cell.circuit_id, bool(cell.relay_early)
            route = ce.relays.get(cid)
            st = {"sent": False}
            world.sendkind[lab] = ("relayed", st)
            try:
                return orig_rc(cell)
            finally:
                world.sendkind[lab] = None
                world.count("branch:relay_cell:" + ("forwarded" if st["sent"] else "dropped"))
                if st["sent"]:
                    world.outs[lab]["F"].append(cid)
                    if flagged and route is not None:
                        k = id(route)
                        world.flag_fwd[k] = world.flag_fwd.get(k, 0) + 1
                        world.keep = getattr(world, "keep", [])
                        world.keep.append(route)
                        if world.flag_fwd[k] > ce.max_relay_early:
                            world.oracle.append(("relay_cell:relay-early-budget",
                                                 f"node {lab} forwarded {world.flag_fwd[k]} relay_early cells over the "
                                                 f"route of circuit {cid} (configured number {ce.max_relay_early})"))
                else:
                    world.outs[lab]["P"].append(cid)
        ce.relay_cell = relay_cell

        orig_sc = ce.send_cell

        def send_cell(target, cell):
            kind = cell.message[0] if cell.message else -1
            emitted = {"sent": False}
            world.sendkind[lab] = (kind, emitted)
            if kind in (3, 5, 7):
                world.outs[lab]["S"].append((kind, cell.circuit_id))
            if kind == 6:
                c0 = ce.circuits.get(cell.circuit_id)
                if c0 is not None and c0._closing:
                    # not a violation by itself (reclamation only shifts by remove_tunnel_delay): compared with the
                    # model's do_ping rule in the `G` column
                    world.outs[lab]["G"] = world.outs[lab].get("G", 0) + 1
            known = cell.circuit_id in ce.circuits or cell.circuit_id in ce.relays or cell.circuit_id in ce.exit_sockets
            try:
                return orig_sc(target, cell)
            finally:
                world.sendkind[lab] = None
                if emitted["sent"] and not known and kind not in (CreatePayload.msg_id,):
                    world.oracle.append(("send_cell:cell-for-vanished-entry",
                                         f"node {lab} emits a cell (msg {kind}) for circuit {cell.circuit_id} which is "
                                         f"in none of its tables"))
        ce.send_cell = send_cell

        orig_sj = ov.should_join_circuit

        async def should_join_circuit(payload, addr):
            full = ov.settings.max_joined_circuits <= len(ov.relay_from_to) + len(ov.exit_sockets)
            r = await orig_sj(payload, addr)
            world.count("branch:on_create:" + ("joined" if r else "refused_at_limit"))
            if not r:
                world.outs[lab]["J"].append(payload.circuit_id)
            if full and r:
                world.oracle.append(("should_join_circuit:join-at-limit",
                                     f"node {lab} accepted a create while holding {len(ov.relay_from_to)} relay entries "
                                     f"and {len(ov.exit_sockets)} exit sockets (limit {ov.settings.max_joined_circuits})"))
            return r
        ov.should_join_circuit = should_join_circuit

        orig_jc = ov.join_circuit

        def join_circuit(payload, addr):
            r = orig_jc(payload, addr)
            es = ov.exit_sockets.get(payload.circuit_id)
            if es is not None and all(es is not x for x in world.exit_socks[lab]):
                world.exit_socks[lab].append(es)
            return r
        ov.join_circuit = join_circuit

        # -- teardown APIs of the overlay (leave_swarm …) reach the tables through remove_circuit: log those calls
        orig_rmc = ov.remove_circuit

        def remove_circuit(circuit_id, additional_info="", remove_now=False, destroy=False):
            if world.api.get(lab):
                log({"k": "rmc", "id": circuit_id, "destroy": bool(destroy)})
            return orig_rmc(circuit_id, additional_info, remove_now, destroy)
        ov.remove_circuit = remove_circuit

        # -- the network: faults
        ep = node.endpoint
        orig_send = ep.send

        def send(addr, packet):
            sk = world.sendkind.get(lab)
            kind = "other"
            if len(packet) > 22:
                if packet[22] == DestroyPayload.msg_id:
                    kind = "destroy"
                elif packet[22] == CellPayload.msg_id:
                    if sk is not None and sk[0] == "relayed":
                        kind = "relayed"
                        sk[1]["sent"] = True
                    elif sk is not None:
                        if sk[1] is not None:
                            sk[1]["sent"] = True
                        kind = {1: "data", 2: "create", 3: "created", 4: "extend", 5: "extended", 6: "ping",
                                7: "pong"}.get(sk[0], "cell")
                    else:
                        kind = "cell"
            if kind == "create":
                world.creates.append((lab, addr, packet, orig_send))
            if lab in world.dead:
                world.count("net:dead-drop")
                return None
            dst = world.label_addr(addr)
            now = world.ticks()
            for f in world.faults:
                if kind in f.kinds and (f.src is None or f.src == lab) and (f.dst is None or f.dst == dst) \
                        and (f.window is None or f.window[0] <= now < f.window[1]):
                    idx = f.seen
                    f.seen += 1
                    if f.nth is not None and idx not in f.nth:
                        continue
                    world.count(f"fault:{f.action}:{kind}")
                    # a delayed packet arrives on a tick ≡ 3 (mod 4): never on a node timer (≡ 0), a harness action
                    # (≡ 1) or a checkpoint (≡ 2), so that no compared order depends on how asyncio breaks ties
                    late = f.delay + ((3 - (now + f.delay)) % 4) if f.delay else 0
                    if f.action == "drop":
                        return None
                    if f.action == "dup":
                        orig_send(addr, packet)
                        if f.delay:
                            world.loop.call_later(late / TPS, world.safe_send, lab, orig_send, addr, packet)
                        else:
                            orig_send(addr, packet)
                        return None
                    if f.action == "delay":
                        world.loop.call_later(late / TPS, world.safe_send, lab, orig_send, addr, packet)
                        return None
            world.count(f"net:pass:{kind}")
            return orig_send(addr, packet)
        ep.send = send

    def safe_send(self, lab, orig_send, addr, packet):
        if lab in self.dead:
            return
        try:
            orig_send(addr, packet)
        except Exception:
            pass

    # ---- harness-side actions (each logs the stimulus it is) -----------------------------------------
    def ov(self, lab):
        return self.nodes[lab - 1].overlay

    def create_circuit(self, lab, hops, required_exit=None, **kw):
        ov = self.ov(lab)
        rec = {"k": "mk", "next": None, "t": self.ticks()}
        prev = self.ctx[lab]
        self.ctx[lab] = rec
        try:
            circuit = ov.create_circuit(hops, required_exit=required_exit, **kw)
        finally:
            self.ctx[lab] = prev
        if circuit is None:
            return None
        rec.update({"id": circuit.circuit_id, "goal": hops,
                    "peer": self.label_key(circuit.hop.peer.public_key.key_to_bin())})
        self.pending[lab].append(rec)
        return circuit

    def remove_circuit(self, lab, cid, destroy):
        self.log[lab]({"k": "rmc", "id": cid, "destroy": bool(destroy)})
        self.ov(lab).remove_circuit(cid, "harness", destroy=1 if destroy else False)

    def remove_relay(self, lab, cid, destroy):
        self.log[lab]({"k": "rmr", "id": cid, "destroy": bool(destroy)})
        self.ov(lab).remove_relay(cid, "harness", destroy=1 if destroy else False)

    def remove_exit(self, lab, cid, destroy, remove_now=False):
        self.log[lab]({"k": "rmx", "id": cid, "destroy": bool(destroy), "now": bool(remove_now)})
        self.ov(lab).remove_exit_socket(cid, "harness", remove_now=remove_now, destroy=1 if destroy else False)

    def make_wanting(self, lab):
        """the node wants a circuit of its own but knows no candidate yet: every do_circuits run fails at create_circuit
        (the periodic sweep must run all the same)"""
        ov = self.ov(lab)
        ov.candidates.clear()
        ov.settings.max_circuits = 1
        try:
            ov.build_tunnels(1)
        except Exception as e:
            self.count("wanting_node:build_tunnels_raised:" + type(e).__name__)
        if ov.circuits:
            raise InfraError("a node without candidates built a circuit")
        self.count("wanting_node")

    def make_swarm_wanting(self, lab):
        """the node is member of a swarm of its own but knows no candidate: every HiddenTunnelCommunity.do_circuits round
        fails to build the swarm's circuit (the sweep must run all the same)"""
        ov = self.ov(lab)
        ov.candidates.clear()
        try:
            ov.join_swarm(b"w" * 20, 1)
            ov.do_circuits()
        except Exception as e:
            self.count("swarm_wanting:raised:" + type(e).__name__)
        self.count("swarm_wanting_node")

    def leave_swarm(self, lab, info_hash):
        self.api[lab] = True
        try:
            self.ov(lab).leave_swarm(info_hash)
        finally:
            self.api[lab] = False

    def make_bad_cands(self, lab, count):
        """faulty hop of another kind: the handshake verifies but the (encrypted) candidate list it returns cannot be
        decoded (the length prefix promises more than there is)"""
        ov = self.ov(lab)
        orig = ov.serializer.pack
        left = {"n": count}
        world = self

        def pack(fmt, item):
            if fmt == "varlenH-list" and (left["n"] is None or left["n"] > 0):
                if left["n"] is not None:
                    left["n"] -= 1
                world.count("bad_candidate_list_answer")
                return b"\x05\xff\xf0garbage"
            return orig(fmt, item)
        ov.serializer.pack = pack

    def make_bad_auth(self, lab, count):
        """the node is a faulty / misbehaving hop: the authenticator of its first `count` (None: all) answers to a create
        is damaged, so the originator cannot verify the handshake although identifier and circuit id are right"""
        ov = self.ov(lab)
        orig = ov.crypto.generate_diffie_shared_secret
        left = {"n": count}
        world = self

        def damaged(dh_received, key=None):
            shared_secret, crypt_pk, auth = orig(dh_received, key)
            if left["n"] is None or left["n"] > 0:
                if left["n"] is not None:
                    left["n"] -= 1
                world.count("bad_auth_answer")
                auth = bytes([auth[0] ^ 1]) + auth[1:]
            return shared_secret, crypt_pk, auth
        ov.crypto.generate_diffie_shared_secret = damaged

    def kill(self, lab):
        """the node disappears from the network without a word (its own tables are no longer of interest)"""
        self.dead.add(lab)
        self.nodes[lab - 1].endpoint.close()

    def outside(self, lab, cid, data=BT_DATA):
        ov = self.ov(lab)
        es = ov.exit_sockets.get(cid)
        if es is None or not es.enabled:
            return False
        self.log[lab]({"k": "outside", "id": cid})
        es.datagram_received_ipv4(data, ("127.0.0.1", 7777))
        return True

    def user_data(self, lab, circuit, data=BT_DATA, port=9):
        ov = self.ov(lab)
        if circuit.circuit_id not in ov.circuits or not circuit.hops:
            return
        if data is None:
            self.count("user:speedtest")
            fut = ov.send_test_request(circuit, 8, 8)
            fut.add_done_callback(lambda f: f.cancelled() or f.exception())
            return
        self.count("user:data:" + ("allowed" if data == BT_DATA else "refused_by_exit_policy"))
        ov.send_data(circuit.hop.address, circuit.circuit_id, ("127.0.0.1", port), ("0.0.0.0", 0), data)

    def set_traffic(self, lab, tbl, cid, amount):
        ov = self.ov(lab)
        obj = [ov.circuits, ov.relay_from_to, ov.exit_sockets][tbl].get(cid)
        if obj is None:
            return
        obj.bytes_up += amount
        self.log[lab]({"k": "traffic", "tbl": tbl, "id": cid, "amount": amount})

    def root(self, cid):
        seen = 0
        while cid in self.parent and seen < 16:
            cid = self.parent[cid]
            seen += 1
        return cid

    def leftovers_of(self, root_cid):
        """entries on live nodes whose circuit id descends from `root_cid`"""
        bad = []
        for lab in range(1, self.n + 1):
            if lab in self.dead:
                continue
            ov = self.ov(lab)
            for name, tbl in (("circuits", ov.circuits), ("relays", ov.relay_from_to), ("exits", ov.exit_sockets)):
                ids = sorted(i for i in tbl if self.root(i) == root_cid)
                if ids:
                    bad.append((lab, name, ids))
        return bad

    # ---- path discovery ---------------------------------------------------------------------------
    def path(self, olab, cid):
        """[(label, kind, id)] following the relay pointers of the real tables"""
        out = []
        lab, cur = olab, cid
        ov = self.ov(lab)
        c = ov.circuits.get(cur)
        if c is None:
            return out
        out.append((lab, "circuit", cur))
        hop = c.hop
        nxt = self.label_key(hop.peer.public_key.key_to_bin()) if hop and hop.peer else 0
        for _ in range(8):
            if not nxt:
                break
            ov = self.ov(nxt)
            if cur in ov.relay_from_to:
                r = ov.relay_from_to[cur]
                out.append((nxt, "relay", cur, r.circuit_id))
                cur = r.circuit_id
                nxt = self.label_key(r.hop.peer.public_key.key_to_bin())
            elif cur in ov.exit_sockets:
                out.append((nxt, "exit", cur))
                break
            else:
                break
        return out

    # ---- snapshots and model lines -------------------------------------------------------------------
    def snapshot(self, lab) -> str:
        from ipv8.messaging.anonymization.caches import RetryRequestCache
        ov = self.ov(lab)
        cs = []
        for cid in sorted(ov.circuits):
            c = ov.circuits[cid]
            cache = ov.request_cache.get(RetryRequestCache, cid)
            tries = "-" if cache is None else str(max(0, cache.max_tries))
            cs.append(f"{cid}:{int(bool(c._closing))}:{len(c.hops)}:{tries}@{self.tick_of(c.creation_time)}")
        rs = [f"{cid}>{ov.relay_from_to[cid].circuit_id}@{self.tick_of(ov.relay_from_to[cid].creation_time)}"
              for cid in sorted(ov.relay_from_to)]
        xs = [f"{cid}:{int(bool(ov.exit_sockets[cid].enabled))}@{self.tick_of(ov.exit_sockets[cid].creation_time)}"
              for cid in sorted(ov.exit_sockets)]
        leaked = len(self.leaked_sockets(lab))
        o = self.outs[lab]
        self.outs[lab] = {"D": [], "F": [], "P": [], "J": [], "S": []}

        def dup(l):
            d = {}
            for x in l:
                d[x] = d.get(x, 0) + 1
            return ",".join(f"{k}*{v}" for k, v in sorted(d.items()))
        return (f"C[{','.join(cs)}] R[{','.join(rs)}] X[{','.join(xs)}] L{leaked} "
                f"D[{','.join(f'{p}:{i}' for p, i in sorted(o['D']))}] F[{dup(o['F'])}] P[{dup(o['P'])}] "
                f"J[{','.join(str(x) for x in sorted(o['J']))}] "
                f"S[{','.join(f'{k}:{i}*{n}' for (k, i), n in sorted(self.dupd(o['S']).items()))}] G{o.get('G', 0)}")

    @staticmethod
    def dupd(l):
        d = {}
        for x in l:
            d[x] = d.get(x, 0) + 1
        return d

    def tick_of(self, t) -> int:
        return round((t - self.base) * TPS)

    def open_transports(self, lab):
        """(exit socket, transport) for every UDP transport opened through the event loop on behalf of node `lab` that
        is not closed - recorded when the loop creates it, whatever the owner did with the reference afterwards"""
        ov = self.ov(lab)
        return [(es, t) for es, t in self.transports if getattr(es, "overlay", None) is ov and not t.is_closing()]

    def leaked_sockets(self, lab):
        """exit sockets with an open outside transport that the node's table no longer accounts for"""
        ov = self.ov(lab)
        out = []
        for es, t in self.open_transports(lab):
            held = ov.exit_sockets.get(getattr(es, "circuit_id", None)) is es and \
                (es.transport_ipv4 is t or es.transport_ipv6 is t)
            if not held and all(es is not x for x in out):
                out.append(es)
        return out

    @staticmethod
    def fmt(rec) -> str:
        def nx(v):
            return "-" if v is None else f"{v[0]},{v[1]}"
        k = rec["k"]
        if k == "mk":
            n = rec["next"] or (0, 0)
            return f"mk {rec['id']} {rec['goal']} {rec['peer']} {n[0]} {n[1]}"
        if k == "cell":
            b = rec["body"]
            if b[0] in ("created", "extended"):
                bs = f"{b[0]} {b[1]} {b[2]} {nx(b[3])}"
            else:
                bs = " ".join(str(x) for x in b)
            return f"cell {rec['id']} {int(rec['early'])} {int(rec['plain'])} {int(rec['ok'])} {bs}"
        if k == "destroy":
            return f"destroy {rec['id']} {rec['peer']} {rec['fwd']}"
        if k in ("rmc", "rmr"):
            return f"{k} {rec['id']} {int(rec['destroy'])}"
        if k == "rmx":
            return f"rmx {rec['id']} {int(rec['destroy'])} {int(rec['now'])}"
        if k == "retry":
            return f"retry {rec['id']} {rec['peer']} {nx(rec['next'])}"
        if k == "outside":
            return f"outside {rec['id']}"
        if k == "traffic":
            return f"traffic {rec['tbl']} {rec['id']} {rec['amount']}"
        raise InfraError(f"unknown stimulus {rec}")

    def checkpoint(self, tag=""):
        now = self.ticks()
        for lab in range(1, self.n + 1):
            for rec in self.pending[lab]:
                self.flat.append((f"{lab} {rec['t']} {self.fmt(rec)}", None, None))
                self.count("stim:" + rec["k"] + (":" + rec["body"][0] if rec["k"] == "cell" and not rec["relay"] else
                                                 (":relayed" if rec["k"] == "cell" else "")))
            self.pending[lab] = []
            if lab in self.dead:
                continue
            self.flat.append((f"{lab} {now} obs", self.snapshot(lab), (lab, now, tag)))

    def tables_empty(self):
        bad = []
        for lab in range(1, self.n + 1):
            if lab in self.dead:
                continue
            ov = self.ov(lab)
            if ov.circuits or ov.relay_from_to or ov.exit_sockets:
                bad.append((lab, sorted(ov.circuits), sorted(ov.relay_from_to), sorted(ov.exit_sockets)))
            for es, t in self.open_transports(lab):
                bad.append((lab, "open exit socket", getattr(es, "circuit_id", None), str(t.get_extra_info("sockname"))))
        owners = [getattr(es, "overlay", None) for es, _ in self.transports]
        for (es, t), ov in zip(self.transports, owners):
            if not t.is_closing() and not any(ov is n.overlay for n in self.nodes):
                bad.append((0, "open exit socket", "owner unknown", str(t.get_extra_info("sockname"))))
        return bad

    async def shutdown(self):
        from ipv8.test.mocking import endpoint as mock_ep
        for node in self.nodes:
            try:
                for es in list(node.overlay.exit_sockets.values()):
                    await es.close()
                await node.stop()
            except Exception:
                pass
        for lab in self.exit_socks:
            for es in self.exit_socks[lab]:
                try:
                    await es.close()
                except Exception:
                    pass
        for _, t in self.transports:
            if not t.is_closing():
                t.close()
        mock_ep.internet.clear()


# ======================================================================================================
#  scenarios
# ======================================================================================================
TEARDOWNS = ["o_destroy", "o_abandon", "o_dies", "relay_destroy", "relay_dies", "exit_destroy", "exit_dies", "none",
             "o_destroy0"]   # o_destroy0: a (legacy) destroy with reason code 0, which relays do not pass on
PHASES = ["ready", "transfer", "halfbuilt"]


def odd(t):
    """next tick ≡ 1 (mod 8) at or after t: circuits are created on this class, and so are the timers they start (all
    periods are multiples of 8 ticks); node timers live on ≡ 0 (mod 4), checkpoints on ≡ 2 (mod 4), delayed packets on
    ≡ 3 (mod 4)"""
    return t + ((1 - t) % 8)


def odd5(t):
    """next tick ≡ 5 (mod 8): teardowns and later user actions - never on the tick of a retry / removal timer that an
    earlier creation or teardown started"""
    return t + ((5 - t) % 8)


def make_spec(rng, idx, forced=None):
    spec = {
        "hops": rng.choice([1, 2, 2, 3, 3]),
        "phase": rng.choice(PHASES),
        "teardown": rng.choice(TEARDOWNS),
        "nodes": rng.choice([3, 4, 5, 5, 6]),
        # other circuits that stay alive (and pinged) while the main one is torn down: [originator label, hops]
        "companions": [[rng.choice([1, 1, 2, 3]), rng.choice([1, 2, 2])] for _ in range(rng.choice([0, 0, 1, 2, 3]))],
        "when": rng.randrange(2, 30) * TPS + 4 * rng.randrange(0, 16),
        "faults": [],
        "chatty_outside": rng.random() < 0.5,
        "traffic_limit": rng.random() < 0.08,
        # what the originator sends while transferring: BT-like data the exit lets out, data the exit policy refuses
        # (no heartbeat at the exit), or speed-test requests
        "payload": rng.choice(["bt", "bt", "bt", "junk", "mixed"]),
        # data cells sent by the originator 1 .. 4.75 s AFTER the teardown (post-mortem window of remove_tunnel_delay)
        "postmortem": sorted(rng.sample([16, 40, 104, 168, 232, 296], rng.choice([1, 2, 3]))) if rng.random() < 0.5 else [],
        # non-originator nodes that want circuits of their own but cannot build any (no candidate discovered yet):
        # their do_circuits keeps failing at create_circuit every sweep period
        "wanting": rng.choice(["none", "none", "all", "some"]),
        # faulty / misbehaving hops: [label, number of answers with a damaged authenticator (None = all)]
        "bad_auth": [[rng.randrange(2, 7), rng.choice([1, 1, 2, None])] for _ in range(rng.choice([1, 2, 3]))]
        if rng.random() < 0.2 else [],
        # … or with a candidate list that cannot be decoded (the handshake itself verifies)
        "bad_cands": [[rng.randrange(2, 7), rng.choice([1, 1, 2, None])] for _ in range(rng.choice([1, 2, 3]))]
        if rng.random() < 0.15 else [],
        # the host has no IPv6: binding the "::" outside socket raises OSError
        "no_ipv6": rng.random() < 0.2,
        # the exit the originator insists on is only known by host name: the extend naming it cannot be serialised
        "unsendable_exit": rng.random() < 0.12,
        # the originator already sends data over the hops it has while the circuit is still being built (the last hop
        # so far exits it, gets its outside sockets, and is extended afterwards)
        "early_data": rng.random() < 0.5,
    }
    if spec["hops"] == 1 and spec["teardown"] in ("relay_destroy", "relay_dies"):
        spec["teardown"] = rng.choice(["o_destroy", "exit_destroy", "exit_dies", "o_abandon"])
    nf = rng.choice([0, 1, 1, 2, 3, 4])
    for _ in range(nf):
        action = rng.choice(["drop", "drop", "drop", "dup", "delay"])
        if spec["phase"] == "halfbuilt":
            kinds = rng.choice([["created"], ["extended"], ["extend"], ["create"], ["relayed"], ["destroy"],
                                ["created", "extended"]])
        else:
            kinds = rng.choice([["destroy"], ["destroy"], ["relayed"], ["ping", "pong"], ["data"], ["destroy", "relayed"]])
        nth = sorted(rng.sample(range(6), rng.choice([1, 1, 2, 3]))) if rng.random() < 0.8 else None
        delay = 4 * rng.randrange(1, 8 * 16) if action in ("dup", "delay") else 0
        link = rng.random() < 0.4
        spec["faults"].append({"action": action, "kinds": kinds, "nth": nth, "delay": delay,
                               "src": rng.randrange(1, spec["nodes"] + 1) if link and rng.random() < 0.7 else None,
                               "dst": rng.randrange(1, spec["nodes"] + 1) if link and rng.random() < 0.7 else None})
    if spec["phase"] == "halfbuilt" and not any(set(f["kinds"]) & {"created", "extended", "extend", "create"}
                                                 for f in spec["faults"]):
        spec["faults"].append({"action": "drop", "kinds": [rng.choice(["created", "extended", "create", "extend"])],
                               "nth": sorted(rng.sample(range(5), rng.choice([1, 2, 3]))), "delay": 0,
                               "src": None, "dst": None})
    if forced:
        spec.update(forced)
    return spec


def spec_key(spec):
    return repr((spec["hops"], spec["phase"], spec["teardown"], spec["nodes"], spec["when"],
                 [(f["action"], f["kinds"], f["nth"], f["delay"], f["src"], f["dst"]) for f in spec["faults"]],
                 spec["chatty_outside"], spec["traffic_limit"], spec.get("payload"),
                 spec.get("postmortem"), spec.get("wanting"), spec.get("companions"), spec.get("bad_auth"), spec.get("bad_cands"), spec.get("no_ipv6"), spec.get("unsendable_exit"), spec.get("early_data")))


async def run_scenario(world: World, spec, deadline_extra=0):  # noqa: C901, PLR0912, PLR0915
    """returns (nontrivial, info)"""
    cfgm = world.meta
    B = cfgm["max_time_inactive"] + SWEEP_ALLOWANCE_S + cfgm["remove_tunnel_delay"]
    exit_flags = [False] + [True] * (spec["nodes"] - 1)
    await world.build(exit_flags)
    for f in spec["faults"]:
        world.faults.append(Fault(f["action"], f["kinds"], f.get("src"), f.get("dst"), f["nth"], f["delay"]))
    for lab, cnt in spec.get("bad_auth", []):
        if lab <= world.n:
            world.make_bad_auth(lab, cnt)
    for lab, cnt in spec.get("bad_cands", []):
        if lab <= world.n:
            world.make_bad_cands(lab, cnt)
    wanting = spec.get("wanting", "none")
    for lab in range(2, world.n + 1):
        if wanting == "all" or (wanting == "some" and world.rng.random() < 0.5):
            world.make_wanting(lab)
    # align to the action grid
    t = odd(world.ticks() + 4)
    await asyncio.sleep((t - world.ticks()) / TPS)
    world.checkpoint_task = None
    required_exit = None
    if spec.get("unsendable_exit") and spec["hops"] >= 2:     # (a 1-hop circuit sends its create straight to the exit)
        from ipv8.messaging.interfaces.udp.endpoint import DomainAddress
        from ipv8.peer import Peer
        tgt = world.nodes[world.rng.randrange(1, world.n)]
        required_exit = Peer(tgt.my_peer.public_key.key_to_bin(), DomainAddress("exit.example.org", 4242))
        world.count("unsendable_exit")
    circuit = world.create_circuit(1, spec["hops"], required_exit=required_exit)
    info = {"built": False, "path": []}
    if circuit is None:
        raise InfraError("create_circuit returned None: no candidates in the scenario")
    cid = circuit.circuit_id
    t_start = world.ticks()
    companions = []
    for lab, hops in spec.get("companions", []):
        if lab > world.n:
            continue
        await asyncio.sleep(8 / TPS)
        try:
            c2 = world.create_circuit(lab, hops)
        except Exception:
            c2 = None
        world.count("companion:" + ("created" if c2 is not None else "not_created"))
        if c2 is not None:
            companions.append((lab, c2))
    stage = "main"
    t_drop = None
    t_start = world.ticks()
    t_tear = odd5(t_start + spec["when"])
    max_delay = max([f["delay"] for f in spec["faults"]] + [0])
    horizon = None
    nontrivial = False
    next_cp = t_start + 2          # ≡ 3 mod 4 … make it ≡ 2 mod 4
    next_cp += (2 - next_cp) % 4
    next_user = t_start + 4 * 8    # user data every second, offset .5 s
    next_out = t_start + 4 * 12
    torn = False
    post = []
    end = None
    t_final = None
    while True:
        now = world.ticks()
        events = [next_cp]
        if (spec["phase"] == "transfer" or spec.get("early_data")) and not torn:
            events.append(next_user)
        if spec["chatty_outside"] or spec["phase"] == "transfer":
            events.append(next_out)
        if not torn:
            events.append(t_tear)
        if end is not None:
            events.append(end)
        if t_final is not None:
            events.append(t_final)
        if t_drop is not None:
            events.append(t_drop)
        events.extend(post)
        nxt = min(e for e in events if e >= now) if any(e >= now for e in events) else now
        if nxt > now:
            await asyncio.sleep((nxt - now) / TPS)
        now = world.ticks()
        if now == next_cp:
            world.checkpoint()
            next_cp += TPS
            if end is not None and now >= end:
                if stage == "main":
                    # the main circuit's entries (every id descending from it) must be gone everywhere although the
                    # companion circuits are alive and keep their neighbours busy
                    info["main_left"] = world.leftovers_of(cid)
                    alive = [(lab, c2) for lab, c2 in companions
                             if lab not in world.dead and c2.circuit_id in world.ov(lab).circuits]
                    world.count("companions_alive_at_main_deadline", len(alive))
                    if not alive:
                        break
                    stage = "final"
                    t_drop = odd5(now + 4)
                    end = next_cp + int(3 * B + 4) * TPS + max_delay - max_delay % TPS
                    continue
                break
            continue
        if t_drop is not None and now == t_drop:
            t_drop = None
            for lab, c2 in companions:
                if lab not in world.dead and c2.circuit_id in world.ov(lab).circuits:
                    world.remove_circuit(lab, c2.circuit_id, False)
            continue
        if (spec["phase"] == "transfer" or spec.get("early_data")) and not torn and now == next_user:
            pl = spec.get("payload", "bt")
            if pl == "mixed":
                pl = world.rng.choice(["bt", "junk", "speedtest"])
            world.user_data(1, circuit, {"bt": BT_DATA, "junk": JUNK_DATA, "speedtest": None}[pl])
            next_user += TPS
            continue
        if now == next_out:
            p = world.path(1, cid) if cid in world.ov(1).circuits else info["path"]
            for hop in (p or info["path"]):
                if hop[1] == "exit" and hop[0] not in world.dead:
                    world.outside(hop[0], hop[2])
            next_out += TPS + 4 * 8
            continue
        if post and now == post[0]:
            post.pop(0)
            if 1 not in world.dead and cid in world.ov(1).circuits:
                world.count("postmortem_data_cell")
                world.user_data(1, circuit)
            continue
        if t_final is not None and now == t_final:
            t_final = None
            c = world.ov(1).circuits.get(cid)
            if c is not None and not c._closing and 1 not in world.dead:
                # the user gives the circuit up only if it is still healthy end to end (complete path, everybody
                # alive: its pings are answered and nothing may reclaim it).  A circuit whose far side vanished,
                # tore down or lost its destroy must be reclaimed by the originator ITSELF through inactivity:
                # its own pings (sent cells) must not count as activity.
                p = world.path(1, cid)
                healthy = (len(c.hops) >= c.goal_hops and p and p[-1][1] == "exit"
                           and all(h[0] not in world.dead for h in p))
                if healthy:
                    world.count("final_abandon")
                    world.remove_circuit(1, cid, False)
                else:
                    world.count("originator_left_to_inactivity")
            elif 1 not in world.dead:
                world.count("originator_entry_already_reclaimed")
            continue
        if not torn and now == t_tear:
            torn = True
            p = world.path(1, cid)
            info["path"] = p
            info["built"] = circuit.state == "READY"
            nontrivial = len(p) >= 2
            if spec["traffic_limit"] and len(p) >= 2:
                hop = world.rng.choice(p)
                tbl = {"circuit": 0, "relay": 1, "exit": 2}[hop[1]]
                world.set_traffic(hop[0], tbl, hop[2], 11 * 1024 ** 3)
            td = spec["teardown"]
            world.torn_at = now
            post = [now + d for d in spec.get("postmortem", [])]
            relays = [h for h in p if h[1] == "relay"]
            exits = [h for h in p if h[1] == "exit"]
            world.count("teardown:" + td + (":nopath" if (td.startswith("relay") and not relays) or
                                            (td.startswith("exit") and not exits) else ""))
            if td == "o_destroy":
                world.remove_circuit(1, cid, True)
            elif td == "o_abandon":
                world.remove_circuit(1, cid, False)
            elif td == "o_destroy0":
                c0 = world.ov(1).circuits.get(cid)
                world.remove_circuit(1, cid, False)
                if c0 is not None and c0.hop is not None:
                    world.ov(1).send_destroy(c0.hop.address, cid, 0)
                    world.outs[1]["D"].pop()       # (sent by the harness on the node's behalf, not a model output)
            elif td == "o_dies":
                world.kill(1)
            elif td == "relay_destroy" and relays:
                h = world.rng.choice(relays)
                world.remove_relay(h[0], h[2], True)
                world.remove_relay(h[0], h[3], True)
            elif td == "relay_dies" and relays:
                world.kill(world.rng.choice(relays)[0])
            elif td == "exit_destroy" and exits:
                world.remove_exit(exits[0][0], exits[0][2], True)
            elif td == "exit_dies" and exits:
                world.kill(exits[0][0])
            # a circuit that is still healthy later on is given up by its user at t_final (see there)
            # deadline: retries of a half-built circuit can last (tries0 + goal) * next_hop_timeout
            build_bound = (cfgm["circuit_timeout"] // cfgm["next_hop_timeout"] + 1 + spec["hops"]) * cfgm["next_hop_timeout"]
            lead = build_bound if not info["built"] else 2
            t_final = odd5(now + int(lead * TPS) + 4)
            quiet = t_final + int((3 * B + 4) * TPS) + max_delay + deadline_extra
            end = quiet + ((2 - quiet) % 4)
            # make the end coincide with a checkpoint
            end = next_cp + ((end - next_cp + TPS - 1) // TPS) * TPS
            continue
    info["final"] = world.tables_empty()
    info["cid"] = cid
    return nontrivial, info


def classify_world(world: World):
    return dict(world.stats)


# ======================================================================================================
#  special scenarios: join limit, relay_early budget
# ======================================================================================================
async def run_join_limit(world: World, spec):
    """fill a node to its join limit with creates from the other nodes, check refusal, let entries expire, check acceptance"""
    from ipv8.messaging.anonymization.payload import CreatePayload
    await world.build([False, True, True, True])
    limit = world.ov(2).settings.max_joined_circuits
    world.count(f"join:limit={limit if limit < 10 else 'default'}")
    t = odd(world.ticks() + 4)
    await asyncio.sleep((t - world.ticks()) / TPS)
    target = world.nodes[1]
    senders = [1, 3, 4]
    sent = 0
    rng = world.rng
    used = set()
    accepted_before = 0
    n_relayed = spec.get("relayed", 0)
    # a few real multi-hop circuits through node 2 first (relay entries count twice)
    real = []
    if n_relayed:
        # real 2-hop circuits THROUGH the target (its relay entries count twice): the exit is fixed to node 3 / 4, the
        # first hop is the originator's least used relay - repeat until the target relays `n_relayed` of them
        exits = [p for p in world.ov(1).candidates if world.label_key(p.public_key.key_to_bin()) in (3, 4)]
        for attempt in range(4 * n_relayed):
            if len(world.ov(2).relay_from_to) >= 2 * n_relayed:
                break
            real.append(world.create_circuit(1, 2, required_exit=exits[attempt % len(exits)] if exits else None))
            await asyncio.sleep(8 / TPS)
        world.count("join:relay_entries_on_target", len(world.ov(2).relay_from_to))
    over = spec.get("over", 5)
    total = limit + over
    for k in range(total):
        lab = senders[k % len(senders)]
        ov = world.ov(lab)
        cid = rng.getrandbits(32)
        while cid in used:
            cid = rng.getrandbits(32)
        used.add(cid)
        dh = ov.crypto.generate_diffie_secret()
        ov.send_cell(target.endpoint.wan_address,
                     CreatePayload(cid, rng.randrange(65536), ov.my_peer.public_key.key_to_bin(), dh[1]))
        sent += 1
        if k % 16 == 15:
            await asyncio.sleep(4 / TPS)
    await asyncio.sleep(4 / TPS)
    now = world.ticks()
    cp = now + ((2 - now) % 4)
    await asyncio.sleep((cp - now) / TPS)
    world.checkpoint("filled")
    held = len(world.ov(2).relay_from_to) + len(world.ov(2).exit_sockets)
    if held > limit + 2 * n_relayed:
        world.oracle.append(("should_join_circuit:join-at-limit",
                             f"node 2 holds {held} joined entries after {sent} creates (limit {limit})"))
    world.count("join:held_at_peak", held)
    t = odd(world.ticks() + 4)
    await asyncio.sleep((t - world.ticks()) / TPS)
    for c in real:
        if c is not None:
            world.remove_circuit(1, c.circuit_id, False)
    # let everything expire, sending a probe create every few seconds
    meta = world.meta
    B = meta["max_time_inactive"] + SWEEP_ALLOWANCE_S + meta["remove_tunnel_delay"]
    end = cp + int((2 * B + 8) * TPS)
    nxt_probe = odd(world.ticks() + TPS)
    next_cp = cp + TPS
    end = next_cp + ((end - next_cp + TPS - 1) // TPS) * TPS
    while True:
        now = world.ticks()
        nxt = min(next_cp, nxt_probe)
        await asyncio.sleep((nxt - now) / TPS)
        now = world.ticks()
        if now == next_cp:
            world.checkpoint()
            next_cp += TPS
            if now >= end:
                break
        elif now == nxt_probe:
            if now < cp + int((B + 3) * TPS):
                ov = world.ov(3)
                cid = rng.getrandbits(32)
                dh = ov.crypto.generate_diffie_secret()
                ov.send_cell(target.endpoint.wan_address,
                             CreatePayload(cid, rng.randrange(65536), ov.my_peer.public_key.key_to_bin(), dh[1]))
            nxt_probe += 3 * TPS + 4
    return True, {"final": world.tables_empty(), "held": held}


async def run_swarm(world: World, spec):
    """teardown through the production overlay's own API: node 1 is a HiddenTunnelCommunity holding, for one swarm, a
    READY introduction circuit and one that is still being built (its completing answer is late), plus a data circuit of its
    own; `leave_swarm` must tear down both swarm circuits - every entry descending from them is gone at the deadline -
    while the data circuit lives on"""
    from ipv8.messaging.anonymization.tunnel import CIRCUIT_TYPE_IP_SEEDER
    # every node runs the production overlay in its stock configuration (no `ipv8` service object, hence no PEX)
    await world.build([False] + [True] * (spec["nodes"] - 1), hidden=tuple(range(1, spec["nodes"] + 1)))
    meta = world.meta
    B = meta["max_time_inactive"] + SWEEP_ALLOWANCE_S + meta["remove_tunnel_delay"]
    info_hash = b"s" * 20
    t = odd(world.ticks() + 4)
    await asyncio.sleep((t - world.ticks()) / TPS)
    hops = spec["hops"]
    ready = world.create_circuit(1, hops, ctype=CIRCUIT_TYPE_IP_SEEDER, info_hash=info_hash)
    await asyncio.sleep(32 / TPS)
    if ready is not None and ready.state == "READY":
        # the exit of the READY circuit becomes an introduction point (its exit socket gets the overlay's intro-point
        # bookkeeping, which remove_exit_socket has to undo whenever the socket is reclaimed)
        from ipv8.messaging.anonymization.payload import EstablishIntroPayload
        world.ov(1).send_cell(ready.hop.address, EstablishIntroPayload(ready.circuit_id, 4711, info_hash, b"k" * 32))
        await asyncio.sleep(8 / TPS)
        world.count("swarm:intro_points_registered",
                    sum(len(n.overlay.intro_point_for) for n in world.nodes))
    await asyncio.sleep(24 / TPS)
    # the answer that would complete the second circuit is late (it arrives after the swarm was left), not lost: a
    # circuit with a required exit has no alternative and would give itself up on a lost answer
    world.faults.append(Fault("delay", ["created"] if hops == 1 else ["extended"], nth=[0],
                              delay=spec["leave_after"] + 3 * TPS))
    building = world.create_circuit(1, hops, ctype=CIRCUIT_TYPE_IP_SEEDER, info_hash=info_hash)
    await asyncio.sleep(8 / TPS)
    data = world.create_circuit(1, hops)
    if ready is None or building is None or data is None:
        world.count("swarm:setup_incomplete")
        return True, {"final": world.tables_empty()}
    await asyncio.sleep(spec["leave_after"] / TPS)
    world.count(f"swarm:leave:ready_state={ready.state}:building_state={building.state}:"
                f"destroys_{'lost' if spec.get('lose_destroys') else 'delivered'}")
    if spec.get("members_wanting"):
        for lab in range(2, world.n + 1):
            world.make_swarm_wanting(lab)
    if spec.get("lose_destroys"):
        # nobody hears of the teardown: the introduction point's exit socket has to be reclaimed by its own do_remove
        world.faults.append(Fault("drop", ["destroy"]))
    world.leave_swarm(1, info_hash)
    build_bound = (meta["circuit_timeout"] // meta["next_hop_timeout"] + 1 + hops) * meta["next_hop_timeout"]
    now = world.ticks()
    cp = now + ((2 - now) % 4)
    main_end = cp + int(build_bound + 3 * B) * TPS
    end = None
    info = {}
    while True:
        await asyncio.sleep((cp - world.ticks()) / TPS)
        world.checkpoint()
        if end is None and cp >= main_end:
            info["main_left"] = world.leftovers_of(ready.circuit_id) + world.leftovers_of(building.circuit_id)
            world.count("swarm:data_circuit_alive_at_deadline", int(data.circuit_id in world.ov(1).circuits))
            t = odd(world.ticks() + 4)
            await asyncio.sleep((t - world.ticks()) / TPS)
            if data.circuit_id in world.ov(1).circuits:
                world.remove_circuit(1, data.circuit_id, False)
            end = cp + int(3 * B + 4) * TPS
        elif end is not None and cp >= end:
            break
        cp += TPS
    info["final"] = world.tables_empty()
    return True, info


async def run_rendezvous(world: World, spec):
    """two circuits of node 1 end at the same HiddenTunnelCommunity node; establish-rendezvous over the first and
    link-e2e over the second make that node install a pair of rendezvous relay routes; then both ends are abandoned
    without a destroy: the rendezvous point has to reclaim the linked pair through inactivity"""
    from ipv8.messaging.anonymization.payload import EstablishRendezvousPayload, LinkE2EPayload
    await world.build([False] + [True] * (spec["nodes"] - 1), hidden=tuple(range(1, spec["nodes"] + 1)))
    meta = world.meta
    B = meta["max_time_inactive"] + SWEEP_ALLOWANCE_S + meta["remove_tunnel_delay"]
    t = odd(world.ticks() + 4)
    await asyncio.sleep((t - world.ticks()) / TPS)
    rp = next(p for p in world.ov(1).candidates if world.label_key(p.public_key.key_to_bin()) == 2)
    c1 = world.create_circuit(1, spec["hops"], required_exit=rp)
    await asyncio.sleep(8 / TPS)
    c2 = world.create_circuit(1, spec["hops"], required_exit=rp)
    await asyncio.sleep(32 / TPS)
    if c1 is None or c2 is None or c1.state != "READY" or c2.state != "READY":
        world.count("rendezvous:setup_incomplete")
    else:
        cookie = b"c" * 20
        world.ov(1).send_cell(c1.hop.address, EstablishRendezvousPayload(c1.circuit_id, 11, cookie))
        await asyncio.sleep(8 / TPS)
        world.ov(1).send_cell(c2.hop.address, LinkE2EPayload(c2.circuit_id, 12, cookie))
        await asyncio.sleep(8 / TPS)
        world.count("rendezvous:linked_routes",
                    sum(1 for r in world.ov(2).relay_from_to.values() if r.rendezvous_relay))
    t = odd5(world.ticks() + 4)
    await asyncio.sleep((t - world.ticks()) / TPS)
    for c in (c1, c2):
        if c is not None and c.circuit_id in world.ov(1).circuits:
            world.remove_circuit(1, c.circuit_id, False)
    now = world.ticks()
    cp = now + ((2 - now) % 4)
    end = cp + int(3 * B + 4) * TPS
    while cp <= end:
        await asyncio.sleep((cp - world.ticks()) / TPS)
        world.checkpoint()
        cp += TPS
    return True, {"final": world.tables_empty()}


async def run_race(world: World, spec):
    """sub-instant interleavings: the removal of an exit socket starts k event-loop iterations after the FIRST data cell
    of its circuit was sent, i.e. while enable() may still be opening the outside sockets (the clock does not move in
    between).  Variant `remove_now`: remove_exit_socket(remove_now=True, destroy) at the exit (the path on_created and
    unload use); variant `destroy0`: remove_tunnel_delay = 0 on every node and the originator sends its destroy right
    behind the data cell.  One new circuit per k, all in one world (a node holds entries of several circuits)."""
    await world.build([False] + [True] * (spec["nodes"] - 1))
    t = odd(world.ticks() + 4)
    await asyncio.sleep((t - world.ticks()) / TPS)
    circuits = []
    for k in spec["ks"]:
        c = world.create_circuit(1, spec["hops"])
        if c is None:
            raise InfraError("create_circuit returned None")
        circuits.append(c)
        await asyncio.sleep(32 / TPS)
        p = world.path(1, c.circuit_id)
        ex = [h for h in p if h[1] == "exit"]
        if not ex or c.state != "READY":
            raise InfraError("race scenario: circuit not built")
        world.user_data(1, c)
        for _ in range(k):
            await asyncio.sleep(0)
        es = world.ov(ex[0][0]).exit_sockets.get(ex[0][2])
        world.count(f"race:{spec['variant']}:k={k}:enabled_at_removal={int(bool(es is not None and es.enabled))}:"
                    f"transports_assigned={int(es is not None and es.transport_ipv4 is not None) + int(es is not None and es.transport_ipv6 is not None)}")
        if spec["variant"] == "remove_now":
            world.remove_exit(ex[0][0], ex[0][2], True, remove_now=True)
        else:
            world.remove_circuit(1, c.circuit_id, True)
        await asyncio.sleep(32 / TPS)
    meta = world.meta
    B = meta["max_time_inactive"] + SWEEP_ALLOWANCE_S + meta["remove_tunnel_delay"]
    now = world.ticks()
    cp = now + ((2 - now) % 4)
    end = cp + int(3 * B) * TPS
    while True:
        await asyncio.sleep((cp - world.ticks()) / TPS)
        world.checkpoint()
        if cp >= end:
            break
        cp += TPS
    return True, {"final": world.tables_empty()}


async def run_age_limit(world: World, spec):
    """a healthy, pinged circuit is kept for longer than max_time: the AGE limit (not inactivity) must reclaim the
    originator's circuit and the exit socket although every heart keeps beating; the relay routes follow by inactivity"""
    await world.build([False] + [True] * (spec["nodes"] - 1))
    t = odd(world.ticks() + 4)
    await asyncio.sleep((t - world.ticks()) / TPS)
    circuit = world.create_circuit(1, spec["hops"])
    if circuit is None:
        raise InfraError("create_circuit returned None")
    meta = world.meta
    B = meta["max_time_inactive"] + SWEEP_ALLOWANCE_S + meta["remove_tunnel_delay"]
    t0 = world.ticks()
    end = t0 + int((meta["max_time"] + 3 * B + 4) * TPS)
    cp = t0 + 2 + ((2 - (t0 + 2)) % 4)
    step = 64 * TPS          # sparse checkpoints: one per 64 virtual seconds …
    dense_from = t0 + int((meta["max_time"] - 10) * TPS)   # … and one per second around the age limit
    alive_at_limit = None
    await asyncio.sleep(64 / TPS)
    world.user_data(1, circuit)            # the exit socket gets its outside transports
    t_dup = odd(t0 + int((meta["unstable_timeout"] + 10) * TPS))
    while True:
        if t_dup is not None and cp > t_dup:
            # late duplicates: every create of this circuit arrives once more, after the created-cache forgot it, under
            # an id that is in use (a socket replaced in the table would leak its transports)
            await asyncio.sleep((t_dup - world.ticks()) / TPS)
            for lab, addr, packet, raw in list(world.creates):
                world.count("late_duplicate_create")
                raw(addr, packet)
            t_dup = None
        await asyncio.sleep((cp - world.ticks()) / TPS)
        world.checkpoint()
        now = world.ticks()
        if alive_at_limit is None and now >= t0 + int((meta["max_time"] - 6) * TPS):
            alive_at_limit = circuit.circuit_id in world.ov(1).circuits and circuit.state == "READY"
            world.count("age:circuit_still_ready_before_limit", int(bool(alive_at_limit)))
        if now >= end:
            break
        cp += TPS if now >= dense_from else step
        if cp > dense_from and now < dense_from:
            cp = dense_from + ((2 - dense_from) % 4)
    # (if the circuit did not live until the age limit the run only checks the deadline; see the counter above)
    return True, {"final": world.tables_empty()}


async def run_relay_early(world: World, spec):
    """a (misbehaving) originator keeps flagging its cells as relay_early: relays must stop forwarding them"""
    await world.build([False, True, True, True, True])
    t = odd(world.ticks() + 4)
    await asyncio.sleep((t - world.ticks()) / TPS)
    circuit = world.create_circuit(1, spec["hops"])
    await asyncio.sleep(4 / TPS)
    n = spec.get("cells", 30)
    for k in range(n):
        if spec.get("reset", True):
            circuit.relay_early_count = 0
        world.user_data(1, circuit)
        if k % 4 == 3:
            await asyncio.sleep(4 / TPS)
    await asyncio.sleep(4 / TPS)
    now = world.ticks()
    cp = now + ((2 - now) % 4)
    await asyncio.sleep((cp - now) / TPS)
    world.checkpoint("flagged")
    # abandon and wait for the timers
    t = odd(world.ticks() + 4)
    await asyncio.sleep((t - world.ticks()) / TPS)
    world.remove_circuit(1, circuit.circuit_id, False)
    meta = world.meta
    B = meta["max_time_inactive"] + SWEEP_ALLOWANCE_S + meta["remove_tunnel_delay"]
    end = cp + int((3 * B) * TPS)
    next_cp = cp + TPS
    while next_cp <= end:
        await asyncio.sleep((next_cp - world.ticks()) / TPS)
        world.checkpoint()
        next_cp += TPS
    return True, {"final": world.tables_empty()}


# ======================================================================================================
#  driver of one case
# ======================================================================================================
def run_case(ctx: Ctx, spec, use_model: bool, kind="scenario"):
    import random as pyrandom

    import vclock
    from ipv8.test.mocking import endpoint as mock_ep
    mock_ep.AutoMockEndpoint.SEND_INET_EXCEPTION_TO_LOOP = False
    mock_ep.internet.clear()
    seed = ctx.rng.getrandbits(48)
    pyrandom.seed(seed)
    import random as _r
    wrng = _r.Random(seed)
    loop = vclock.VLoop()
    asyncio.set_event_loop(loop)
    vclock.install(loop)
    patch = {}
    if spec.get("variant") == "destroy0":
        patch["remove_tunnel_delay"] = 0
    if spec.get("limit") is not None:
        patch["max_joined_circuits"] = spec["limit"]      # boundary values of the join limit (0 = always at the limit)
    world = World(wrng, spec.get("nodes", 5), settings_patch=patch or None)
    if "remove_tunnel_delay" in patch:
        world.flat.append(("delay 0", None, None))
    if "max_joined_circuits" in patch:
        world.flat.append((f"maxjoined {patch['max_joined_circuits']}", None, None))
    world.loop = loop
    world.base = loop.time()
    world.meta = META
    orig_cde = loop.create_datagram_endpoint

    world.no_ipv6 = bool(spec.get("no_ipv6"))

    async def create_datagram_endpoint(*a, **k):
        la = k.get("local_addr") or ()
        if world.no_ipv6 and la and la[0] == "::":
            world.count("ipv6_bind_refused")
            raise OSError(97, "Address family not supported by protocol")
        transport, protocol = await orig_cde(*a, **k)
        owner = getattr(getattr(protocol, "received_cb", None), "__self__", None)
        world.transports.append((owner, transport))
        return transport, protocol
    loop.create_datagram_endpoint = create_datagram_endpoint
    # packet identifiers come from `secrets`: make them a function of the seed as well
    import ipv8.messaging.anonymization.caches as caches_mod

    class SeededSecrets:
        @staticmethod
        def randbelow(n):
            return wrng.randrange(n)
    orig_secrets = caches_mod.secrets
    caches_mod.secrets = SeededSecrets
    try:
        async def main():
            try:
                if kind == "join":
                    return await run_join_limit(world, spec)
                if kind == "early":
                    return await run_relay_early(world, spec)
                if kind == "age":
                    return await run_age_limit(world, spec)
                if kind == "race":
                    return await run_race(world, spec)
                if kind == "swarm":
                    return await run_swarm(world, spec)
                if kind == "rendezvous":
                    return await run_rendezvous(world, spec)
                return await run_scenario(world, spec)
            finally:
                await world.shutdown()
        nontrivial, info = loop.run_until_complete(main())
    finally:
        caches_mod.secrets = orig_secrets
        vclock.uninstall()
        try:
            loop.close()
        except Exception:
            pass
        asyncio.set_event_loop(None)
    replay = {"kind": kind, "spec": spec, "seed": seed}
    for sig, what in world.oracle[:3]:
        ctx.oracle_fail(sig, what, replay)
    if info.get("main_left"):
        ctx.oracle_fail("deadline:entries-left",
                        f"{kind} {spec}: at the deadline of the torn-down circuit its entries are still held while other "
                        f"circuits are alive: {info['main_left'][:4]}", replay)
    if info["final"]:
        kinds = set()
        for b in info["final"]:
            kinds.add("open-exit-socket" if b[1] == "open exit socket" else "entries-left")
        for k in sorted(kinds):
            ctx.oracle_fail(f"deadline:{k}",
                            f"{kind} {spec}: at the virtual deadline state is left on live nodes: {info['final'][:4]}", replay)
    for k, v in world.stats.items():
        ctx.count(k, v)
    ctx.count("case:" + kind)
    if kind == "scenario":
        ctx.count(f"hops:{spec['hops']}")
        ctx.count(f"phase:{spec['phase']}")
        ctx.count(f"path_len:{len(info['path'])}")
        ctx.count(f"built:{int(info['built'])}")
    ctx.case((kind, spec_key(spec) if kind == "scenario" else repr(spec)), nontrivial)
    # ---- model
    if use_model:
        lines = [l for l, _, _ in world.flat]
        replies = ctx.driver().batch(lines)
        nobs = 0
        for (line, exp, meta), rep in zip(world.flat, replies):
            if exp is None:
                if rep != "ok":
                    raise InfraError(f"driver answered {rep!r} to `{line}`")
                continue
            nobs += 1
            if rep != exp:
                ctx.disagree(f"{kind} node {meta[0]} at tick {meta[1]}: model `{rep}` != implementation `{exp}`",
                             {"kind": kind, "spec": spec, "seed": seed, "line": line, "model": rep, "impl": exp})
                break
        ctx.count("obs_compared", nobs)
    if len(ctx.samples) < 4:
        ctx.sample({"kind": kind, "spec": spec, "lines": len(world.flat), "path": [list(map(str, h)) for h in info.get("path", [])]})
    return world, info


META = {}


def load_meta(ctx):
    global META
    if not META:
        try:
            _, META = gen_c09.translate()
        except Exception:
            # the translator no longer understands the source (reported as a broken obligation by the runner):
            # the implementation-only oracle still needs the settings
            from ipv8.messaging.anonymization.community import TunnelSettings
            s = TunnelSettings()
            META = {k: getattr(s, k) for k in ("max_time_inactive", "max_time", "max_traffic", "remove_tunnel_delay",
                                               "next_hop_timeout", "circuit_timeout", "unstable_timeout",
                                               "max_joined_circuits", "max_relay_early")}
            META["sweep_interval"] = SWEEP_ALLOWANCE_S
    return META


def exhaustive_specs():
    """small-scope enumeration named in DESIGN.md: hops x teardown position x phase x every subset of <= 3 dropped
    teardown/build messages (destroy #0..2 on any link; created/extended #0..1)"""
    specs = []
    import itertools
    for hops in (1, 2, 3):
        for td in ("o_destroy", "relay_destroy", "exit_destroy", "o_abandon"):
            if hops == 1 and td == "relay_destroy":
                continue
            for phase in ("ready", "transfer"):
                for r in range(0, 4):
                    for sub in itertools.combinations(range(3 if hops < 3 else 4), r):
                        specs.append({"hops": hops, "phase": phase, "teardown": td, "nodes": 5, "when": 6 * TPS + 4,
                                      "faults": [{"action": "drop", "kinds": ["destroy"], "nth": list(sub), "delay": 0,
                                                  "src": None, "dst": None}] if sub else [],
                                      "chatty_outside": phase == "transfer", "traffic_limit": False,
                                      "payload": "bt",
                                      "postmortem": [40] if len(sub) % 2 else [], "wanting": "all" if r == 1 else "none"})
        for r in range(1, 4):
            for sub in itertools.combinations(range(4), r):
                for kinds in (["created"], ["extended"], ["created", "extended"]):
                    if hops == 1 and kinds == ["extended"]:
                        continue
                    specs.append({"hops": hops, "phase": "halfbuilt", "teardown": "none", "nodes": 5, "when": 20 * TPS,
                                  "faults": [{"action": "drop", "kinds": kinds, "nth": list(sub), "delay": 0,
                                              "src": None, "dst": None}],
                                  "chatty_outside": False, "traffic_limit": False, "payload": "bt",
                                  "postmortem": [], "wanting": "all" if r == 2 else "none"})
    return specs


def run_all(ctx: Ctx, n_random, use_model, with_exhaustive):
    load_meta(ctx)
    logging.disable(logging.CRITICAL)
    try:
        # fixed small battery first: one of each teardown for 1..3 hops, no faults
        idx = 0
        for hops in (1, 2, 3):
            for td in TEARDOWNS:
                if hops == 1 and td.startswith("relay"):
                    continue
                spec = make_spec(ctx.rng, idx, {"hops": hops, "teardown": td, "phase": "ready" if idx % 2 else "transfer",
                                                "faults": [], "traffic_limit": False,
                                                "postmortem": [16, 168] if idx % 3 != 2 else [],
                                                "wanting": "all" if idx % 2 == 0 else "none"})
                run_case(ctx, spec, use_model)
                idx += 1
        # duplicated relayed cells (the relay's AEAD rejects the replay after the opposite heart was beaten), a legacy
        # destroy with reason 0, data the exit refuses
        for hops, td, flt, pl in ((3, "o_abandon", [{"action": "dup", "kinds": ["relayed"], "nth": None, "delay": 416,
                                                     "src": None, "dst": None}], "bt"),
                                  (2, "o_destroy0", [], "bt"), (3, "o_destroy0", [], "mixed"),
                                  (2, "exit_dies", [], "junk")):
            run_case(ctx, make_spec(ctx.rng, idx, {"hops": hops, "teardown": td, "phase": "transfer", "faults": flt,
                                                   "traffic_limit": False, "payload": pl, "postmortem": [16],
                                                   "wanting": "none"}), use_model)
            idx += 1
        # small worlds (a path cannot always be completed: send_extend runs out of candidates) and worlds in which
        # other circuits stay alive over the same neighbours while the main one is abandoned / loses its destroy
        for nodes, hops, td, comp in ((3, 3, "none", []), (3, 3, "o_abandon", [[1, 2]]), (4, 3, "none", [[2, 2]]),
                                      (3, 2, "o_abandon", [[1, 2], [1, 2], [1, 2]]), (3, 2, "o_dies", [[2, 2], [3, 2]]),
                                      (4, 2, "exit_dies", [[1, 2], [1, 2], [2, 2]]), (4, 3, "o_abandon", [[1, 3], [1, 2], [3, 2]]),
                                      (3, 1, "o_abandon", [[1, 1], [1, 2]])):
            run_case(ctx, make_spec(ctx.rng, idx, {"nodes": nodes, "hops": hops, "teardown": td, "companions": comp,
                                                   "phase": "ready" if td != "none" else "halfbuilt", "faults": [],
                                                   "traffic_limit": False, "wanting": "none", "when": 10 * TPS,
                                                   "postmortem": []}), use_model)
            idx += 1
        # hops whose created / extended does not verify (right identifier, damaged authenticator): always, once, only one node
        for nodes, hops, bad in ((4, 2, [[2, None], [3, None], [4, None]]), (4, 3, [[2, 1], [3, 1], [4, 1]]),
                                 (3, 2, [[3, None]]), (5, 3, [[2, None], [4, 2]]), (4, 1, [[2, None], [3, 1]])):
            for field in ("bad_auth", "bad_cands"):
                forced = {"nodes": nodes, "hops": hops, "teardown": "none", "companions": [], "phase": "halfbuilt",
                          "faults": [], "traffic_limit": False, "wanting": "none", "when": 10 * TPS, "postmortem": [],
                          "bad_auth": [], "bad_cands": []}
                forced[field] = bad
                run_case(ctx, make_spec(ctx.rng, idx, forced), use_model)
                idx += 1
        # data exits at the last hop so far, which is extended afterwards (first extend / its answer lost, retry succeeds)
        for hops, kinds, td in ((2, ["extend"], "o_destroy"), (3, ["extended"], "o_abandon"), (2, ["created"], "exit_dies"),
                                (3, ["extend"], "relay_destroy")):
            run_case(ctx, make_spec(ctx.rng, idx, {
                "nodes": 5, "hops": hops, "teardown": td, "companions": [], "phase": "halfbuilt", "early_data": True,
                "faults": [{"action": "drop", "kinds": kinds, "nth": [0], "delay": 0, "src": None, "dst": None}],
                "traffic_limit": False, "wanting": "none", "when": 25 * TPS, "postmortem": [], "bad_auth": [],
                "bad_cands": [], "payload": "bt", "no_ipv6": False, "unsendable_exit": False}), use_model)
            idx += 1
        # teardown through HiddenTunnelCommunity.leave_swarm with a circuit of the swarm still extending
        for hops, after, lose, want in ((1, 3 * TPS, True, False), (2, 3 * TPS, False, False), (3, 5 * TPS, True, True),
                                        (2, 4 * TPS, True, True)):
            run_case(ctx, {"nodes": 5, "hops": hops, "leave_after": after, "lose_destroys": lose,
                           "members_wanting": want}, use_model, kind="swarm")
        # a linked end-to-end circuit at a rendezvous point whose both ends vanish (oracle only: the model has no
        # rendezvous linking)
        for hops in (1, 2):
            run_case(ctx, {"nodes": 4, "hops": hops}, False, kind="rendezvous")
        # a host without IPv6 (the "::" outside socket cannot be bound); an exit only known by host name
        for hops, td, extra in ((1, "o_destroy", {"no_ipv6": True}), (2, "o_abandon", {"no_ipv6": True}),
                                (3, "exit_destroy", {"no_ipv6": True}), (2, "none", {"unsendable_exit": True}),
                                (3, "none", {"unsendable_exit": True})):
            forced = {"nodes": 5, "hops": hops, "teardown": td, "companions": [], "faults": [], "traffic_limit": False,
                      "phase": "transfer" if "no_ipv6" in extra else "halfbuilt", "wanting": "none", "when": 10 * TPS,
                      "postmortem": [16], "bad_auth": [], "bad_cands": [], "payload": "bt", "no_ipv6": False,
                      "unsendable_exit": False}
            forced.update(extra)
            run_case(ctx, make_spec(ctx.rng, idx, forced), use_model)
            idx += 1
        run_case(ctx, {"nodes": 4, "hops": 2}, use_model, kind="age")
        for hops in (1, 2, 3):
            for variant in ("remove_now", "destroy0"):
                run_case(ctx, {"nodes": 5, "hops": hops, "variant": variant, "ks": list(range(0, 10))}, use_model,
                         kind="race")
        for limit in (0, 1, 3):
            run_case(ctx, {"nodes": 4, "over": 4, "relayed": 0, "limit": limit}, use_model, kind="join")
        run_case(ctx, {"nodes": 4, "over": 5, "relayed": 0}, use_model, kind="join")
        run_case(ctx, {"nodes": 4, "over": 3, "relayed": 2}, use_model, kind="join")
        for hops in (2, 3):
            run_case(ctx, {"nodes": 5, "hops": hops, "cells": 24, "reset": True}, use_model, kind="early")
        run_case(ctx, {"nodes": 5, "hops": 3, "cells": 24, "reset": False}, use_model, kind="early")
        for i in range(n_random):
            spec = make_spec(ctx.rng, idx + i)
            run_case(ctx, spec, use_model)
        if with_exhaustive:
            for spec in exhaustive_specs():
                run_case(ctx, spec, use_model)
    finally:
        logging.disable(logging.NOTSET)


# classes of inputs every run must have reached (prefixes of evidence-distribution keys).  They are the branches of the
# hand-written model definitions that carry a clause of the property (Node.onDestroy, Node.onCell, Node.onCreate,
# Node.onCreated, Entry.ours, Entry.retried, retryTimeout, Entry.remove, Entry.exited, the sweep) and the scenario
# classes design.d/C09.md lists.  A clean run in which one of them stays at zero is not a pass: exit 2.
COVERAGE_FLOOR = [
    "branch:on_destroy:relay_pair:passed_on", "branch:on_destroy:relay_pair:reason0", "branch:on_destroy:exit",
    "branch:on_destroy:circuit", "branch:on_destroy:ignored",
    "branch:on_create:joined", "branch:on_create:refused_at_limit", "late_duplicate_create",
    "branch:on_extend:create_sent", "branch:relay_cell:forwarded", "branch:relay_cell:dropped",
    "branch:send_extend_or_create:cache_installed", "branch:send_extend_or_create:no_candidate_left",
    "handshake:verify_failed:created", "handshake:verify_failed:extended", "bad_candidate_list_answer",
    "stim:mk", "stim:retry", "stim:rmc", "stim:rmr", "stim:rmx", "stim:outside", "stim:traffic", "stim:destroy",
    "stim:cell:relayed", "stim:cell:create", "stim:cell:created", "stim:cell:extend", "stim:cell:extended",
    "stim:cell:ping", "stim:cell:pong", "stim:cell:data", "stim:cell:testreq", "stim:cell:junk", "stim:cell:other",
    "user:data:allowed", "user:data:refused_by_exit_policy", "user:speedtest",
    "exit_enabled_by_data:before_teardown", "exit_enabled_by_data:after_teardown", "postmortem_data_cell",
    "teardown:o_destroy", "teardown:o_destroy0", "teardown:o_abandon", "teardown:o_dies", "teardown:relay_destroy",
    "teardown:relay_dies", "teardown:exit_destroy", "teardown:exit_dies", "teardown:none",
    "fault:drop:", "fault:dup:", "fault:delay:", "wanting_node", "final_abandon",
    "originator_entry_already_reclaimed", "companions_alive_at_main_deadline", "companion:created",
    "age:circuit_still_ready_before_limit", "race:remove_now:", "race:destroy0:", "case:join", "case:early",
    "join:limit=0", "join:limit=1", "join:limit=default", "join:relay_entries_on_target", "extend_of_enabled_exit_socket", "swarm:leave:ready_state=READY:building_state=EXTENDING:destroys_lost",
    "swarm:leave:ready_state=READY:building_state=EXTENDING:destroys_delivered", "swarm:intro_points_registered", "swarm_wanting_node", "rendezvous:linked_routes", "swarm:data_circuit_alive_at_deadline", "ipv6_bind_refused", "unsendable_exit",
    "hops:1", "hops:2", "hops:3", "phase:halfbuilt", "phase:ready", "phase:transfer", "obs_compared",
]


def coverage_floor(ctx: Ctx):
    if ctx.failures or ctx.disagreements or ctx.broken or ctx.searching:
        return      # a regressed tree may well lose classes: the verdict is about the failures then
    missing = [k for k in COVERAGE_FLOOR if not any(c.startswith(k) and v > 0 for c, v in ctx.counts.items())]
    ctx.extra["coverage_floor"] = {"required": len(COVERAGE_FLOOR), "missing": missing}
    if missing:
        raise InfraError("coverage floor: input classes never reached in this run: " + ", ".join(missing))


def run(ctx: Ctx):
    if ctx.replay_input is not None:
        return replay(ctx, ctx.replay_input)
    run_all(ctx, ctx.scale(170, 400), ctx.model_ok, ctx.thorough())
    coverage_floor(ctx)


def search(ctx: Ctx, reason: str):
    run_all(ctx, 120, False, False)


def replay(ctx: Ctx, rec: dict):
    import random as _r
    load_meta(ctx)
    r = rec.get("replay", rec)
    ctx.rng = _r.Random(0)

    class One:
        def getrandbits(self, n):
            return r["seed"]
    real = ctx.rng
    ctx.rng = One()
    logging.disable(logging.CRITICAL)
    try:
        world, info = run_case(ctx, r["spec"], ctx.model_ok, kind=r.get("kind", "scenario"))
    finally:
        logging.disable(logging.NOTSET)
        ctx.rng = real
    print(f"replay: {r.get('kind')} {r['spec']}: left at deadline: {info['final']}; oracle: {world.oracle[:3]}; "
          f"property {'FAILS' if (info['final'] or world.oracle) else 'holds'}")
