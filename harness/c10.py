"""
C10 — each outstanding request is resolved exactly once (ipv8/requestcache.py on ipv8/taskmanager.py).

Link to the code
  * translator tools/gen_rc.py regenerates lean/Ipv8/C10/GenRC.lean (constants + shape checks) on every run;
  * correspondence: scripted histories (add / pop / retrieve_cache / get / passthrough enter+exit / clear / shutdown /
    external future completion / timer expiry with arbitrary on_timeout bodies) are executed on the REAL RequestCache
    under the virtual-clock loop (tools/vclock.py).  Every executed event is logged in the order in which it really
    happened, together with an API-level state digest (get() over the identifier universe, is_pending_task_active()
    per cache object, managed-future states).  The log is then fed to the Lean model (drv_c10): the model must accept
    every observed event (trace inclusion: a timeout the model considers disabled is a disagreement), give the same
    result and the same digest, and must not consider any timer overdue whenever virtual time advanced (progress).
  * oracle (independent of the model): a small bookkeeping of "outstanding" requests evaluates the property itself
    on the real run: at-most-once, no timeout after claim/clear/shutdown, claimed-after-timeout, duplicate identity,
    futures completed on timeout, shutdown finality, every outstanding request times out exactly at its deadline.

Case families (what is complete / sampled per tier: evidence key coverage.exhaustive_scopes)
  random     seeded histories over 1..9 cache objects, few identities (collisions are the point), delays mostly on a
             125 ms grid so that pops and expiries meet in the same loop iteration (plus 50/100/333 ms), ops placed on
             "lanes" (k call_soon hops after a timer); on_timeout bodies and response-handler bodies issue further calls
  population 10..40 objects, up to 12 identities, negative and > 16 bit numbers
  long       10 s default and 700..1300 s delays, histories up to 2400 s (past TaskManager._check_tasks)
  lanes      exhaustive: N<=4 caches expiring at the same instant x per-cache pop lane x global clear/shutdown lane
             x on_timeout body (pop neighbour / pop self / add a fresh cache under the same identity)
  sequences  exhaustive: every op sequence up to a length over {add a, add b, pop, clear, mk+add fresh} executed
             back-to-back in ONE callback, either at time 0 or exactly at the deadline of a/b
"""
from __future__ import annotations

import asyncio
import itertools
import logging

import gen_rc
from vlib import Ctx

PROPERTY = "C10"
LEAN_TARGETS = ["Ipv8.C10.Props"]
PROPS_FILE = "Ipv8/C10/Props.lean"
DRIVER = "drv_c10"
LEANCHECKER_MODULES = ["Ipv8.C10.Model", "Ipv8.C10.Lemmas", "Ipv8.C10.Source", "Ipv8.C10.AsyncTask", "Ipv8.C10.TaskMgr"]
RULE = ("a case = one scripted history run on the real RequestCache under the virtual clock; distinct = distinct "
        "(specs, script); non-trivial = at least one request was registered and at least one of them was resolved by "
        "the scripted history itself (claim, timeout, or a scripted clear/shutdown while outstanding) - the harness's "
        "own closing shutdown does not count; families: random, population, long, lanes, sequences")
TRUSTED_BASE = [
    "tools/gen_rc.py (constants, shape checks of find_unclaimed_identifier/_create_identifier, and the statement "
    "sequences of RequestCache.add/pop/_on_timeout/clear/shutdown as primitive-op lists; meaning of the primitives: "
    "lean/Ipv8/C10/Source.lean)",
    "hand-written model lean/Ipv8/C10/Model.lean, tied to the code by the trace-inclusion + digest + progress run",
    "asyncio semantics are enabledness rules R1-R4 of the model; they are validated against CPython by the same run "
    "(tools/vclock.py replaces only the clock, the loop/Task/Future machinery is the real one)",
    "on_timeout bodies are universally quantified in the model (any synchronous event sequence); the harness drives "
    "scripted bodies",
]
ASSUMPTIONS = [
    "asyncio enters the request-cache model as enabledness rules R1-R4 (validated by trace inclusion on every history); "
    "AsyncTask.lean (Task.cancel/__step transcription) is compared with the real asyncio.Task at every observed cancel, "
    "but only through 8 fixed scripts (delayed? x phase at cancel x body raised?): body entered? ended how?; TaskMgr.lean (several Tasks per cache, done_cb window) is "
    "not executed: only its `doneCbGuarded` parameter is read from taskmanager.py",
    "on_timeout bodies and done-callbacks run synchronous RequestCache calls only; shutdown() is awaited from a task",
    "single event-loop thread (the threading.Lock in RequestCache is not modelled)",
]

PFX = ["ping", "retry", "ping:1"]
CLS = ["A", "B", "C", "D", "R", "N"]          # 5 = NumberCache itself (filter only)
GRID = 125
MAX_BODY_RUNS = 3


def enc(n: int) -> int:
    """numbers may be negative or huge; the model's identifiers are naturals: zig-zag code (injective)"""
    return 2 * n if n >= 0 else -2 * n - 1


class Boom(Exception):
    pass


class CaseHang(KeyboardInterrupt):
    """raised by the per-case watchdog (SIGALRM) when a history blocks, e.g. on the cache's non-reentrant lock.
    A KeyboardInterrupt subclass: asyncio Tasks re-raise those instead of storing them as the task's exception."""


BLOCKED = [False]          # a history blocked in this run: stop exploring
CASE_WATCHDOG_S = 30      # wall clock; a history takes milliseconds - only a blocked interpreter ever gets here


class BoomBase(BaseException):
    """an on_timeout / handler may also leave with something that is not an `Exception`"""


def raise_kind(op):
    """["raise"] = an ordinary Exception, ["raise", "cancelled"] = asyncio.CancelledError (e.g. from reading the result of
    a cancelled future), ["raise", "base"] = another BaseException"""
    kind = op[1] if len(op) > 1 else "exception"
    if kind == "cancelled":
        return kind, asyncio.CancelledError()
    if kind == "base":
        return kind, BoomBase()
    return "exception", Boom()


class TimeoutMark(Exception):
    pass


_classes = None


def classes():
    """cache classes, created lazily so that VERIF_REPO decides which tree is imported"""
    global _classes
    if _classes is not None:
        return _classes
    from ipv8.requestcache import NumberCache, RandomNumberCache

    class Mixin:
        _h = None
        _k = None
        _delay = None

        @property
        def timeout_delay(self):
            if self._delay is None:
                return super().timeout_delay
            return self._delay / 1000.0

        def on_timeout(self):
            self._h.on_fire(self)

    class A(Mixin, NumberCache):
        pass

    class B(A):
        pass

    class C(B):
        pass

    class D(Mixin, NumberCache):
        pass

    class R(Mixin, RandomNumberCache):
        pass

    _classes = {"A": A, "B": B, "C": C, "D": D, "R": R, "N": NumberCache}
    return _classes


TIMEOUT_VALUE = object()
EXT_VALUE = object()


class Run:
    """executes one case on the real code; produces the event log (protocol lines + implementation replies)"""

    def __init__(self, case: dict, ctx: Ctx | None):
        self.case = case
        self.ctx = ctx
        self.specs = {int(k): v for k, v in case["specs"].items()}
        self.log: list[tuple[int, str, str]] = []
        self.objs: dict[int, object] = {}       # spec key -> cache object
        self.idx: dict[int, int] = {}           # spec key -> model object index (construction order)
        self.order: list[int] = []              # model index -> spec key
        self.futs: dict[int, list] = {}         # spec key -> [(future, is_exc, exc_instance)]
        self.lazy: list[tuple[int, str, str, object]] = []
        self.cms: list = []
        self.last_t = 0
        self.failures: list[tuple[str, str]] = []
        self.loop_errors: list[str] = []
        self.sd_tasks: list = []
        # oracle bookkeeping (independent of the Lean model)
        self.outstanding: dict[tuple[int, int], int] = {}
        self.deadline: dict[int, int] = {}
        self.deadlines: dict[int, set] = {}
        self._cm_stack: list = []
        self.history: dict[int, list[str]] = {}
        self.sd = False
        self.in_fire: int | None = None
        self.swept = False
        self.body_runs: dict[int, int] = {}
        self.waiters: list = []
        self.in_handler = 0
        self.sd_tm = False
        self.atask_obs: list = []
        self._cm_last = None
        self.stats = {"added": 0, "claimed": 0, "timeout": 0, "dropped": 0, "keyerror": 0, "dup": 0, "inuse": 0,
                      "woken_cancel": 0, "same_instant_pop": 0, "body_ops": 0, "late_add_shutdown": 0}
        uni = set()
        for sp in self.specs.values():
            if sp.get("n") is not None:
                uni.add((sp["p"], sp["n"]))
            for x in sp.get("cands") or []:
                uni.add((sp["p"], x))
        for op in self._all_ops():
            if op[0] in ("pop", "ret", "get", "wait"):
                uni.add((op[1], op[2]))
        self.universe = sorted(uni)

    def _all_ops(self):
        for _, _, op in self.case["script"]:
            yield op
            if op[0] == "seq":
                yield from op[1]
            if op[0] == "later":
                yield op[3]
            if op[0] == "ret" and len(op) > 4:
                yield from op[4]
        for sp in self.specs.values():
            yield from sp.get("body") or []

    # ---- time / logging ---------------------------------------------------------------------------
    def now(self) -> int:
        return round((self.loop.time() - self.t0) * 1000)

    def fail(self, sig: str, what: str):
        self.failures.append((sig, what))

    def digest(self) -> str:
        ids = []
        for (p, n) in sorted(self.universe, key=lambda e: (e[0], enc(e[1]))):
            o = self.rc.get(PFX[p], n)
            if o is not None:
                ids.append(f"{p}:{enc(n)}={self.name_of(o)}")
        act = [str(i) for i, k in enumerate(self.order) if self.rc.is_pending_task_active(self.objs[k])]
        futs = [f"{i}:" + "".join(self.fut_char(f) for f in self.futs[k]) for i, k in enumerate(self.order)]
        return "ids=[" + ",".join(ids) + "] act=[" + ",".join(act) + "] futs=[" + ",".join(futs) + "]"

    def name_of(self, o) -> str:
        k = getattr(o, "_k", None)
        return str(self.idx[k]) if k in self.idx and self.objs.get(k) is o else "?"

    @staticmethod
    def fut_char(entry) -> str:
        f, _, exc = entry
        if f.cancelled():
            return "C"
        if not f.done():
            return "P"
        e = f.exception()
        if e is not None:
            return "E" if e is exc else "?"
        r = f.result()
        if exc == "default" and r is None:
            return "R"
        return "R" if r is TIMEOUT_VALUE else ("X" if r is EXT_VALUE else "?")

    def flush(self, from_fire=False):
        while self.lazy:
            t, line, reply, post = self.lazy.pop(0)
            if post is not None:
                post()
            if from_fire:
                # `_on_timeout` of the next cache has already removed its identifier: no consistent snapshot
                self.log.append((t, "~ " + line, reply))
            else:
                self.log.append((t, line, reply + " | " + self.digest()))

    def sweep(self):
        """between events (never inside an on_timeout): table and timers must match the outstanding requests"""
        if self.swept:
            return
        for (p, n) in self.universe:
            o = self.rc.get(PFX[p], n)
            exp = self.outstanding.get((p, n))
            if o is not None and exp is None:
                self.swept = True
                self.fail("RequestCache:identifier-without-outstanding-request",
                          f"at {self.now()} ms the table holds request {getattr(o, '_k', '?')} under {(p, n)} although "
                          f"no request is outstanding there (it can be handed to a late response)")
            elif o is not None and not self.sd_tm and not self.rc.is_pending_task_active(o):
                self.swept = True
                self.fail("RequestCache:outstanding-without-timer",
                          f"at {self.now()} ms request {exp} {(p, n)} is registered but has no live timeout task: it "
                          f"can never time out")

    def pre(self, from_fire=False):
        """before any event: emit lazily logged events, then a tick if virtual time moved"""
        self.flush(from_fire)
        if not from_fire and self.in_fire is None:
            self.sweep()
        t = self.now()
        if t != self.last_t:
            for ident, k in list(self.outstanding.items()):
                if not self.sd_tm and max(self.deadlines.get(k, {t})) < t:
                    self.fail("RequestCache._on_timeout:missing",
                              f"request {k} {ident} was registered with deadline {self.deadline[k]} ms and was neither "
                              f"claimed nor dropped, but at {t} ms its timeout has not fired")
                    del self.outstanding[ident]
            self.last_t = t
            self.log.append((t, f"tick {t}", "overdue=[]"))

    def emit(self, line: str, reply: str):
        self.log.append((self.now(), line, reply + " | " + self.digest()))

    # ---- the event handlers --------------------------------------------------------------------------
    def observe_cancel(self, k):
        """the real asyncio.Task registered under cache k is about to be cancelled: note its phase (AsyncTask.lean)"""
        o = self.objs.get(k)
        if o is None or not self.rc.is_pending_task_active(o):
            return
        tk = self.rc.get_task(o)
        if tk is None or not isinstance(tk, asyncio.Task):
            return
        if getattr(tk, "_c10_body", 0) and self.in_fire == k:
            phase = "running"
        else:
            w = getattr(tk, "_fut_waiter", "n/a")
            if w == "n/a":
                return                       # this interpreter does not expose the waiter: no Task-level observation
            phase = "created" if w is None else ("woken" if w.done() else "sleeping")
        self.atask_obs.append((tk, getattr(tk, "_c10_delayed", True), phase))
        self.stats["atask:" + phase] = self.stats.get("atask:" + phase, 0) + 1

    def on_fire(self, cache):
        k = cache._k
        tk = asyncio.current_task()
        if tk is not None:
            tk._c10_body = getattr(tk, "_c10_body", 0) + 1
        self.pre(from_fire=True)
        t = self.now()
        ident = (self.specs[k]["p"], cache.number)
        hist = self.history.setdefault(k, [])
        if self.sd or self.sd_tm:
            self.fail("RequestCache._on_timeout:after-shutdown", f"on_timeout of request {k} ran at {t} ms, after shutdown")
        elif self.outstanding.get(ident) != k:
            last = hist[-1] if hist else "never registered"
            kind = {"claimed": "after-claim", "timeout": "twice", "dropped": "after-clear"}.get(last, "not-outstanding")
            self.fail(f"RequestCache._on_timeout:{kind}",
                      f"on_timeout of request {k} {ident} ran at {t} ms although it was not outstanding (last: {last})")
        else:
            if t not in self.deadlines[k]:
                self.fail("RequestCache._on_timeout:wrong-time",
                          f"request {k} timed out at {t} ms, its deadline was {self.deadline[k]} ms"
                          + (f" (admissible: {sorted(self.deadlines[k])})" if len(self.deadlines[k]) > 1 else ""))
            del self.outstanding[ident]
        hist.append("timeout")
        self.stats["timeout"] += 1
        self.emit(f"fb {self.idx[k]}", f"timeout {self.idx[k]}")
        pend_before = []
        self.in_fire = k
        # a body that re-registers its own request runs at most MAX_BODY_RUNS times (then the request just times
        # out), otherwise a zero-delay passthrough would make the scripted history infinite
        self.body_runs[k] = self.body_runs.get(k, 0) + 1
        body = (self.specs[k].get("body") or []) if self.body_runs[k] <= MAX_BODY_RUNS else []
        try:
            for op in body:
                self.stats["body_ops"] += 1
                if op[0] == "raise":
                    # the timeout HAS fired: the property's "futures tied to it are completed on timeout" does not
                    # depend on how on_timeout() ends, so the futures pending now must be done once _on_timeout is over
                    pend_now = [not f.done() for f, _, _ in self.futs[k]]

                    def post_abort():
                        for i, (f, is_exc, exc) in enumerate(self.futs[k]):
                            if not f.done():
                                self.fail("RequestCache._on_timeout:future-left-pending-after-raise",
                                          f"on_timeout of request {k} raised; its managed future {i} was left pending "
                                          f"(its identifier is gone, so shutdown will not cancel it either)")
                            elif i < len(pend_now) and pend_now[i]:
                                ch = self.fut_char((f, is_exc, exc))
                                if ch != ("E" if is_exc else "R"):
                                    self.fail("RequestCache._on_timeout:future-wrong-value",
                                              f"managed future {i} of request {k} completed as {ch} on timeout")
                    self.lazy.append((t, "fa", f"aborted {self.idx[k]}", post_abort))
                    rk, exc_obj = raise_kind(op)
                    self.stats["on_timeout_raised:" + rk] = self.stats.get("on_timeout_raised:" + rk, 0) + 1
                    if tk is not None:
                        # a body leaving with CancelledError ends the Task cancelled (AsyncTask.Ev.bodyCancelled)
                        tk._c10_raised = "cancelled" if rk == "cancelled" else True
                    raise exc_obj
                self.do_op(op)
        finally:
            self.in_fire = None
        # futures still pending when on_timeout returns are the ones `_on_timeout` has to complete
        pend_before.extend(not f.done() for f, _, _ in self.futs[k])

        def post():
            for i, (f, is_exc, exc) in enumerate(self.futs[k]):
                if not f.done():
                    self.fail("RequestCache._on_timeout:future-left-pending",
                              f"managed future {i} of request {k} is still pending after its timeout was handled")
                elif i < len(pend_before) and pend_before[i]:
                    ch = self.fut_char((f, is_exc, exc))
                    if ch != ("E" if is_exc else "R"):
                        self.fail("RequestCache._on_timeout:future-wrong-value",
                                  f"managed future {i} of request {k} completed as {ch} on timeout")
        self.lazy.append((t, "fe", f"fired {self.idx[k]}", post))

    def construct(self, k: int):
        sp = self.specs[k]
        cls = classes()[CLS[sp["cls"]]]
        rcmod = __import__("ipv8.requestcache", fromlist=["x"])
        if sp["cls"] == 4:
            seq = list(sp["cands"])
            pos = [0]

            def fake_random():
                x = seq[min(pos[0], len(seq) - 1)] if not sp.get("cycle") else seq[pos[0] % len(seq)]
                pos[0] += 1
                return (x + 0.5) / 65536.0
            real = rcmod.random
            rcmod.random = fake_random
            try:
                o = cls(self.rc, PFX[sp["p"]])
            finally:
                rcmod.random = real
        else:
            o = cls(self.rc, PFX[sp["p"]], sp["n"])
        o._h, o._k, o._delay = self, k, sp["delay"]
        fl = []
        for kind in sp["futs"]:
            f = self.loop.create_future()
            kind = int(kind)
            exc = TimeoutMark() if kind == 1 else None
            if kind == 2:
                o.register_future(f)                      # default on_timeout value: None
            else:
                o.register_future(f, exc if kind == 1 else TIMEOUT_VALUE)
            fl.append((f, kind == 1, exc if kind == 1 else ("default" if kind == 2 else None)))
        self.objs[k] = o
        self.idx[k] = len(self.order)
        self.order.append(k)
        self.futs[k] = fl
        return o

    def planned_cands(self, sp) -> list[int]:
        seq = list(sp["cands"])
        if sp.get("cycle"):
            return [seq[i % len(seq)] for i in range(1000)]
        return seq

    def do_op(self, op):
        self.pre()
        kind = op[0]
        if any(not tk.done() for tk in self.sd_tasks):
            self.stats["op_while_shutdown_awaits"] = self.stats.get("op_while_shutdown_awaits", 0) + 1
        t = self.now()
        if kind == "seq":
            for sub in op[1]:
                self.do_op(sub)
            return
        if kind == "later":
            # not an event: schedule `op[3]` now, so that its timer handle enters the loop's heap after the handles
            # that already exist (e.g. the sleep timers of the caches added earlier in this instant)
            self.loop.call_at(self.t0 + op[1] / 1000.0, self.run_item, op[2], op[3])
            return
        if kind in ("mk", "mkadd"):
            k = op[1]
            sp = self.specs[k]
            if k in self.objs:
                if kind == "mkadd":
                    self.do_op(["add", k])
                return
            ks = "[" + ",".join("1" if int(x) == 1 else "0" for x in sp["futs"]) + "]"
            d = "-" if sp["delay"] is None else str(sp["delay"])
            if sp["cls"] == 4:
                line = f"mkr {sp['p']} [{','.join(str(enc(x)) for x in self.planned_cands(sp))}] {d} {sp['cls']} {ks}"
            else:
                line = f"mk {sp['p']} {enc(sp['n'])} {d} {sp['cls']} {ks}"
            try:
                o = self.construct(k)
                reply = f"mk {self.idx[k]} {enc(o.number)}"
                ident = (sp["p"], o.number)
                if ident in self.outstanding:
                    self.fail("NumberCache.__init__:duplicate-guard",
                              f"a cache for identity {ident} was constructed while request {self.outstanding[ident]} "
                              f"with the same identity is outstanding (RuntimeError expected)")
                self.universe = sorted(set(self.universe) | {ident})
            except RuntimeError:
                reply = "raised" if sp["cls"] == 4 else "inuse"
                self.stats["inuse"] += 1
            self.emit(line, reply)
            if kind == "mkadd" and k in self.objs:
                self.do_op(["add", k])
            return
        if kind == "add":
            k = op[1]
            if k not in self.objs:
                return
            if self.in_fire == k:
                self.stats["self_readd"] = self.stats.get("self_readd", 0) + 1
            o = self.objs[k]
            sp = self.specs[k]
            ident = (sp["p"], o.number)
            holder = self.outstanding.get(ident)
            held_before = [f.done() for f, _, _ in self.futs[holder]] if holder is not None else []
            try:
                r = self.rc.add(o)
            except AssertionError:
                self.emit(f"add {self.idx[k]}", "assert")
                return
            except RuntimeError:
                # a refused registration must leave nothing behind: an identifier stored by the failed add would
                # never time out and would hand a resolved request to a later response
                if ident not in self.outstanding and self.rc.get(PFX[sp["p"]], o.number) is o:
                    self.fail("RequestCache.add:failed-add-left-identifier",
                              f"add of request {k} raised RuntimeError at {t} ms but left identity {ident} in the table "
                              f"(no timeout task behind it)")
                if self.in_fire == k:
                    self.stats["self_readd:raised"] = self.stats.get("self_readd:raised", 0) + 1
                elif not (self.sd or self.sd_tm) and ident not in self.outstanding:
                    # free identity, not shut down, and not the cache whose own timeout task is still running: a
                    # request the cache refuses to track is never resolved (no claim, no timeout, futures never done)
                    self.fail("RequestCache.add:refused-free-identity",
                              f"add of request {k} under the free identity {ident} raised RuntimeError at {t} ms: the "
                              f"request is not tracked, it will neither be claimed nor time out")
                self.emit(f"add {self.idx[k]}", "raised")
                return
            if self.sd or self.sd_tm:
                if r is not None:
                    self.fail("RequestCache.add:after-shutdown", f"add of request {k} succeeded after shutdown")
                if any(not f.done() for f, _, _ in self.futs[k]):
                    self.fail("RequestCache.add:after-shutdown-futures",
                              f"add of request {k} after shutdown left a managed future pending")
                self.stats["late_add_shutdown"] += 1
                reply = "dropped-shutdown" if r is None else f"added {self.idx[k]}"
            elif ident in self.outstanding:
                if r is not None:
                    self.fail("RequestCache.add:duplicate-identity",
                              f"request {k} was registered under identity {ident} while request "
                              f"{self.outstanding[ident]} is outstanding under it")
                self.stats["dup"] += 1
                if holder == k:
                    self.stats["dup:same-object"] = self.stats.get("dup:same-object", 0) + 1
                # a refused add must not touch the request that IS outstanding under that identity: its tied futures
                # stay as they were (they belong to its timeout / its response)
                if holder is not None and [f.done() for f, _, _ in self.futs[holder]] != held_before:
                    self.fail("RequestCache.add:refused-add-resolved-outstanding-futures",
                              f"add of request {k} at {t} ms was refused as a duplicate of the outstanding request "
                              f"{holder}, yet a future tied to the outstanding request was resolved by that call")
                reply = "dup" if r is None else f"added {self.idx[k]}"
            else:
                reply = f"added {self.idx[k]}" if r is o else "dup"
                if r is not o:
                    self.fail("RequestCache.add:refused-free-identity",
                              f"add of request {k} under the free identity {ident} returned None at {t} ms although "
                              f"the cache is not shut down: the request is not tracked")
            if r is o and not (self.sd or self.sd_tm):
                self.outstanding[ident] = k
                self.deadline[k] = t + self.eff_delay(o)
                # C10 does not say what an inner passthrough exit does to an outer block: the code resets everything
                # (what `eff_delay` mirrors), a nesting-aware implementation would restore the outer override —
                # either deadline is accepted
                self.deadlines[k] = {self.deadline[k], t + self.eff_delay(o, nested=True)}
                if len(self.deadlines[k]) > 1:
                    self.stats["delay:nesting-ambiguous"] = self.stats.get("delay:nesting-ambiguous", 0) + 1
                tk_new = self.rc.get_task(o)
                if tk_new is not None:
                    tk_new._c10_delayed = self.deadline[k] != t
                base = round(o.timeout_delay * 1000)
                cls_ = ("no-passthrough" if self._cm_last is None else
                        "override-unfiltered" if self._cm_last[1] is None else
                        "filter-hit" if self.deadline[k] - t == self._cm_last[0] and
                        any(issubclass(type(o), classes()[CLS[f]]) for f in self._cm_last[1]) else "filter-miss")
                self.stats["delay:" + cls_] = self.stats.get("delay:" + cls_, 0) + 1
                if sp["delay"] is None:
                    self.stats["delay:class-default"] = self.stats.get("delay:class-default", 0) + 1
                if self.deadline[k] == t:
                    self.stats["delay:zero-override"] = self.stats.get("delay:zero-override", 0) + 1
                    if self.case.get("service"):
                        self.stats["service_loop:zero-delay-add"] = self.stats.get("service_loop:zero-delay-add", 0) + 1
                if self.in_fire == k:
                    self.stats["self_readd:added"] = self.stats.get("self_readd:added", 0) + 1
                elif self.in_fire is not None:
                    self.stats["add_inside_on_timeout"] = self.stats.get("add_inside_on_timeout", 0) + 1
                self.history.setdefault(k, []).append("added")
                self.stats["added"] += 1
            self.emit(f"add {self.idx[k]}", reply)
            return
        if kind in ("pop", "ret"):
            p, n = op[1], op[2]
            exp = self.outstanding.get((p, n))
            if exp is not None and self.rc.is_pending_task_active(self.objs[exp]):
                tk = self.rc.get_task(self.objs[exp])
                w = getattr(tk, "_fut_waiter", None)
                if w is not None and w.done():
                    self.stats["woken_cancel"] += 1
                if self.deadline.get(exp) == t:
                    self.stats["same_instant_pop"] += 1
            form = op[3] if len(op) > 3 else "str"
            self.stats["api:" + kind + ":" + form] = self.stats.get("api:" + kind + ":" + form, 0) + 1
            if exp is not None:
                self.observe_cancel(exp)
            def account(o):
                """bookkeeping + log line for the outcome of this claim attempt (o = the cache handed out, or None)"""
                if o is not None:
                    k = getattr(o, "_k", None)
                    reply = f"claimed {self.name_of(o)}"
                    if exp is None or self.objs.get(exp) is not o:
                        last = (self.history.get(k) or ["never registered"])[-1]
                        sub = {"timeout": "claimed-after-timeout", "claimed": "claimed-twice"}.get(last, "found-resolved")
                        self.fail(f"RequestCache.pop:{sub}",
                                  f"pop({PFX[p]!r}, {n}) at {t} ms returned request {k}, which was not outstanding "
                                  f"(last: {last})")
                    else:
                        del self.outstanding[(p, n)]
                    self.history.setdefault(k, []).append("claimed")
                    self.stats["claimed"] += 1
                else:
                    reply = "keyerror"
                    self.stats["keyerror"] += 1
                    if exp is not None:
                        self.fail("RequestCache.pop:outstanding-not-found",
                                  f"pop({PFX[p]!r}, {n}) at {t} ms raised KeyError although request {exp} is outstanding")
                        del self.outstanding[(p, n)]
                self.emit(f"pop {p} {enc(n)}", reply)

            if kind == "pop":
                try:
                    account(self.rc.pop(self.named(p) if form == "cls" else PFX[p], n))
                except KeyError:
                    account(None)
                return
            # retrieve_cache: the request is CLAIMED at the moment its handler receives it — whatever the handler then
            # does (look the identity up, register a follow-up under the same identity, raise) happens after the claim
            body = op[4] if len(op) > 4 else []
            entered = []

            def handler(o):
                entered.append(o)
                account(o)
                still = self.rc.get(PFX[p], n)
                if still is o:
                    self.fail("retrieve_cache:request-still-registered-in-handler",
                              f"the response handler for {(p, n)} received request {getattr(o, '_k', '?')} at {t} ms "
                              f"while it is still registered (it can be handed out again and can still time out)")
                self.in_handler += 1
                try:
                    for sub in body:
                        self.stats["handler_ops"] = self.stats.get("handler_ops", 0) + 1
                        if sub[0] == "raise":
                            rk, exc_obj = raise_kind(sub)
                            self.stats["handler_raised"] = self.stats.get("handler_raised", 0) + 1
                            self.stats["handler_raised:" + rk] = self.stats.get("handler_raised:" + rk, 0) + 1
                            raise exc_obj
                        self.do_op(sub)
                finally:
                    self.in_handler -= 1
            try:
                self.retrieve(p, n, handler, with_data=form in ("wd", "wd2"), decoy=form in ("2p", "wd2"))
            except (Boom, BoomBase, asyncio.CancelledError):
                pass
            if not entered:
                account(None)
            return
        if kind == "get":
            p, n = op[1], op[2]
            form = op[3] if len(op) > 3 else "str"
            self.stats["api:get:" + form] = self.stats.get("api:get:" + form, 0) + 1
            key = self.named(p) if form == "cls" else PFX[p]
            o = self.rc.get(key, n)
            h = self.rc.has(key, n)
            exp = self.outstanding.get((p, n))
            if (o is None) != (exp is None) or (o is not None and self.objs.get(exp) is not o) or h != (o is not None):
                self.fail("RequestCache.get:wrong-result",
                          f"get/has({PFX[p]!r}, {n}) at {t} ms gave {self.name_of(o) if o is not None else None}/{h}, "
                          f"outstanding request there: {exp}")
            self.emit(f"get {p} {enc(n)}", "got none" if o is None else f"got {self.name_of(o)}")
            return
        if kind == "enter":
            if self.cms:
                # what an inner exit does to an outer block is not specified by C10 (the code resets everything, a
                # nesting-aware context manager would restore): nested blocks are not generated, so neither the oracle
                # nor the model pins that choice
                self.stats["nested_enter_skipped"] = self.stats.get("nested_enter_skipped", 0) + 1
                return
            tm, fs = op[1], op[2]
            if fs is None:
                cm = self.rc.passthrough(timeout=tm / 1000.0)
            else:
                cm = self.rc.passthrough(*[classes()[CLS[f]] for f in fs], timeout=tm / 1000.0)
            cm.__enter__()
            self.cms.append(cm)
            self._cm_last = (tm, fs)
            self._cm_stack.append((tm, fs))
            self.emit(f"enter {tm} " + ("-" if fs is None else "[" + ",".join(map(str, fs)) + "]"), "done")
            return
        if kind == "exit":
            if not self.cms:
                return
            cm = self.cms.pop()
            if len(op) > 1 and op[1] == "exc":
                # the `with` block is left by an exception: the override must be reset all the same
                e = Boom()
                try:
                    cm.__exit__(Boom, e, None)
                except Boom:
                    pass
                self.stats["passthrough_exit_by_exception"] = self.stats.get("passthrough_exit_by_exception", 0) + 1
            else:
                cm.__exit__(None, None, None)
            self._cm_last = None
            self._cm_stack.pop()
            self.emit("exit", "done")
            return
        if kind == "clear":
            for kk in list(self.outstanding.values()) + ([self.in_fire] if self.in_fire is not None else []):
                self.observe_cancel(kk)
            self.rc.clear()
            for ident, k in self.outstanding.items():
                self.history.setdefault(k, []).append("dropped")
                self.stats["dropped"] += 1
            self.outstanding.clear()
            self.emit("clear", "done")
            return
        if kind in ("shutdown", "tmshutdown"):
            if self.in_fire is not None or self.in_handler:
                self.stats["shutdown_scheduled_from_sync_code"] = self.stats.get("shutdown_scheduled_from_sync_code", 0) + 1
            if kind == "tmshutdown":
                self.sd_tasks.append(self.loop.create_task(self._tm_sd()))
                return
            self.sd_tasks.append(self.loop.create_task(self._sd()))
            return
        if kind in ("fset", "fcancel"):
            k, i = op[1], op[2]
            if k not in self.objs or i >= len(self.futs[k]):
                return
            f = self.futs[k][i][0]
            if not f.done():
                if kind == "fset":
                    f.set_result(EXT_VALUE)
                else:
                    f.cancel()
            self.emit(f"{kind} {self.idx[k]} {i}", "done")
            return
        if kind == "wait":
            # wait_for is outside C10 and outside the model (`resolveWaiter` is a no-op there): it is exercised so that
            # waiters registered as anonymous tasks are present while everything else is compared; only counted
            p, n, tmo = op[1], op[2], op[3]
            try:
                w = self.rc.wait_for(PFX[p], n, None if tmo is None else tmo / 1000.0)
                self.waiters.append(w)
                self.stats["wait_for"] = self.stats.get("wait_for", 0) + 1
            except Exception as e:
                self.loop_errors.append(f"wait_for raised {type(e).__name__}: {e}")
            return
        if kind == "regfut":
            k, is_exc = op[1], op[2]
            if k not in self.objs:
                return
            f = self.loop.create_future()
            exc = TimeoutMark() if is_exc else None
            self.objs[k].register_future(f, exc if is_exc else TIMEOUT_VALUE)
            self.futs[k].append((f, bool(is_exc), exc))
            self.emit(f"regfut {self.idx[k]} {1 if is_exc else 0}", "done")
            return
        raise ValueError(f"unknown op {op}")

    def eff_delay(self, o, nested=False) -> int:
        """the oracle's own reading of the passthrough rule; nested=False: as the code does it (leaving ANY block
        resets the override), nested=True: as a nesting-aware context manager would (innermost open block wins)"""
        base = round(o.timeout_delay * 1000)
        cur = (self._cm_stack[-1] if self._cm_stack else None) if nested else self._cm_last
        if cur is None:
            return base
        tm, fs = cur
        if fs is None or any(issubclass(type(o), classes()[CLS[f]]) for f in fs):
            return tm
        return base

    @staticmethod
    def named(p):
        """a cache class with a `name` attribute: the class form of has/get/pop and of retrieve_cache"""
        return type("Named", (), {"name": PFX[p]})

    def retrieve(self, p, n, on_cache, with_data=False, decoy=False):
        from ipv8.lazy_community import retrieve_cache
        marker = self.named(p)

        class Got:
            @staticmethod
            def append(cache):
                on_cache(cache)
        got = Got

        class Overlay:
            request_cache = self.rc
            logger = logging.getLogger("c10-overlay")

            @retrieve_cache(marker)
            def on_message(self_inner, peer, payload, cache):  # noqa: N805
                got.append(cache)

            @retrieve_cache(marker)
            def on_message_wd(self_inner, peer, payload, data, cache):  # noqa: N805
                got.append(cache)

            @retrieve_cache(marker)
            def on_message2(self_inner, peer, auth, payload, cache):  # noqa: N805
                got.append(cache)

            @retrieve_cache(marker)
            def on_message2_wd(self_inner, peer, auth, payload, data, cache):  # noqa: N805
                got.append(cache)
        payload = type("Payload", (), {"identifier": n})()
        # lazy_wrapper(P1, P2): the identifier is the LAST payload's; the first one carries another request's number
        other = next((m for (q, m) in self.universe if q == p and m != n), n + 1)
        first = type("Auth", (), {"identifier": other})()
        if with_data and decoy:   # the `_wd` wrappers pass the raw data last: the identifier comes from payloads[-2]
            Overlay().on_message2_wd(None, first, payload, b"raw-data")
        elif with_data:
            Overlay().on_message_wd(None, payload, b"raw-data")
        elif decoy:
            Overlay().on_message2(None, first, payload)
        else:
            Overlay().on_message(None, payload)

    async def _tm_sd(self):
        """the inherited TaskManager.shutdown_task_manager() on the request cache object (generic teardown glue).  It
        raises the SAME `_shutdown` flag (`add` answers "Dropping … due to shutdown!"), so for C10 it is a shutdown:
        afterwards no timeout fires, nothing is added, tied futures are cancelled and the requests are gone."""
        self.pre()
        t = self.now()
        before = dict(self.outstanding)

        def post():
            for ident, k in before.items():
                if any(not f.done() for f, _, _ in self.futs[k]):
                    self.fail("RequestCache.shutdown_task_manager:futures-not-cancelled",
                              f"shutdown_task_manager() shut the request cache down (flag raised, timers cancelled) but "
                              f"left a managed future of the outstanding request {k} pending: nothing will ever "
                              f"resolve it")
        for kk in before.values():
            self.observe_cancel(kk)
        for ident, k in self.outstanding.items():
            self.history.setdefault(k, []).append("dropped")
            self.stats["dropped"] += 1
        self.outstanding.clear()
        self.sd = True
        self.stats["tm_shutdown"] = self.stats.get("tm_shutdown", 0) + 1
        self.lazy.append((t, "tmshutdown", "done", post))
        try:
            await self.rc.shutdown_task_manager()
        except Exception as e:
            self.loop_errors.append(f"shutdown_task_manager() raised {type(e).__name__}: {e}")

    async def _sd(self, epilogue=False):
        self.pre()
        t = self.now()
        before = dict(self.outstanding)
        if any(not tk.done() for tk in self.sd_tasks):
            self.stats["shutdown_while_shutdown_awaits"] = self.stats.get("shutdown_while_shutdown_awaits", 0) + 1

        def post():
            for ident, k in before.items():
                if any(not f.done() for f, _, _ in self.futs[k]):
                    self.fail("RequestCache.shutdown:futures-not-cancelled",
                              f"a managed future of the outstanding request {k} is still pending after shutdown")
        for ident, k in self.outstanding.items():
            self.history.setdefault(k, []).append("dropped")
            self.stats["dropped_by_epilogue" if epilogue else "dropped"] = \
                self.stats.get("dropped_by_epilogue" if epilogue else "dropped", 0) + 1
        self.outstanding.clear()
        self.sd = True
        self.lazy.append((t, "shutdown", "done", post))
        for kk in before.values():
            self.observe_cancel(kk)
        try:
            await self.rc.shutdown()
        except Boom:
            pass                                   # (older trees re-raised a failed on_timeout out of gather())
        except Exception as e:  # e.g. a timeout task that should have been cancelled finished with an exception
            self.loop_errors.append(f"shutdown() raised {type(e).__name__}: {e}")

    def run_item(self, hops, op):
        if hops > 0:
            self.loop.call_soon(self.run_item, hops - 1, op)
        else:
            try:
                self.do_op(op)
            except Boom:
                raise
            except Exception as e:  # an op raised something the harness does not map: record, keep going
                self.loop_errors.append(f"{op}: {type(e).__name__}: {e}")

    def execute(self):
        import vclock
        from ipv8.requestcache import RequestCache
        classes()
        loop = vclock.VLoop()
        self.loop = loop
        asyncio.set_event_loop(loop)
        vclock.install(loop)

        def handler(_loop, context):
            e = context.get("exception")
            if isinstance(e, (Boom, BoomBase, TimeoutMark, asyncio.CancelledError)):
                return
            self.loop_errors.append(f"{context.get('message')}: {type(e).__name__ if e else ''} {e}")
        loop.set_exception_handler(handler)
        import signal

        def on_alarm(_sig, _frm):
            raise CaseHang
        old_handler = signal.signal(signal.SIGALRM, on_alarm)
        signal.setitimer(signal.ITIMER_REAL, CASE_WATCHDOG_S, CASE_WATCHDOG_S)
        try:
            loop.run_until_complete(self._main(RequestCache))
        except CaseHang:
            BLOCKED[0] = True
            self.fail("RequestCache:history-blocks",
                      f"the history made no progress for {CASE_WATCHDOG_S} s of wall clock at virtual {self.now()} ms (a "
                      f"synchronous call blocked, e.g. re-entering the cache's non-reentrant lock): the requests of "
                      f"this history are never resolved")
        except Exception as e:  # the history could not be completed on this implementation
            self.loop_errors.append(f"history aborted: {type(e).__name__}: {e}")
        finally:
            signal.setitimer(signal.ITIMER_REAL, 0)
            signal.signal(signal.SIGALRM, old_handler)
            for fl in self.futs.values():
                for f, _, _ in fl:
                    if f.done() and not f.cancelled():
                        f.exception()
            vclock.uninstall()
            asyncio.set_event_loop(None)
            loop.close()
        return self

    async def _start_service(self):
        """prepare the running loop the way the production service does: a real ipv8_service.IPv8 instance (no keys, no
        overlays, in-memory endpoint) is started on it, so whatever IPv8.start() configures on the loop (task factory,
        periodic tasks, …) is in effect while the history runs"""
        from ipv8.configuration import ConfigBuilder
        from ipv8.test.mocking.endpoint import AutoMockEndpoint
        from ipv8_service import IPv8

        class ServiceEndpoint(AutoMockEndpoint):
            async def open(self):
                self._open = True
                return True
        config = ConfigBuilder().clear_keys().clear_overlays().finalize()
        config["logger"] = {"level": "CRITICAL"}
        self.service = IPv8(config, endpoint_override=ServiceEndpoint())
        await self.service.start()
        logging.disable(logging.CRITICAL)      # the service configures logging: keep the run quiet

    async def _main(self, RequestCache):  # noqa: N803
        self.service = None
        if self.case.get("service"):
            await self._start_service()
        self.rc = RequestCache()
        self.t0 = self.loop.time()
        end = self.case["end"]
        for t, hops, op in self.case["script"]:
            self.loop.call_at(self.t0 + t / 1000.0, self.run_item, hops, op)
        await asyncio.sleep(end / 1000.0)
        for _ in range(4):
            await asyncio.sleep(0)
        self.pre()
        if not self.sd:
            await self._sd(epilogue=True)
        await asyncio.sleep(self.case.get("tail", 12000) / 1000.0)
        self.pre()
        for tk in self.sd_tasks:
            await tk
        if self.service is not None:
            await self.service.stop()
        for tk, delayed, phase in self.atask_obs:
            end = "cancelled" if tk.cancelled() else ("finished" if tk.done() else "pending")
            self.log.append((self.now(), f"atask {1 if delayed else 0} {phase}"
                             + ((" raisec" if getattr(tk, "_c10_raised", False) == "cancelled" else " raise")
                                if phase == "running" and getattr(tk, "_c10_raised", False) else ""),
                             f"body={getattr(tk, '_c10_body', 0)} end={end}"))
        for w in self.waiters:
            key = "waiter:" + ("cancelled" if w.cancelled() else "resolved" if w.done() else "pending")
            self.stats[key] = self.stats.get(key, 0) + 1


# ---------------------------------------------------------------------------------------------------------
# generators
# ---------------------------------------------------------------------------------------------------------
def generate(ctx: Ctx):
    src, _ = gen_rc.translate()
    return [("Ipv8/C10/GenRC.lean", src)]


def spec(p, n, delay, cls=0, futs=(), body=(), cands=None, cycle=False):
    d = {"p": p, "n": n, "delay": delay, "cls": cls, "futs": list(futs), "body": [list(b) for b in body]}
    if cands is not None:
        d["cands"] = list(cands)
        d["cycle"] = cycle
    return d


def gen_random(rng, size: int) -> dict:
    nspecs = size + rng.randrange(0, 3)
    n_idents = rng.choice([1, 1, 2, 2, 3])
    idents = [(rng.randrange(len(PFX)), rng.randrange(3)) for _ in range(n_idents)]
    if n_idents > 1 and rng.random() < 0.5:      # same number under two prefixes
        idents[1] = ((idents[0][0] + 1) % len(PFX), idents[0][1])
    delays = [125, 250, 250, 500, 500, 1000, 1000, 2000, 100, 50, 333]     # the last three are not binary fractions
    specs = {}

    def new_spec(k, depth):
        p, n = rng.choice(idents)
        d = rng.choice(delays)
        r = rng.random()
        if r < 0.03:
            d = None
        elif r < 0.06:
            d = 0
        cls = rng.choice([0, 0, 1, 2, 3])
        futs = [rng.choice([0, 0, 1, 1, 2]) for _ in range(rng.choice([0, 1, 1, 2]))]
        body = []
        if depth < 2 and rng.random() < 0.45:
            for _ in range(rng.choice([1, 1, 2, 3])):
                body.append(body_op(k, depth))
            if rng.random() < 0.14:
                body.append(rng.choice([["raise"], ["raise"], ["raise", "cancelled"], ["raise", "base"]]))
        if rng.random() < 0.12:
            used = [x[1] for x in idents if x[0] == p] or [n]
            cands = [rng.choice(used) for _ in range(rng.randrange(0, 4))] + [rng.choice(used + [7, 9])]
            cyc = rng.random() < 0.15
            specs[k] = spec(p, None, d, 4, futs, body, cands=cands, cycle=cyc)
        else:
            specs[k] = spec(p, n, d, cls, futs, body)

    def body_op(owner, depth):
        r = rng.random()
        p, n = rng.choice(idents)
        if r < 0.35:
            return ["pop", p, n, rng.choice(["str", "str", "cls"])]
        if r < 0.45:
            return ["ret", p, n, rng.choice(["str", "wd", "2p", "wd2"])]
        if r < 0.65:
            k2 = len(specs) + 1000 + rng.randrange(10 ** 6)
            while k2 in specs:
                k2 += 1
            specs[k2] = None
            new_spec(k2, depth + 1)
            return ["mkadd", k2]
        if r < 0.75:
            ks = [k for k in specs if specs[k] is not None and k != owner]
            if rng.random() < 0.3 or not ks:
                return ["add", owner]          # re-register the request whose on_timeout is running
            return ["add", rng.choice(ks)]
        if r < 0.80:
            return ["clear"]
        if r < 0.86:
            return ["get", p, n]
        if r < 0.89:
            return ["regfut", owner, rng.random() < 0.5]        # a future registered while the timeout is delivered
        if r < 0.92:
            return rng.choice([["enter", rng.choice([0, 250]), None], ["exit", "normal"]])
        if r < 0.94:
            return ["wait", p, n, rng.choice([None, 250])]
        if r < 0.96:
            return [rng.choice(["shutdown", "tmshutdown"])]
        return [rng.choice(["fset", "fcancel"]), owner, rng.randrange(2)]

    def handler_body(p, n):
        """what a response handler wrapped by retrieve_cache does with the request it was handed"""
        ops = []
        r = rng.random()
        if r < 0.5:
            ops.append(["get", p, n, "str"])                    # must find nothing: the request is claimed
        if rng.random() < 0.45:                                 # follow-up request under the same identity
            k2 = 2000 + rng.randrange(10 ** 6)
            while k2 in specs:
                k2 += 1
            specs[k2] = spec(p, n, rng.choice([125, 250, 500]), rng.choice([0, 1]), [rng.choice([0, 1, 2])], [])
            ops.append(["mkadd", k2])
        if rng.random() < 0.2:
            q, m = rng.choice(idents)
            ops.append(["pop", q, m, "str"])
        if rng.random() < 0.08:
            ops.append(rng.choice([["clear"], ["shutdown"], ["tmshutdown"]]))
        if rng.random() < 0.3:
            ops.append(rng.choice([["raise"], ["raise"], ["raise", "cancelled"], ["raise", "base"]]))   # handler fault
        return ops

    for k in range(nspecs):
        specs[k] = None
        new_spec(k, 0)
    top = list(range(nspecs))
    script = []
    tmax = rng.choice([500, 1000, 2000, 3000])
    nops = rng.randrange(3, 6 + 3 * size)
    for _ in range(nops):
        t = rng.randrange(0, tmax // GRID + 1) * GRID
        hops = rng.choice([0, 0, 0, 1, 1, 2, 3])
        r = rng.random()
        p, n = rng.choice(idents)
        k = rng.choice(top)
        if r < 0.3:
            op = ["mkadd", k]
        elif r < 0.38:
            op = ["add", k]
        elif r < 0.42:
            op = ["mk", k]
        elif r < 0.62:
            op = ["pop", p, n, rng.choice(["str", "str", "cls"])]
        elif r < 0.67:
            op = ["ret", p, n, rng.choice(["str", "wd", "2p", "wd2"])]
            if rng.random() < 0.5:
                op.append(handler_body(p, n))
        elif r < 0.70:
            op = ["get", p, n, rng.choice(["str", "cls"])]
        elif r < 0.73:
            op = ["wait", p, n, rng.choice([None, 125, 500, 2000])]
        elif r < 0.79:
            fs = rng.choice([None, None, [0], [1], [3], [1, 3], [5], [2]])
            op = ["enter", rng.choice([0, 0, 125, 250, 1000]), fs]
        elif r < 0.84:
            op = ["exit", rng.choice(["normal", "normal", "exc"])]
        elif r < 0.88:
            op = ["clear"]
        elif r < 0.90:
            op = ["shutdown"]
        elif r < 0.91:
            op = ["tmshutdown"]
        elif r < 0.96:
            op = [rng.choice(["fset", "fcancel"]), k, rng.randrange(2)]
        else:
            op = ["regfut", k, rng.random() < 0.5]
        script.append([t, hops, op])
    # a few compound callbacks: pop immediately followed by re-registration of the same object, etc.
    if rng.random() < 0.35:
        k = rng.choice(top)
        sp = specs[k]
        if sp["n"] is not None:
            t = rng.randrange(0, tmax // GRID + 1) * GRID
            seq = [["pop", sp["p"], sp["n"]], ["add", k]]
            if rng.random() < 0.5:
                seq.append(["pop", sp["p"], sp["n"]])
            script.append([t, rng.choice([0, 1]), ["seq", seq]])
    if rng.random() < 0.08:
        t = rng.randrange(0, tmax // GRID + 1) * GRID
        script.append([t, 0, ["tmshutdown"]])
        script.append([t + rng.choice([0, GRID, 4 * GRID]), rng.choice([0, 2]), ["shutdown"]])
    script.sort(key=lambda e: e[0])
    end = rng.choice([tmax // 2, tmax, tmax + 2500, tmax + 2500])
    return {"family": "random", "specs": {str(k): v for k, v in specs.items()}, "script": script, "end": end,
            "tail": 12000}



NUMS_WIDE = [0, 1, 2, 3, 5, 8, 13, 255, 256, 65535, 65536, 65537, 2 ** 31, 2 ** 40 + 7, -1, -2, -65536]


def gen_population(rng) -> dict:
    """many objects, many identities (incl. negative and > 16 bit numbers), a longer history"""
    nobj = rng.randrange(10, 41)
    nid = rng.randrange(4, 13)
    idents = [(rng.randrange(len(PFX)), rng.choice(NUMS_WIDE)) for _ in range(nid)]
    specs = {}
    for k in range(nobj):
        p, n = rng.choice(idents)
        body = []
        if rng.random() < 0.3:
            q, m = rng.choice(idents)
            body = [rng.choice([["pop", q, m, "str"], ["ret", q, m, "2p"], ["get", q, m, "cls"], ["add", rng.randrange(nobj)]])]
        specs[k] = spec(p, n, rng.choice([125, 250, 500, 1000, 1500, 2000, 3000]), rng.choice([0, 1, 2, 3]),
                        [rng.choice([0, 1, 2]) for _ in range(rng.choice([0, 1, 2]))], body)
    script = []
    tmax = 4000
    for _ in range(rng.randrange(nobj, 3 * nobj)):
        t = rng.randrange(0, tmax // GRID + 1) * GRID
        r = rng.random()
        p, n = rng.choice(idents)
        if r < 0.45:
            op = ["mkadd", rng.randrange(nobj)]
        elif r < 0.8:
            op = [rng.choice(["pop", "pop", "ret"]), p, n, "str"]
            if op[0] == "ret":
                op[3] = rng.choice(["str", "2p", "wd2"])
                if rng.random() < 0.4:
                    k2 = 5000 + len(specs)
                    specs[k2] = spec(p, n, 500, 0, [], [])
                    op.append([["get", p, n, "str"], ["mkadd", k2]] + ([["raise"]] if rng.random() < 0.3 else []))
        elif r < 0.9:
            op = ["get", p, n, rng.choice(["str", "cls"])]
        elif r < 0.95:
            op = ["add", rng.randrange(nobj)]
        elif r < 0.98:
            op = ["clear"]
        else:
            op = ["enter", rng.choice([0, 250]), rng.choice([None, [1], [3]])]
        script.append([t, rng.choice([0, 0, 1, 2]), op])
    script.sort(key=lambda e: e[0])
    return {"family": "population", "specs": {str(k): v for k, v in specs.items()}, "script": script,
            "end": tmax + 3500, "tail": 4000}


def gen_long(rng) -> dict:
    """long-lived requests: the class default (10 s) and delays beyond TaskManager's MAX_TASK_AGE (600 s), with the
    history running past the first `_check_tasks` round (900 s) and past every deadline"""
    idents = [(rng.randrange(len(PFX)), rng.randrange(3)) for _ in range(rng.choice([1, 2, 3]))]
    delays = [None, None, 10000, 20000, 700_000, 1_000_000, 1_300_000]
    specs = {}
    n = rng.randrange(1, 5)
    for k in range(n):
        p, m = rng.choice(idents)
        specs[k] = spec(p, m, rng.choice(delays), rng.choice([0, 1, 3]), [rng.choice([0, 1, 2])], [])
    script = []
    for _ in range(rng.randrange(2, 8)):
        t = rng.choice([0, 1000, 5000, 9000, 10000, 11000, 100_000, 650_000, 899_000, 901_000, 1_000_000, 1_250_000])
        r = rng.random()
        p, m = rng.choice(idents)
        op = ["mkadd", rng.randrange(n)] if r < 0.5 else ["pop", p, m, "str"] if r < 0.8 else ["get", p, m, "str"]
        script.append([t, 0, op])
    script.sort(key=lambda e: e[0])
    return {"family": "long", "specs": {str(k): v for k, v in specs.items()}, "script": script,
            "end": rng.choice([15_000, 950_000, 2_400_000, 2_400_000]), "tail": 20_000}


LANES = ["pre", "at0", "at1", "hop1", "hop2", "post"]


def lane_item(lane, op, deadline):
    t, hops = {"pre": (deadline - GRID, 0), "at0": (deadline, 0), "at1": (deadline, 0), "hop1": (deadline, 1),
               "hop2": (deadline, 2), "post": (deadline + GRID, 0)}[lane]
    if lane == "at1":
        # scheduled from a callback at t=0 that runs after the adds: its handle is pushed after the sleep timers
        return [0, 1, ["later", t, hops, op]]
    return [t, hops, op]


def lanes_case(n, same_ident, pops, glob, bodies, stagger=False, order=None) -> dict:
    """n caches added at t=0 with delay 1000; pops[i] = lane or None; glob = (kind, lane) or None; bodies[i] in
    {None,'next','self','fresh'}"""
    d = 1000
    specs, script_pre, script_post = {}, [], []
    for i in range(n):
        ident = (0, 1) if same_ident else (0, i)
        body = []
        b = bodies[i]
        nxt = (0, 1) if same_ident else (0, (i + 1) % n)
        if b == "next":
            body = [["pop", nxt[0], nxt[1]]]
        elif b == "self":
            body = [["pop", ident[0], ident[1]]]
        elif b == "fresh":
            specs[100 + i] = spec(ident[0], ident[1], 500, 0, [2], [])
            body = [["mkadd", 100 + i], ["get", ident[0], ident[1]]]
        elif b == "readd":
            body = [["add", i], ["get", ident[0], ident[1]]]
        elif b == "clear_readd":
            body = [["clear"], ["add", i], ["get", ident[0], ident[1]]]
        elif b == "clear_raise":        # cancels its own running timeout task, then leaves with an Exception
            body = [["clear"], ["raise"]]
        elif b == "clear_raisec":       # … or with CancelledError
            body = [["clear"], ["raise", "cancelled"]]
        # stagger: cache i expires 125 ms after cache i-1, so the lanes race the FIRST expiry while later ones are
        # still asleep (different timeout values)
        specs[i] = spec(ident[0], ident[1], d + (GRID * i if stagger else 0), 0, [i % 3], body)
    for i in range(n):
        ident = (0, 1) if same_ident else (0, i)
        if pops[i] is not None:
            (script_pre if pops[i] == "at0" else script_post).append(lane_item(pops[i], ["pop", ident[0], ident[1]], d))
    if glob is not None:
        (script_pre if glob[1] == "at0" else script_post).append(lane_item(glob[1], [glob[0]], d))
    # heap insertion order at the deadline: "at0" handles are pushed before the caches' sleep timers exist, "at1"
    # handles after them (via "later"); heapq is not FIFO among equal deadlines, both orders are simply observed
    # `order`: the order in which the caches are added at t=0 = the order in which their sleep timers enter the heap
    adds = [[0, 0, ["mkadd", i]] for i in (order if order is not None else range(n))]
    items = script_pre + adds + script_post
    meta = ["lanes:n=%d" % n, "lanes:identity=" + ("shared" if same_ident else "distinct")]
    meta += ["lanes:pop@" + str(x) for x in pops] + ["lanes:body=" + str(b) for b in bodies]
    meta.append("lanes:global=" + ("none" if glob is None else f"{glob[0]}@{glob[1]}"))
    if stagger:
        meta.append("lanes:staggered")
    if order is not None and list(order) != sorted(order):
        meta.append("lanes:add-order-permuted")
    return {"family": "lanes", "specs": {str(k): v for k, v in specs.items()}, "script": items, "end": 2500,
            "tail": 3000, "meta": meta}


def lanes_space(n, full, stagger=False):
    lanes = LANES if full else ["at1", "hop1", "hop2"]
    pop_opts = [None] + lanes
    glob_opts = [None] + [(g, ln) for g in ("clear", "shutdown") for ln in lanes]
    body_opts = ([None, "next", "self", "fresh", "readd", "clear_readd", "clear_raise", "clear_raisec"] if n == 1 else
                 [None, "next", "self", "fresh", "readd", "clear_readd"] if n == 2 else
                 [None, "next", "readd"] if n == 3 else [None, "next"])
    for same in ([False, True] if n > 1 else [False]):
        for pops in itertools.product(pop_opts, repeat=n):
            for glob in glob_opts:
                for bodies in itertools.product(body_opts, repeat=n):
                    yield (n, same, pops, glob, bodies, stagger)


SEQ_ALPHABET = [["add", 0], ["add", 1], ["pop", 0, 1], ["clear"], ["mkadd", "fresh"], ["get", 0, 1]]


def seq_case(seq, at_deadline: bool, delays=(1000, 1000)) -> dict:
    specs = {0: spec(0, 1, delays[0], 0, [0], []), 1: spec(0, 1, delays[1], 1, [1, 2], [])}
    ops = []
    fresh = 10
    for op in seq:
        if op[0] == "mkadd":
            specs[fresh] = spec(0, 1, 250, 0, [], [])
            ops.append(["mkadd", fresh])
            fresh += 1
        else:
            ops.append(list(op))
    script = [[0, 0, ["mk", 0]], [0, 0, ["mk", 1]]]
    if at_deadline:
        script += [[0, 0, ["add", 0]], [delays[0], 1, ["seq", ops]]]
    else:
        script += [[0, 0, ["seq", ops]]]
    meta = ["seq:len=%d" % len(seq), "seq:at=" + ("deadline" if at_deadline else "t0"),
            "seq:delays=" + ("equal" if delays[0] == delays[1] else "unequal")]
    return {"family": "sequences", "specs": {str(k): v for k, v in specs.items()}, "script": script, "end": 3000,
            "tail": 3000, "meta": meta}


def seq_space(maxlen):
    for ln in range(1, maxlen + 1):
        for seq in itertools.product(range(len(SEQ_ALPHABET)), repeat=ln):
            for at_deadline in (False, True):
                yield (seq, at_deadline)


# ---------------------------------------------------------------------------------------------------------
def run_case(ctx: Ctx, case: dict, lines_out: list | None):
    r = Run(case, ctx).execute()
    st = r.stats
    # RULE: a request was registered and resolved by the scripted history itself (claim, timeout, scripted
    # clear/shutdown) — the harness's own epilogue shutdown does not count
    nontrivial = st["added"] > 0 and (st["claimed"] + st["timeout"] + st["dropped"]) > 0
    key = repr((case["specs"], case["script"], case["end"], case.get("service", False)))
    ctx.case(key, nontrivial)
    ctx.count("family:" + case["family"])
    for m in case.get("meta", []):
        ctx.count(m)
    ctx.count("identities:%d" % len({(sp.get("p"), sp.get("n")) for sp in r.specs.values()}))
    no = len(r.order)
    ctx.count("objects:" + (str(no) if no < 8 else "8-15" if no < 16 else "16-31" if no < 32 else ">=32"))
    ctx.count("events:%s" % ("<10" if len(r.log) < 10 else "<25" if len(r.log) < 25 else "<60" if len(r.log) < 60 else ">=60"))
    for k, v in st.items():
        if v:
            ctx.count("obs:" + k, v)
    for _, line, reply in r.log:
        ctx.count("ev:" + line.replace("~ ", "").split(" ")[0])
        rep = reply.split(" | ")[0].split(" ")[0]
        if not rep.startswith("overdue"):
            ctx.count("reply:" + rep)
            evk = line.replace("~ ", "").split(" ")[0]
            sub = rep
            if evk == "get":
                sub = "none" if reply.split(" | ")[0] == "got none" else "some"
            elif evk == "atask":
                sub = line.split(" ", 2)[2].replace(" ", "-") + ":" + reply.replace(" ", ",")
            ctx.count(f"branch:{evk}:{sub}")
    for sig, what in r.failures:
        ctx.oracle_fail(sig, what, {"case": case})
    if r.loop_errors:
        ctx.count("loop_errors", len(r.loop_errors))
        if not r.failures:
            ctx.oracle_fail("RequestCache:unexpected-exception",
                            "the event loop reported an exception during the history: " + r.loop_errors[0][:300],
                            {"case": case})
    if lines_out is not None:
        lines_out.append((case, r.log))
    return r


def compare_with_model(ctx: Ctx, batch):
    """feed the observed logs to the Lean model; every line must be accepted with identical reply and digest"""
    lines, owners = [], []
    for ci, (case, log) in enumerate(batch):
        lines.append("reset")
        owners.append((ci, None))
        for ei, (_, line, _) in enumerate(log):
            lines.append(line)
            owners.append((ci, ei))
    if not lines:
        return
    replies = ctx.driver().batch(lines)
    bad_cases = set()
    for (ci, ei), rep in zip(owners, replies):
        if ei is None or ci in bad_cases:
            continue
        case, log = batch[ci]
        t, line, impl = log[ei]
        if rep != impl:
            bad_cases.add(ci)
            ctx.disagree(f"at {t} ms, event #{ei} `{line[:80]}`: model `{rep[:160]}` != implementation `{impl[:160]}`",
                         {"case": case, "event_index": ei, "line": line, "model": rep, "impl": impl,
                          "log": [f"{a} {b} -> {c}" for a, b, c in log[:ei + 1]][-30:]})


def family_cases(ctx: Ctx):
    rng = ctx.rng
    # random histories
    n_random = ctx.scale(3500, 20000)
    for i in range(n_random):
        yield gen_random(rng, rng.choice([1, 2, 2, 3, 4, 4, 5, 6]))
    # the same generators under the event loop as the production service prepares it (ipv8_service.IPv8.start())
    for i in range(ctx.scale(400, 3000)):
        case = gen_random(rng, rng.choice([1, 2, 3, 4]))
        case["service"] = True
        case["family"] = "random+service-loop"
        yield case
    for a in lanes_space(1, True):
        case = lanes_case(*a)
        case["service"] = True
        case["family"] = "lanes+service-loop"
        yield case
    for seq, atd in seq_space(2):
        case = seq_case([SEQ_ALPHABET[i] for i in seq], atd)
        case["service"] = True
        case["family"] = "sequences+service-loop"
        yield case
    for i in range(ctx.scale(150, 1000)):
        yield gen_population(rng)
    for i in range(ctx.scale(150, 1000)):
        yield gen_long(rng)
    # exhaustive small scopes (thorough) / seeded samples of them (quick)
    if ctx.thorough():
        # n = 3 beyond the racing lanes: every add order, all 6 lanes and all 6 bodies, sampled
        lanes6 = [None] + LANES
        bodies6 = [None, "next", "self", "fresh", "readd", "clear_readd"]
        for _ in range(10000):
            yield lanes_case(3, rng.random() < 0.5, tuple(rng.choice(lanes6) for _ in range(3)),
                             rng.choice([None] + [(g, ln) for g in ("clear", "shutdown", "tmshutdown") for ln in LANES]),
                             tuple(rng.choice(bodies6) for _ in range(3)), rng.random() < 0.3,
                             rng.choice(list(itertools.permutations(range(3)))))
        for order in itertools.permutations(range(3)):
            if list(order) != [0, 1, 2]:
                for a in lanes_space(3, False):
                    if a[1] and a[3] is None:           # shared identity is order-insensitive apart from the winner
                        continue
                    yield lanes_case(*a, order=order)
        for n in (1, 2):
            for a in lanes_space(n, True):
                yield lanes_case(*a)
        for a in lanes_space(2, True, stagger=True):
            if not a[1]:             # staggered + same identity: the second add is a duplicate, nothing new
                yield lanes_case(*a)
        for n in (3, 4):
            for a in lanes_space(n, False):
                yield lanes_case(*a)
        for seq, atd in seq_space(5):
            yield seq_case([SEQ_ALPHABET[i] for i in seq], atd)
        for seq, atd in seq_space(4):
            yield seq_case([SEQ_ALPHABET[i] for i in seq], atd, delays=(1000, 500))
    else:
        for a in lanes_space(1, True):
            yield lanes_case(*a)
        space2 = list(lanes_space(2, True)) + [a for a in lanes_space(2, True, stagger=True) if not a[1]]
        for _ in range(1000):
            yield lanes_case(*rng.choice(space2))
        for n, cnt in ((3, 500), (4, 300)):
            lanes = [None] + LANES
            bodies = [None, "next", "self", "fresh", "readd", "clear_readd"]
            for _ in range(cnt):
                a = (n, rng.random() < 0.5, tuple(rng.choice(lanes) for _ in range(n)),
                     rng.choice([None] + [(g, ln) for g in ("clear", "shutdown", "tmshutdown") for ln in LANES]),
                     tuple(rng.choice(bodies) for _ in range(n)), rng.random() < 0.25,
                     rng.choice(list(itertools.permutations(range(n)))))
                yield lanes_case(*a)
        for seq, atd in seq_space(3):
            yield seq_case([SEQ_ALPHABET[i] for i in seq], atd)
        for _ in range(600):
            ln = rng.choice([4, 5, 6])
            yield seq_case([rng.choice(SEQ_ALPHABET) for _ in range(ln)], rng.random() < 0.5,
                           delays=rng.choice([(1000, 1000), (1000, 500), (250, 1000)]))


def run(ctx: Ctx):
    logging.disable(logging.CRITICAL)
    if ctx.replay_input is not None:
        return replay(ctx, ctx.replay_input)
    batch = [] if ctx.model_ok else None
    sampled = 0
    for case in family_cases(ctx):
        r = run_case(ctx, case, batch)
        if any(sig == "RequestCache:history-blocks" for sig, _ in r.failures):
            ctx.count("stopped_after_blocked_history")
            break                 # the verdict is settled; every further blocked history would cost the watchdog time
        if sampled < 3 and len(r.log) > 6:
            sampled += 1
            ctx.sample({"family": case["family"], "script": case["script"][:6],
                        "log_head": [f"{t} {ln[:60]} -> {rp[:70]}" for t, ln, rp in r.log[:8]]})
        if batch is not None and len(batch) >= 4000:
            compare_with_model(ctx, batch)
            batch.clear()
    if batch:
        compare_with_model(ctx, batch)
    run_library_caches(ctx)
    coverage_gate(ctx)
    ctx.extra["exhaustive_scopes"] = (
        "COMPLETE: lanes n=1,2 caches x {absent,6 lanes} per pop x {none, clear|shutdown x 6 lanes} x 6 bodies each "
        "(none, pop neighbour, pop self, add fresh, re-add self, clear+re-add self; n=1 also clear+raise, clear+raise CancelledError), shared/distinct identity, n=2 also "
        "staggered; lanes n=3 x 3 racing lanes (at1,hop1,hop2) x 3 bodies (none, pop neighbour, re-add self) in all 6 add "
        "orders, n=4 x 3 racing lanes x 2 bodies (none, pop neighbour); sequences: every op sequence up to length 5 over 6 ops x {t=0, at the deadline}, up to "
        "length 4 with unequal delays.  SAMPLED (not exhaustive): n=3 with all lanes/bodies/add orders (10000 draws); "
        "which of the n! same-instant expiry orders occurs is whatever the loop's heap yields for the given add order") \
        if ctx.thorough() else (
        "COMPLETE: lanes n=1; sequences up to length 3.  SAMPLED: lanes n=2 (1000 draws), n=3 (500), n=4 (300) over all "
        "lanes/bodies/add orders; sequences of length 4-6 (600)")


# branch classes of the hand-written model (`Model.step`, `effDelay`, `cancelPending`, `AsyncTask.step` scripts) that every
# green run must have exercised against the real code; a class that stays at zero would mean the sampled tie silently
# lost that branch, so the run ends as an infrastructure failure (exit 2) instead of looking like a pass
REQUIRED_CLASSES = [
    "branch:mk:mk", "branch:mk:inuse", "branch:mkr:mk", "branch:mkr:raised",
    "branch:add:added", "branch:add:dup", "obs:dup:same-object", "branch:add:dropped-shutdown", "branch:add:assert", "branch:add:raised",
    "branch:pop:claimed", "branch:pop:keyerror", "branch:get:none", "branch:get:some",
    "branch:fb:timeout", "branch:fe:fired", "branch:fa:aborted",
    "branch:clear:done", "branch:shutdown:done", "branch:tmshutdown:done",
    "branch:enter:done", "branch:exit:done", "branch:fset:done", "branch:fcancel:done", "branch:regfut:done",
    "obs:delay:no-passthrough", "obs:delay:override-unfiltered", "obs:delay:filter-hit", "obs:delay:filter-miss",
    "obs:delay:zero-override", "obs:delay:class-default",
    "obs:self_readd:raised", "obs:self_readd:added", "obs:add_inside_on_timeout",
    "obs:same_instant_pop", "obs:woken_cancel",
    "obs:atask:created", "obs:atask:sleeping", "obs:atask:woken", "obs:atask:running",
    "branch:atask:created:body=0,end=cancelled", "branch:atask:sleeping:body=0,end=cancelled",
    "branch:atask:woken:body=0,end=cancelled", "branch:atask:running:body=1,end=cancelled",
    "branch:atask:running-raise:body=1,end=finished", "branch:atask:running-raisec:body=1,end=cancelled",
    "obs:on_timeout_raised:exception", "obs:on_timeout_raised:cancelled", "obs:on_timeout_raised:base",
    "obs:handler_ops", "obs:handler_raised",
    "obs:api:pop:str", "obs:api:pop:cls", "obs:api:get:cls", "obs:api:ret:str", "obs:api:ret:wd", "obs:api:ret:2p",
    "obs:api:ret:wd2", "obs:passthrough_exit_by_exception", "obs:late_add_shutdown", "obs:tm_shutdown",
    "obs:op_while_shutdown_awaits", "family:random+service-loop", "family:lanes+service-loop",
    "family:sequences+service-loop", "obs:service_loop:zero-delay-add", "family:library-caches",
    "library_cache:exercised", "library_cache:futures-checked", "family:random", "family:population", "family:long", "family:lanes",
    "family:sequences",
]



# ---------------------------------------------------------------------------------------------------------
# the request classes the LIBRARY ships (NumberCache subclasses with their own on_timeout overrides)
# ---------------------------------------------------------------------------------------------------------
def library_cache_classes():
    """every NumberCache subclass defined in the ipv8 package (modules are imported as found; test code excluded)"""
    import importlib
    import inspect
    import pkgutil

    import ipv8
    from ipv8.requestcache import NumberCache
    found = {}
    for m in pkgutil.walk_packages(ipv8.__path__, "ipv8."):
        if ".test" in m.name:
            continue
        try:
            mod = importlib.import_module(m.name)
        except Exception:  # optional dependencies
            continue
        for name, obj in vars(mod).items():
            if inspect.isclass(obj) and issubclass(obj, NumberCache) and obj.__module__ == m.name \
                    and not obj.__module__.endswith("requestcache") and "on_timeout" in vars(obj):
                found[f"{obj.__module__}.{name}"] = obj
    return found


def library_factories():
    """how to build the library's request classes that carry futures of their own (arguments are duck-typed stand-ins);
    each entry yields (label, constructor(rc) -> cache, timeout_ms)"""
    from types import SimpleNamespace as NS

    def community(rc):
        return NS(request_cache=rc, swarms={}, logger=logging.getLogger("c10-lib"), circuits={})
    out = []
    for last_response in (0.0, 1e12):                # node never answered / answered something after this request was sent
        for failed in (0, 3):
            for consume in (False, True):
                def mk(rc, last_response=last_response, failed=failed, consume=consume):
                    from ipv8.dht.community import Request
                    node = NS(last_response=last_response, failed=failed, rtt=0.0, id=b"\x01" * 20)
                    return Request(community(rc), "ping", node, consume_errors=consume, timeout=0.25)
                out.append((f"ipv8.dht.community.Request[last_response={'later' if last_response else 'never'},"
                            f"failed={failed},consume_errors={consume}]", "ipv8.dht.community.Request", mk, 250))
    for target in (None, "ip"):
        def mk2(rc, target=target):
            from ipv8.messaging.anonymization.caches import PeersRequestCache
            return PeersRequestCache(community(rc), NS(circuit_id=1), b"\x02" * 20, target)
        out.append((f"ipv8.messaging.anonymization.caches.PeersRequestCache[target={target}]",
                    "ipv8.messaging.anonymization.caches.PeersRequestCache", mk2, None))

    def mk3(rc):
        from ipv8.messaging.anonymization.caches import TestRequestCache
        return TestRequestCache(community(rc), NS(circuit_id=1))
    out.append(("ipv8.messaging.anonymization.caches.TestRequestCache", "ipv8.messaging.anonymization.caches.TestRequestCache",
                mk3, None))
    return out


def run_library_caches(ctx: Ctx):
    """the property on the library's own request classes: registered, not answered -> the timeout fires exactly once, the
    identity is free afterwards, and EVERY asyncio future the request object carries (managed or not) is done"""
    import inspect

    import vclock
    from ipv8.requestcache import RequestCache
    classes_found = library_cache_classes()
    ctx.extra["library_on_timeout_overrides"] = sorted(classes_found)
    factories = library_factories()
    have = {cls for _, cls, _, _ in factories}
    for name, cls in classes_found.items():
        carries = "Future" in inspect.getsource(cls)
        ctx.count("library_cache:" + ("exercised" if name in have else "carries-future-but-no-factory" if carries
                                      else "no-own-future"))
        if carries and name not in have:
            from vlib import InfraError
            raise InfraError(f"library request class {name} carries a future but harness/c10.py has no factory for it")
    for label, _, mk, tmo in factories:
        loop = vclock.VLoop()
        asyncio.set_event_loop(loop)
        vclock.install(loop)
        loop.set_exception_handler(lambda *_: None)
        res = {}

        async def scenario():
            rc = RequestCache()
            cache = mk(rc)
            fired = []
            orig = cache.on_timeout
            cache.on_timeout = lambda: (fired.append(1), orig())[1]
            if rc.add(cache) is None:
                res["problem"] = "add refused a fresh library request"
                return
            futs = {a: v for a, v in vars(cache).items() if isinstance(v, asyncio.Future)}
            await asyncio.sleep(round(cache.timeout_delay * 1000 + 1000) / 1000.0)
            res["fired"] = len(fired)
            res["has"] = rc.has(cache.prefix, cache.number)
            res["pending"] = sorted(a for a, v in futs.items() if not v.done())
            res["nfuts"] = len(futs)
            for v in futs.values():
                if v.done() and not v.cancelled():
                    v.exception()
            await rc.shutdown()
        try:
            loop.run_until_complete(scenario())
        except Exception as e:
            res["problem"] = f"{type(e).__name__}: {e}"
        finally:
            vclock.uninstall()
            asyncio.set_event_loop(None)
            loop.close()
        ctx.case(("library", label), True)
        ctx.count("family:library-caches")
        cls_short = label.split("[")[0].split(".")[-1]
        if res.get("problem"):
            from vlib import InfraError
            raise InfraError(f"library request {label} could not be exercised: {res['problem']}")
        if res["fired"] != 1:
            ctx.oracle_fail(f"{cls_short}.on_timeout:fired-{res['fired']}-times",
                            f"library request {label}: registered and never answered, its on_timeout ran {res['fired']} times",
                            {"library": label})
        if res["has"]:
            ctx.oracle_fail(f"{cls_short}:still-registered-after-timeout",
                            f"library request {label} is still registered after its timeout", {"library": label})
        if res["pending"]:
            ctx.oracle_fail(f"{cls_short}.on_timeout:future-left-pending",
                            f"library request {label} timed out (identifier released, on_timeout ran) but the future(s) "
                            f"{res['pending']} tied to it are still pending: whoever awaits the request hangs",
                            {"library": label})
        ctx.count("library_cache:futures-checked", res["nfuts"])


def coverage_gate(ctx: Ctx):
    """only for runs that would otherwise be green: a violation / disagreement must never be hidden behind exit 2"""
    if ctx.failures or ctx.disagreements or ctx.broken or ctx.replay_input is not None or not ctx.model_ok:
        return
    import os
    extra = [k for k in os.environ.get("C10_EXTRA_REQUIRED", "").split(",") if k]      # for testing the gate itself
    missing = [k for k in REQUIRED_CLASSES + extra if not ctx.counts.get(k)]
    ctx.extra["required_classes"] = {"listed": len(REQUIRED_CLASSES), "missing": missing}
    if missing:
        from vlib import InfraError
        raise InfraError("coverage classes that the design requires stayed at zero: " + ", ".join(missing))


def search(ctx: Ctx, reason: str):
    """wider implementation-only search after a broken obligation: oracle only, bounded (~1 min) so that a failing
    quick run stays well under 3 minutes"""
    logging.disable(logging.CRITICAL)
    rng = ctx.rng
    for a in lanes_space(1, True):
        run_case(ctx, lanes_case(*a), None)
        if BLOCKED[0]:
            return
    space2 = list(lanes_space(2, True))
    for _ in range(6000):
        run_case(ctx, lanes_case(*rng.choice(space2)), None)
        if len(ctx.failures) > 20 or BLOCKED[0]:
            return
    for seq, atd in seq_space(3):
        run_case(ctx, seq_case([SEQ_ALPHABET[i] for i in seq], atd), None)
    for _ in range(4000):
        run_case(ctx, gen_random(rng, rng.choice([2, 3, 4, 5, 6])), None)
        if len(ctx.failures) > 20 or BLOCKED[0]:
            return
    for _ in range(200):
        run_case(ctx, gen_population(rng), None)
        run_case(ctx, gen_long(rng), None)


def replay(ctx: Ctx, rec: dict):
    r = rec.get("replay", rec)
    if "library" in r:
        run_library_caches(ctx)
        print("replay (library request classes): property " + ("FAILS: " + "; ".join(f["what"] for f in ctx.failures[:3])
                                                                 if ctx.failures else "holds"))
        return
    case = r["case"]
    batch = [] if ctx.model_ok else None
    run_ = run_case(ctx, case, batch)
    for t, line, reply in run_.log:
        print(f"  {t:6d} ms  {line:40s} -> {reply}")
    if batch:
        compare_with_model(ctx, batch)
    print("replay: property " + ("FAILS: " + "; ".join(w for _, w in run_.failures[:3]) if run_.failures else "holds"))
