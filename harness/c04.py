"""
C04 — onion circuits deliver data intact and never expose it in transit.

Link to the code (correspondence + oracle, no translator: nothing in the anchored code is table-like):
  * real TunnelCommunity / HiddenTunnelCommunity nodes (MockIPv8 on the repo's mock network, virtual clock) build
    1-, 2-, 3-hop plain circuits and an end-to-end (hidden-service) circuit with the REAL Rust AEAD;
  * every datagram is tapped: for each cell origination (`crypto_endpoint.send_cell`) the harness records the passage
    (links traversed, header fields, body) and where it was delivered (`on_packet_from_circuit`) or dropped;
  * the harness reads the real routing/key tables (`circuits / relays / exit_sockets`) into the Lean model
    (driver drv_c04, toy AEAD with the same 24-byte overhead), replays every origination / injection on the model and
    compares traces: per link (src, dst, circuit id, plaintext flag, relay_early flag, body length, ordered list of
    (key, direction) layers) and the final delivery/drop point; the layers of a real body are found by peeling it
    with the real session keys the harness holds (peel count == model's n-j);
  * oracle (independent of the model): exit output == payload, originator input == payload with the right origin and
    circuit, layer count decreases by one per link toward the exit, plaintext / identical ciphertext never on two
    links, only create/created flagged plaintext, and a cell altered at ANY byte position, spliced from another
    circuit / link / direction, or made of foreign bytes is never delivered (the unauthenticated relay_early flag
    byte is the one exception: the cell may still be delivered, but only with the unaltered payload).
"""
from __future__ import annotations

import asyncio
import random as _random
import re
import struct
from collections import deque

import gen_c04
from vlib import Ctx, InfraError

PROPERTY = "C04"
LEAN_TARGETS = ["Ipv8.C04.Props"]
PROPS_FILE = "Ipv8/C04/Props.lean"
DRIVER = "drv_c04"
RULE = ("scenarios per round: plain circuits with 1/2/3 hops (two circuits from one originator), one end-to-end circuit "
        "(remove_tunnel_delay 0 / 5 alternating), one circuit stuck before CREATED, three tear-down histories with "
        "remove_tunnel_delay 5; one `case` per operation: data fwd/bwd by size, payload class x circuit kind x direction, "
        "burst (destination kind, socket fresh/open, k), ping, test-request, altered byte (direction, link, byte class), "
        "altered shape, injected cell kind, nested packet (source relation, inner message), tear-down traffic (trigger, "
        "phase, kind); distinct = distinct key (scenario kind, hops, op kind, parameters) WITHOUT the round, so repeated "
        "rounds add cases but not distinct ones; non-trivial = a cell was originated or injected (all of them are)")
TRUSTED_BASE = [
    "tools/gen_c04.py: AST translation of the guards, directions, table order and constants of send_cell / process_cell / relay_cell / "
    "outgoing_crypto / incoming_crypto / encrypt_cell / decrypt_cell / on_data (subset documented in the file) into Ipv8/C04/GenCrypto.lean; "
    "Model.lean is built on these definitions",
    "ipv8_rust_tunnels (Rust): ChaCha20-Poly1305 SessionKeys.encrypt_str/decrypt_str, X25519, HKDF — modelled as an abstract AEAD "
    "whose laws (correctness, ciphertext integrity, key/direction separation, constant positive overhead) are hypotheses of every theorem",
    "hand-written model of crypto.py encrypt_cell/decrypt_cell/outgoing_crypto/incoming_crypto/relay_cell/process_cell/send_cell "
    "(Ipv8/C04/Model.lean), tied to the code by the correspondence run of harness/c04.py on the repo's mock network",
    "the harness's peel analysis (decrypting tapped bodies with the nodes' real session keys) and its reading of the real routing tables",
    "harness-side replacements under the real exit socket: TunnelProtocol.open (fake transport on the mock internet), the event loop's getaddrinfo under the real TunnelExitSocket.resolve (mock DNS), is_allowed in open-policy scenarios",
]
ASSUMPTIONS = [
    "CONFIDENTIALITY of the AEAD is NOT a law of the model and not proved: theorems give layer counts, lengths, whole-body distinctness and a symbolic "
    "(Dolev-Yao) secrecy statement; that payload bytes cannot be read from a real ciphertext is assumed of ChaCha20-Poly1305 and only checked as "
    "'payload bytes are not a substring of any link body' by the oracle",
    "AEAD laws (Aead.Laws): dec k d c = some m iff c = enc k d n m for some nonce; enc is injective in (key, direction, message); |enc m| = |m| + ovh, ovh > 0",
    "circuit ids on the two sides of a relay differ; hops of a ready circuit have keys",
    "replay of a genuine cell is outside the statement (the protocol has no replay protection); the relay_early header flag is unauthenticated",
]

def generate(ctx: Ctx):
    """translator: the decision logic of the cell path (guards, directions, table order, constants) -> Ipv8/C04/GenCrypto.lean"""
    src, info = gen_c04.translate()
    ctx.extra["translated"] = info
    return [("Ipv8/C04/GenCrypto.lean", src)]


SIZES = [0, 1, 2, 15, 16, 17, 23, 24, 25, 64, 100, 279, 512, 1000, 1400, 1472, 1500]
ZERO = ("0.0.0.0", 0)


# ------------------------------------------------------------------------------------------------------------------
class Passage:
    def __init__(self, pid, kind, node, target, cid, pt, msg, parent):
        self.pid, self.kind, self.node, self.target, self.cid, self.pt, self.msg, self.parent = \
            pid, kind, node, target, cid, pt, msg, parent
        self.re0 = False
        self.wires = []        # (src, dst, cid, pt, re, body)
        self.delivered = []    # (node, cid, msg)
        self.raised = []       # exception type names that escaped a receive path
        self.sent = False
        self.setup = False
        self.tampered = None   # (link index, position)


class Sim:
    """A network of real tunnel communities with a tap on every datagram."""

    def __init__(self, rng: _random.Random, hidden: bool, open_policy: bool, delay: float = 0):
        from ipv8.test.mocking import endpoint as mep
        mep.AutoMockEndpoint.SEND_INET_EXCEPTION_TO_LOOP = False
        mep.internet.clear()
        self.mep = mep
        self.rng = rng
        self.hidden = hidden
        self.open_policy = open_policy
        self.delay = delay
        self.nodes = []
        self.addr2idx = {}
        self.queue = deque()
        self.busy = 0
        self.passages = []
        self.cur = None
        self._origin = None
        self.tamper = None      # (passage ordinal in op, link index, fn(bytes)->bytes)
        self.op_first_pid = 0
        self.exit_log = []      # (node idx, cid, data, destination)
        self.raw_log = []       # (node idx, cid, origin, data)
        self.opfc_log = []      # (node idx, cid, source, data): every on_packet_from_circuit call
        self.loop_errors = []
        self.drop_next = None
        self.hold = set()       # nodes whose outgoing datagrams are silently lost
        self.spoof = {}         # passage id -> source address an injected datagram claims
        self.transports = []    # every fake outside transport ever opened by an exit socket
        self.nonces = {}        # (key id, direction) -> {explicit nonce: ciphertext}
        self.nonce_reuse = []
        self.family_errors = []  # datagrams handed to the transport of the wrong address family
        self.ov2idx = {}
        self.dns_table = {}
        self._patch_exit_io()
        _random.seed(rng.getrandbits(64))

    # -- construction -----------------------------------------------------------------------------------------
    def add_node(self, flags=None, tunnel_ep=False, dual_stack=False):
        from ipv8.messaging.anonymization.community import TunnelCommunity, TunnelSettings
        from ipv8.messaging.anonymization.hidden_services import HiddenTunnelCommunity, HiddenTunnelSettings
        from ipv8.messaging.anonymization.tunnel import PEER_FLAG_RELAY, PEER_FLAG_SPEED_TEST
        from ipv8.test.messaging.anonymization.mock import MockDHTProvider
        from ipv8.test.mocking.ipv8 import MockIPv8
        s = HiddenTunnelSettings() if self.hidden else TunnelSettings()
        s.min_circuits = 0
        s.max_circuits = 0
        s.remove_tunnel_delay = self.delay
        s.peer_flags = set(flags) if flags is not None else {PEER_FLAG_RELAY, PEER_FLAG_SPEED_TEST}
        if dual_stack:
            # the node runs on a DispatcherEndpoint with an IPv4 and an IPv6 interface (both on the mock internet)
            from ipv8.messaging.interfaces.dispatcher.endpoint import DispatcherEndpoint
            from ipv8.test.mocking import ipv8 as mipv8
            mep = self.mep

            class HDispatcher(DispatcherEndpoint):
                def __init__(self):
                    super().__init__([])
                    self.interfaces = {"UDPIPv4": mep.AutoMockEndpoint(), "UDPIPv6": mep.AutoMockEndpoint()}
                    self.interface_order = ["UDPIPv4", "UDPIPv6"]
                    self._preferred_interface = self.interfaces["UDPIPv4"]
                wan_address = property(lambda self: self.interfaces["UDPIPv4"].wan_address)
                lan_address = property(lambda self: self.interfaces["UDPIPv4"].lan_address)

                def open(self):
                    for i in self.interfaces.values():
                        i.open()
                    return True

                def is_open(self):
                    return all(i.is_open() for i in self.interfaces.values())

                def close(self):
                    for i in self.interfaces.values():
                        i.close()

                def send(self, socket_address, packet, interface=None):
                    self.interfaces["UDPIPv6" if ":" in str(socket_address[0]) else "UDPIPv4"].send(socket_address, packet)
            orig_factory = mipv8.AutoMockEndpoint
            mipv8.AutoMockEndpoint = HDispatcher
            try:
                n = MockIPv8("curve25519", HiddenTunnelCommunity if self.hidden else TunnelCommunity, settings=s)
            finally:
                mipv8.AutoMockEndpoint = orig_factory
        elif tunnel_ep:
            # the node's endpoint is a TunnelEndpoint wrapped around the mock endpoint (what IPv8 configures for anonymization)
            from ipv8.messaging.anonymization.endpoint import TunnelEndpoint
            from ipv8.test.mocking import ipv8 as mipv8
            mep = self.mep

            class HTunnelEndpoint(TunnelEndpoint):
                def __init__(self):
                    super().__init__(mep.AutoMockEndpoint())
                wan_address = property(lambda self: self.endpoint.wan_address)
                lan_address = property(lambda self: self.endpoint.lan_address)

                def open(self):
                    return self.endpoint.open()
            orig_factory = mipv8.AutoMockEndpoint
            mipv8.AutoMockEndpoint = HTunnelEndpoint
            try:
                n = MockIPv8("curve25519", TunnelCommunity, settings=s)
            finally:
                mipv8.AutoMockEndpoint = orig_factory
        else:
            n = MockIPv8("curve25519", HiddenTunnelCommunity if self.hidden else TunnelCommunity, settings=s)
        if self.hidden:
            n.overlay.ipv8 = n
            n.overlay.crypto_endpoint.setup_tunnels(n.overlay, s)
        n.overlay.cancel_all_pending_tasks()
        n.overlay.settings.min_circuits = 1
        n.overlay.settings.max_circuits = 1
        n.overlay.dht_provider = MockDHTProvider(n.overlay.my_peer)
        idx = len(self.nodes)
        self.nodes.append(n)
        self.addr2idx[tuple(n.endpoint.wan_address)] = idx
        self.addr2idx[tuple(n.endpoint.lan_address)] = idx
        self.ov2idx[id(n.overlay)] = idx
        self._hook(idx, n)
        return idx

    def _hook(self, idx, n):
        # the socket-level endpoint(s): inside a TunnelEndpoint, or the interfaces of a DispatcherEndpoint
        if hasattr(n.endpoint, "interfaces"):
            eps = list(n.endpoint.interfaces.values())
            for e in eps[1:]:
                self.addr2idx[tuple(e.wan_address)] = idx
                self.addr2idx[tuple(e.lan_address)] = idx
        else:
            eps = [getattr(n.endpoint, "endpoint", n.endpoint)]
        ov = n.overlay
        ce = ov.crypto_endpoint
        for ep in eps:
            def send(addr, pkt, idx=idx, ep=ep):
                if not ep.is_open():
                    return
                self._on_send(idx, tuple(addr), bytes(pkt))
            ep.send = send

        real_send_cell = ce.send_cell

        def send_cell(target_addr, cell, idx=idx):
            p = Passage(len(self.passages), "cell", idx, self.addr2idx.get(tuple(target_addr), 999), cell.circuit_id,
                        bool(cell.plaintext), bytes(cell.message), self.cur)
            p.re0 = bool(cell.relay_early)
            self.passages.append(p)
            prev, self._origin = self._origin, p
            try:
                return real_send_cell(target_addr, cell)
            finally:
                self._origin = prev
        ce.send_cell = send_cell

        real_opfc = ov.on_packet_from_circuit

        def on_packet_from_circuit(source_address, data, circuit_id, idx=idx):
            self.opfc_log.append((idx, circuit_id, tuple(source_address), bytes(data)))
            if self.cur is not None:
                self.passages[self.cur].delivered.append((idx, circuit_id, bytes(data[22:23] + data[27:])))
            return real_opfc(source_address, data, circuit_id)
        ov.on_packet_from_circuit = on_packet_from_circuit

        def on_raw_data(circuit, origin, data, idx=idx):
            self.raw_log.append((idx, circuit.circuit_id, tuple(origin), bytes(data)))
        ov.on_raw_data = on_raw_data

    def _on_send(self, idx, addr, pkt):
        held = idx in self.hold
        if self._origin is not None:
            p = self._origin
            p.sent = True
        elif self.cur is not None:
            p = self.passages[self.cur]
        else:
            p = Passage(len(self.passages), "raw", idx, self.addr2idx.get(addr, 999), None, None, pkt, None)
            self.passages.append(p)
        dst = self.addr2idx.get(addr, 999)
        prefix = self.nodes[idx].overlay.get_prefix()
        if p.kind != "raw" and pkt.startswith(prefix) and len(pkt) >= 29 and pkt[22] == 0:
            cid, pt, re = struct.unpack_from("!I??", pkt, 23)
            p.wires.append((idx, dst, cid, pt, re, pkt[29:]))
            if self.tamper is not None:
                ordinal, link, fn = self.tamper
                if p.pid - self.op_first_pid == ordinal and len(p.wires) - 1 == link:
                    self.tamper = None
                    pkt = fn(pkt)
                    if pkt is None:
                        return
                    # the altered datagram starts a new passage (kind inject) so that its fate is recorded separately
                    q = Passage(len(self.passages), "inject", dst, dst, None, None, pkt, p.pid)
                    self.passages.append(q)
                    p = q
        if held:
            return          # recorded as put on the wire, then lost
        self.queue.append((p.pid, idx, addr, pkt))
        asyncio.get_running_loop().call_soon(self._pump_one)

    def _pump_one(self):
        if not self.queue:
            return
        pid, src, addr, pkt = self.queue.popleft()
        ep = self.mep.internet.get(addr)
        if ep is None:
            return
        prev, self.cur = self.cur, pid
        try:
            from ipv8.messaging.interfaces.udp.endpoint import UDPv4Address
            source = UDPv4Address(*self.spoof[pid]) if pid in self.spoof else \
                (self.nodes[src].endpoint.wan_address if src < len(self.nodes) else addr)
            ep.notify_listeners((source, pkt))
        except Exception as e:  # escaped the receive path: the cell is dropped (C03 is about the escape itself)
            self.passages[pid].raised.append(type(e).__name__)
        finally:
            self.cur = prev

    def inject(self, dst_idx, src_idx, pkt, src_addr=None, dst_addr=None):
        p = Passage(len(self.passages), "inject", dst_idx, dst_idx, None, None, pkt, None)
        self.passages.append(p)
        if src_addr is not None:
            self.spoof[p.pid] = tuple(src_addr)
        self.queue.append((p.pid, src_idx, tuple(dst_addr or self.nodes[dst_idx].endpoint.wan_address), pkt))
        asyncio.get_running_loop().call_soon(self._pump_one)
        return p

    async def settle(self, extra: float = 0.0):
        for rnd in range(3):
            idle = 0
            while idle < 6:
                await asyncio.sleep(0)
                idle = 0 if self.queue else idle + 1
            if rnd < 2:
                # let the 5-10 virtual-ms timers of the exit sockets (transport creation, DNS) fire
                await asyncio.sleep(0.012)
        if extra:
            await asyncio.sleep(extra)
            await self.settle()

    async def introduce(self, idxs=None):
        idxs = list(range(len(self.nodes))) if idxs is None else idxs
        for a in idxs:
            for b in idxs:
                if a != b:
                    self.nodes[a].overlay.walk_to(self.nodes[b].endpoint.wan_address)
        await self.settle(0.05)

    def wrap_exits(self):
        """kept for the call sites: exit sockets are the REAL TunnelExitSocket objects; only the UDP transports, the DNS
        lookup and (in open-policy scenarios) the exit policy are replaced, see `_patch_exit_io`"""

    def _patch_exit_io(self):
        """Real `TunnelExitSocket.enable / sendto / datagram_received / close` run unchanged.  Replaced underneath them:
        `TunnelProtocol.open` (returns a transport on the mock internet after 5 virtual ms, so the send queue is
        exercised), the loop's `getaddrinfo` under the real `resolve` (deterministic mock DNS after 10 virtual ms) and, when the scenario says
        "open policy", `is_allowed`."""
        from ipv8.messaging.anonymization import exit_socket as xmod
        from ipv8.messaging.interfaces.endpoint import EndpointListener
        from ipv8.messaging.interfaces.udp.endpoint import UDPv4Address
        sim = self
        self._xmod = xmod
        self._orig_exit_io = (xmod.TunnelProtocol.open, xmod.TunnelExitSocket.is_allowed)
        orig_allowed = xmod.TunnelExitSocket.is_allowed

        class FakeTransport(EndpointListener):
            def __init__(self, proto):
                self.proto = proto
                self.v6 = proto.local_addr[0] == "::"
                self.xs = proto.received_cb.__self__
                self.closed = False
                self.endpoint = None
                if not self.v6:
                    ep = sim.mep.AutoMockEndpoint()
                    ep.open()
                    EndpointListener.__init__(self, ep, main_thread=False)
                    ep.add_listener(self)
                sim.transports.append(self)

            def public_address(self):
                return tuple(self.endpoint.wan_address)

            def sendto(self, data, destination):
                if self.closed:
                    return
                idx = sim.ov2idx.get(id(self.xs.overlay), 999)
                if (":" in str(destination[0])) != self.v6:
                    # a real UDP socket of the other family cannot send this datagram: it is lost
                    sim.family_errors.append((idx, self.xs.circuit_id, tuple(destination), self.v6))
                    return
                sim.exit_log.append((idx, self.xs.circuit_id, bytes(data), tuple(destination)))
                if not self.v6 and tuple(destination) in sim.mep.internet:
                    self.endpoint.send(destination, data)

            def on_packet(self, packet):
                if not self.closed:
                    source, data = packet
                    self.proto.datagram_received(data, tuple(source))

            def close(self):
                self.closed = True
                if self.endpoint is not None:
                    self.endpoint.close()
                    for a in (self.endpoint.wan_address, self.endpoint.lan_address):
                        sim.mep.internet.pop(a, None)

        async def fake_open(proto):
            await asyncio.sleep(0.005)
            return FakeTransport(proto)

        async def fake_getaddrinfo(host, port, **kwargs):
            # the DNS of the mock internet: the real TunnelExitSocket.resolve runs on top of it
            import socket as _socket
            await asyncio.sleep(0.01)
            ip = sim.dns(host)
            if ":" in ip:
                return [(_socket.AF_INET6, _socket.SOCK_DGRAM, 17, "", (ip, port, 0, 0))]
            return [(_socket.AF_INET, _socket.SOCK_DGRAM, 17, "", (ip, port))]
        asyncio.get_running_loop().getaddrinfo = fake_getaddrinfo

        def is_allowed(xs, data):
            return True if sim.open_policy else orig_allowed(xs, data)

        xmod.TunnelProtocol.open = fake_open
        xmod.TunnelExitSocket.is_allowed = is_allowed

    def dns(self, name) -> str:
        if name in self.dns_table:
            return self.dns_table[name]
        h = sum(ord(c) * (i + 7) for i, c in enumerate(str(name)))
        if str(name).endswith(".v6"):
            return f"2001:db8::{h % 65535 + 1:x}"
        return f"10.{h % 250 + 1}.{(h // 250) % 250 + 1}.{(h // 62500) % 250 + 1}"

    def live_exit_sockets(self):
        """(node idx, circuit id) of every exit socket object whose outside transport is open (it can still tunnel
        return traffic), whether or not the routing table still lists it"""
        return sorted({(self.ov2idx.get(id(t.xs.overlay), 999), t.xs.circuit_id) for t in self.transports
                       if not t.closed and not t.v6})

    async def stop(self):
        for n in self.nodes:
            try:
                await n.stop()
            except Exception:
                pass
        for t in self.transports:
            t.closed = True
        (self._xmod.TunnelProtocol.open, self._xmod.TunnelExitSocket.is_allowed) = self._orig_exit_io
        self.mep.internet.clear()

    # -- reading the real state ---------------------------------------------------------------------------------
    def key_ids(self):
        ids = {}

        def kid(sk):
            if sk is None:
                return None
            kf = bytes(sk.key_forward)
            if kf not in ids:
                ids[kf] = (len(ids) + 1, sk)
            return ids[kf][0]
        for n in self.nodes:
            o = n.overlay
            for cid in sorted(o.circuits):
                c = o.circuits[cid]
                for h in c.hops:
                    kid(h.keys)
                kid(c.hs_session_keys)
            for cid in sorted(o.relay_from_to):
                kid(o.relay_from_to[cid].hop.keys)
            for cid in sorted(o.exit_sockets):
                kid(o.exit_sockets[cid].hop.keys)
        self._kid = kid
        self._ids = ids
        return ids

    def tables(self):
        """canonical (model `dump` format) description of every node's tables + the driver lines that load them"""
        from ipv8.messaging.anonymization.tunnel import (CIRCUIT_TYPE_DATA, CIRCUIT_TYPE_IP_SEEDER,
                                                         CIRCUIT_TYPE_RP_DOWNLOADER, CIRCUIT_TYPE_RP_SEEDER)
        ct = {CIRCUIT_TYPE_DATA: "data", CIRCUIT_TYPE_IP_SEEDER: "ip", CIRCUIT_TYPE_RP_SEEDER: "rps",
              CIRCUIT_TYPE_RP_DOWNLOADER: "rpd"}
        self.key_ids()
        kid = self._kid
        a2i = lambda a: self.addr2idx.get(tuple(a), 999)  # noqa: E731
        dumps, lines = [], []
        for i, n in enumerate(self.nodes):
            o = n.overlay
            lines.append(f"node {i} {o.crypto_endpoint.max_relay_early}")
            parts = []
            for cid in sorted(o.circuits):
                c = o.circuits[cid]
                keys = [kid(h.keys) for h in c.hops]
                if None in keys:
                    raise InfraError(f"circuit {cid} of node {i} lists a hop without session keys")
                hs = kid(c.hs_session_keys)
                ks = "[" + ",".join(map(str, keys)) + "]"
                fh = a2i(c.hop.address) if c.hop is not None else 999
                parts.append(f"C{cid}:{ks}:{fh}:{hs if hs else '-'}:{ct[c.ctype]}:{c.relay_early_count}")
                lines.append(f"circ {i} {cid} {fh} {ct[c.ctype]} {c.relay_early_count} {hs if hs else '-'} {ks}")
            for cid in sorted(o.relay_from_to):
                r = o.relay_from_to[cid]
                d = "F" if r.direction == 0 else "B"
                parts.append(f"R{cid}:{r.circuit_id}:{kid(r.hop.keys)}:{d}:{int(bool(r.rendezvous_relay))}:{a2i(r.hop.address)}:{r.relay_early_count}")
                lines.append(f"relay {i} {cid} {r.circuit_id} {kid(r.hop.keys)} {d} {int(bool(r.rendezvous_relay))} {a2i(r.hop.address)} {r.relay_early_count}")
            for cid in sorted(o.exit_sockets):
                x = o.exit_sockets[cid]
                parts.append(f"X{cid}:{kid(x.hop.keys)}:{a2i(x.hop.address)}")
                lines.append(f"exit {i} {cid} {kid(x.hop.keys)} {a2i(x.hop.address)}")
            dumps.append(" ".join(parts) if parts else "empty")
        return dumps, lines

    def peel(self, body: bytes, plain: bytes | None):
        """ordered (key id + 'F'/'B') layers peeled off `body` with the real session keys, outermost first; ends with "?"
        when what remains is not the expected plaintext (an AEAD layer is opened by at most one key and direction)"""
        layers = []
        for _ in range(10):
            if plain is not None and body == plain:
                return layers
            if plain is None and not body:
                return layers           # an (altered) empty body: nothing left to classify, as in the model's trace
            hit = None
            if len(body) >= 24:
                for kf, (i, sk) in self._ids.items():
                    for d, ds in ((0, "F"), (1, "B")):
                        try:
                            inner = sk.decrypt_str(body, d)
                        except Exception:
                            continue
                        # explicit nonce of this layer: must never repeat for one key and direction
                        seen = self.nonces.setdefault((kf, ds), {})
                        if seen.setdefault(body[:8], body) != body:
                            self.nonce_reuse.append((i, ds, body[:8].hex()))
                        hit = (f"{i}{ds}", inner)
                        break
                    if hit:
                        break
            if hit is None:
                return [*layers, "?"]
            layers.append(hit[0])
            body = hit[1]
        return [*layers, "?"]

    def decrypts_under_any(self, body: bytes) -> bool:
        for kf, (i, sk) in self._ids.items():
            for d in (0, 1):
                try:
                    sk.decrypt_str(body, d)
                    return True
                except Exception:
                    pass
        return False


# ------------------------------------------------------------------------------------------------------------------
def rand_payload(rng, size, dht_like=False):
    if dht_like and size >= 2:
        return b"d" + bytes(rng.getrandbits(8) for _ in range(size - 2)) + b"e"
    b = bytearray(rng.getrandbits(8) for _ in range(size))
    if size >= 1 and b[0] == 0:
        b[0] = 0x7f      # keep it out of the could_be_ipv8 branch of on_data
    return bytes(b)


def real_trace(sim: Sim, p: Passage, plain: bytes | None):
    """canonical trace of a passage as seen on the real network"""
    parts = []
    for (src, dst, cid, pt, re, body) in p.wires:
        if pt:
            lay = "-" if (plain is not None and body == plain) else "?"
        else:
            pl = sim.peel(body, plain)
            lay = ".".join(pl) if pl else "-"
        parts.append(f"w:{src}>{dst}:{cid}:{int(pt)}{int(re)}:{len(body)}:{lay}")
    return parts


def real_final(p: Passage, last_node: int):
    if p.delivered:
        n, cid, msg = p.delivered[0]
        return f"fin:deliver@{n}:{cid}:{msg.hex() or '-'}"
    return f"fin:drop@{last_node}"


def traces_agree(mw, mfin, real, fin):
    """equal traces; or both end in a drop and the implementation dropped the cell EARLIER on the same route (dropping a
    bad cell sooner than the model only strengthens the property)"""
    if fin is None:
        return mw == real
    if mw == real and mfin == fin:
        return True
    return (mfin.startswith("fin:drop") and fin.startswith("fin:drop") and len(real) < len(mw) and mw[:len(real)] == real)


def canon_model(reply: str):
    parts = reply.split("|")
    fin = parts[-1]
    f = fin.split(":")
    if f[1].startswith("deliver@"):
        fin = f"fin:{f[1]}:{f[2]}:{f[4]}"          # strip the flag field
        reason = "deliver"
    else:
        reason = f[2] if len(f) > 2 else "lost"
        fin = f"fin:{f[1]}"                       # strip the drop reason (not observable on the real side)
    return parts[:-1], fin, reason


class Checker:
    """runs ops on a Sim, mirrors them on the model, evaluates the oracle"""

    def __init__(self, ctx: Ctx, sim: Sim, use_model: bool, tag: str):
        self.ctx, self.sim, self.tag = ctx, sim, tag
        self.drv = ctx.driver() if use_model else None
        self.replay_ops = []

    def ask(self, line):
        if self.drv is None:
            return None
        return self.drv.ask(line)

    def load_tables(self):
        dumps, lines = self.sim.tables()
        if self.drv is None:
            return
        self.ask("reset")
        for ln in lines:
            r = self.ask(ln)
            if r != "ok":
                raise InfraError(f"driver refused `{ln}`: {r}")
        self.compare_tables("after loading")

    def compare_tables(self, when):
        """routes and keys of every node (the relay_early counters are internal bookkeeping: their effect — which cells
        are dropped — is compared through the traces, their values are not)"""
        if self.drv is None or when == "after loading":
            return
        strip = lambda t: " ".join(x.rsplit(":", 1)[0] if x[:1] in "CR" else x for x in t.split())  # noqa: E731
        dumps, _ = self.sim.tables()
        for i, d in enumerate(dumps):
            m = self.ask(f"dump {i}")
            if strip(m) != strip(d):
                self.ctx.disagree(f"{self.tag}: tables of node {i} {when}: model `{m}` != implementation `{d}`",
                                  {"scenario": self.tag, "node": i, "model": m, "impl": d, "ops": self.replay_ops[-5:]})

    # -- generic comparison of the passages of one op ------------------------------------------------------------
    def check_passages(self, first_pid, what, replay, expect_model=True):
        sim, ctx = self.sim, self.ctx
        for p in sim.passages[first_pid:]:
            if p.kind == "raw":
                continue
            if p.kind == "cell":
                plain = p.msg
                real = real_trace(sim, p, plain)
                last = p.wires[-1][1] if p.wires else p.node
                cut = None
                if p.tampered is not None:
                    cut = p.tampered
                fin = real_final(p, last) if cut is None else None
                # oracle bits on every genuine passage
                self.oracle_wires(p, what, replay)
                if self.drv is not None and expect_model:
                    if cut is None:
                        m = self.ask(f"send {p.node} {p.target} {p.cid} {int(p.pt)} {int(p.re0)} {plain.hex() or '-'}")
                    else:
                        m = self.ask(f"sendcut {p.node} {p.target} {p.cid} {int(p.pt)} {int(p.re0)} {plain.hex() or '-'} {cut}")
                    mw, mfin, reason = canon_model(m)
                    ctx.count(f"model_final:{reason}")
                    if len(ctx.samples) < 6 and (len(ctx.samples) == 0 or what.split()[0] not in str(ctx.samples)):
                        ctx.sample({"scenario": self.tag, "op": what, "driver_line": f"send {p.node} {p.target} {p.cid} {int(p.pt)} {int(p.re0)} <{len(plain)} bytes>",
                                    "implementation_trace": real + [fin], "model_reply": m[:300]})
                    if not traces_agree(mw, mfin, real, fin):
                        ctx.disagree(f"{self.tag}: {what}: passage from node {p.node} cid {p.cid}: model {mw} {mfin} != implementation {real} {fin}",
                                     {**replay, "model": m, "impl": real + [fin]})
            for e in p.raised:
                ctx.count(f"escaped_exception:{e}")

    def oracle_wires(self, p: Passage, what, replay):
        """layering facts that must hold for every genuine cell passage, judged on the real bytes only"""
        sim, ctx = self.sim, self.ctx
        plain = p.msg
        counts = []
        bodies = []
        for (src, dst, cid, pt, re, body) in p.wires:
            if pt:
                if not plain or plain[0] not in (2, 3):
                    ctx.oracle_fail("send_cell:plaintext-flag", f"{self.tag}: {what}: cell with message id {plain[:1].hex()} sent "
                                    f"flagged plaintext on link {src}>{dst}", replay)
                continue
            if body == plain or (len(plain) >= 12 and plain[1:] in body):
                ctx.oracle_fail("link:plaintext-visible", f"{self.tag}: {what}: plaintext visible on link {src}>{dst}", replay)
                counts.append(0)
                bodies.append(body)
                continue
            pl = sim.peel(body, plain)
            if pl and pl[-1] == "?":
                ctx.oracle_fail("link:not-layered", f"{self.tag}: {what}: body on link {src}>{dst} does not peel to the sent "
                                "message under the session keys of the nodes", replay)
                continue
            counts.append(len(pl))
            bodies.append(body)
        while sim.nonce_reuse:
            kid, ds, nonce = sim.nonce_reuse.pop()
            ctx.oracle_fail("aead:nonce-reuse", f"{self.tag}: {what}: explicit nonce {nonce} used twice under key {kid}{ds}", replay)
        while sim.family_errors:
            idx, cid, dest, v6 = sim.family_errors.pop()
            ctx.oracle_fail("exit_socket:wrong-transport", f"{self.tag}: {what}: exit socket {cid} of node {idx} handed a datagram for {dest} "
                            f"to its {'IPv6' if v6 else 'IPv4'} socket", replay)
        if len(set(bodies)) != len(bodies):
            ctx.oracle_fail("link:same-ciphertext-twice", f"{self.tag}: {what}: identical ciphertext on two links", replay)
        for a in range(len(bodies)):
            for b in range(len(bodies)):
                if a != b and len(bodies[b]) >= 24 and bodies[b] in bodies[a]:
                    ctx.oracle_fail("link:same-ciphertext-twice", f"{self.tag}: {what}: ciphertext of one link embedded in another link's", replay)
        p.layer_counts = counts

    # -- ops ----------------------------------------------------------------------------------------------------
    async def op_data_fwd(self, circ, onode, size, dht_like, expect_exit, kind="data_fwd", tamper=None):
        sim, ctx = self.sim, self.ctx
        ov = sim.nodes[onode].overlay
        payload = rand_payload(sim.rng, size, dht_like)
        dest = ("8.8.4.4", 1000 + sim.rng.randrange(60000))
        replay = {"scenario": self.tag, "op": kind, "size": size, "payload": payload.hex(), "tamper": str(tamper)}
        first = len(sim.passages)
        sim.op_first_pid = first
        n_exit = len(sim.exit_log)
        ov.send_data(circ.hop.address, circ.circuit_id, dest, ZERO, payload)
        await sim.settle()
        return first, payload, dest, sim.exit_log[n_exit:], replay

    def layer_monotone(self, p: Passage, direction, what, replay, e2e=False):
        cs = getattr(p, "layer_counts", [])
        if not cs:
            return
        seq = cs if direction == "fwd" else list(reversed(cs))
        # toward the exit every link carries exactly one layer less; on an e2e path the rendezvous swaps one layer
        bad = False
        for a, b in zip(seq, seq[1:]):
            if e2e:
                if a - b not in (0, 1):
                    bad = True
            elif a - b != 1:
                bad = True
        if seq[-1] < 1:
            bad = True
        if bad:
            self.ctx.oracle_fail("link:layer-count", f"{self.tag}: {what}: layers per link {cs} do not decrease by one toward the exit", replay)


# ------------------------------------------------------------------------------------------------------------------
def payload_classes(rng, own_prefix: bytes):
    """one payload of every class that on_data / the exit's DataChecker distinguishes"""
    rb = lambda n: bytes(rng.getrandbits(8) for _ in range(n))  # noqa: E731
    other2 = b"\x00\x02" + rb(20)
    other1 = b"\x00\x01" + rb(20)
    return {
        "empty": b"",
        "short": rand_payload(rng, rng.randrange(1, 23)),
        "random": rand_payload(rng, rng.choice([23, 64, 300, 1400])),
        "zeros": b"\x00" * rng.choice([23, 40]),
        "ipv8-other-23": other2 + b"\xee",
        "ipv8-other-long": other2 + b"\xee" + rb(rng.choice([30, 277, 1200])),
        "ipv8-v1": other1 + b"\xee" + rb(10),
        "ipv8-own": own_prefix + b"\xee" + rb(rng.choice([0, 30, 400])),
        "ipv8-own-msg17": own_prefix + b"\x11" + rb(rng.choice([3, 30])),     # peers-request id: registered from_exit in hidden services
        "ipv8-own-msg1": own_prefix + b"\x01" + rb(30),
        "ipv8-short22": other2,
        "utp": b"\x01\x00" + rb(30),
        "tracker": struct.pack("!I", rng.randrange(4)) + rb(12),
        "dht": b"d" + rb(rng.choice([1, 50])) + b"e",
    }


def exit_ids(ov) -> str:
    return "[" + ",".join(str(i) for i in sorted(getattr(ov, "exit_msg_ids", ()))) + "]"


CT = {"DATA": "data", "IP_SEEDER": "ip", "RP_SEEDER": "rps", "RP_DOWNLOADER": "rpd"}


async def class_round(ctx: Ctx, rng, ck: Checker, sim: Sim, kind: str, send, recv_node: int, recv_circ, origin):
    """data entering a circuit at the far end (exit socket / other e2e end) and arriving at the circuit's owner
    `recv_node`: for every payload class the owner must hand the identical bytes, once, with the right origin and
    circuit, to the sink that the circuit TYPE prescribes (on_raw_data for everything on e2e circuits)."""
    from ipv8.messaging.anonymization.endpoint import TunnelEndpoint
    tag = ck.tag
    ov = sim.nodes[recv_node].overlay
    pfx = ov.get_prefix()
    tep = isinstance(ov.endpoint, TunnelEndpoint)
    ct = CT[recv_circ.ctype]
    e2e = ct in ("rps", "rpd")
    for cname, payload in payload_classes(rng, pfx).items():
        replay = {"scenario": tag, "op": "data_class", "kind": kind, "class": cname, "ctype": ct, "payload": payload.hex(),
                  "receiver": recv_node}
        first = len(sim.passages)
        sim.op_first_pid = first
        n_raw, n_op, n_exit = len(sim.raw_log), len(sim.opfc_log), len(sim.exit_log)
        send(payload)
        await sim.settle()
        ck.check_passages(first, f"{kind} class {cname}", replay)
        raws = sim.raw_log[n_raw:]
        reinj = [o for o in sim.opfc_log[n_op:] if o[0] == recv_node and o[3] == payload]
        is8 = len(payload) >= 23 and payload[0:1] == b"\x00" and payload[1:2] in (b"\x01", b"\x02")
        good_raw = raws == [(recv_node, recv_circ.circuit_id, tuple(origin), payload)]
        if raws and not good_raw:
            ctx.oracle_fail("on_data:wrong-delivery", f"{tag}: {kind}, {cname} payload on a {ct} circuit: on_raw_data got "
                            f"{[(r[0], r[1], r[2], len(r[3])) for r in raws]}, not the payload once from {tuple(origin)} on circuit "
                            f"{recv_circ.circuit_id}", replay)
        if e2e or not is8:
            # the property: delivered intact, exactly once, to on_raw_data
            if not good_raw or reinj:
                ctx.oracle_fail("on_data:not-raw", f"{tag}: {kind}, {cname} payload ({len(payload)} bytes) sent into a ready {ct} circuit did not "
                                f"reach on_raw_data exactly once unmodified (raw deliveries {len(raws)}, re-injected as packet {len(reinj)})", replay)
            seen = "raw" if good_raw and not reinj else "other"
        else:
            good_re = reinj == [(recv_node, recv_circ.circuit_id, tuple(origin), payload)]
            seen = "raw" if raws else "ownPacket" if good_re else "dropped" if not reinj else "other"
            if payload[:22] == pfx and reinj and not good_re:
                ctx.oracle_fail("on_data:own-packet", f"{tag}: {kind}, tunnel-community packet returned through a {ct} circuit was "
                                "re-injected altered, more than once or with another origin / circuit", replay)
            if payload[:22] == pfx and reinj and payload[22] not in getattr(ov, "exit_msg_ids", ()):
                ctx.oracle_fail("on_data:nested-redispatch", f"{tag}: {kind}, a cell message (id {payload[22]}) nested in returned data was "
                                "dispatched with the sender-chosen origin although it is not registered to arrive through an exit", replay)
        if sim.exit_log[n_exit:]:
            ctx.oracle_fail("on_data:exited", f"{tag}: {kind}, {cname}: data for the circuit owner left through an exit socket", replay)
        ctx.count(f"class:{kind}:{cname}:{seen}")
        if ck.drv is not None:
            m = ck.ask(f"sink {ct} {pfx.hex()} {int(tep)} 1 {payload.hex() or '-'} {exit_ids(ov)}")
            if m != seen:
                ctx.disagree(f"{tag}: {kind}, {cname} payload on a {ct} circuit: model sink {m} != implementation {seen}",
                             {**replay, "model": m, "impl": seen})
        ctx.case(("class", kind, ct, cname), True)


async def nested_round(ctx: Ctx, rng, ck: Checker, sim: Sim, kind: str, xs, recv_node: int, recv_circ, other_cids):
    """A host on the Internet answers through the exit with a packet that carries the tunnel community's prefix and a cell
    message inside (DATA for one of the owner's circuit ids claiming some origin, PING, TEST-REQUEST...).  The owner
    re-dispatches such packets with the Internet host as the delivering peer; nothing in them may be taken for circuit
    data unless that peer's FULL address is the circuit's first hop."""
    from ipv8.messaging.anonymization.endpoint import TunnelEndpoint
    from ipv8.messaging.anonymization.payload import DataPayload, PingPayload, TestRequestPayload
    tag = ck.tag
    ov = sim.nodes[recv_node].overlay
    pfx = ov.get_prefix()
    ser = ov.serializer
    hop = tuple(recv_circ.hop.address)
    hop_ip_n = struct.unpack("!I", bytes(int(x) for x in hop[0].split(".")))[0]
    srcs = {"unrelated": ("9.9.9.9", 2000 + rng.randrange(60000)),
            "hop-ip-other-port": (hop[0], (hop[1] + 1 + rng.randrange(1000)) % 65536 or 1),
            "hop-exact": hop}
    claimed = ("66.66.66.66", 6666)
    for sname, src in srcs.items():
        inner_cids = {"same": recv_circ.circuit_id, "unknown": (recv_circ.circuit_id + 12345) & 0xffffffff}
        if other_cids:
            inner_cids["other"] = other_cids[0]
        msgs = {}
        for cname, icid in inner_cids.items():
            secret = rand_payload(rng, rng.choice([5, 60]))
            msgs[f"data-{cname}"] = (icid, secret, pfx + bytes([1]) + ser.pack_serializable(DataPayload(icid, ZERO, claimed, secret)))
        msgs["ping"] = (recv_circ.circuit_id, None, pfx + bytes([6]) + ser.pack_serializable(PingPayload(recv_circ.circuit_id, 77)))
        msgs["test"] = (recv_circ.circuit_id, None, pfx + bytes([19]) + ser.pack_serializable(
            TestRequestPayload(recv_circ.circuit_id, 5, 10, b"xx")))
        for mname, (icid, secret, packet) in msgs.items():
            replay = {"scenario": tag, "op": "nested", "kind": kind, "source": sname, "inner": mname, "src": list(src),
                      "first_hop": list(hop), "packet": packet.hex()}
            first = len(sim.passages)
            sim.op_first_pid = first
            n_raw, n_op = len(sim.raw_log), len(sim.opfc_log)
            xs.tunnel_data(src, packet)
            await sim.settle()
            ck.check_passages(first, f"nested {mname} from {sname}", replay)
            raws = sim.raw_log[n_raw:]
            # a DATA message nested in a returned tunnel-community packet is never circuit data (its "delivering peer" would be
            # the sender-chosen origin); other nested cell messages are re-dispatched but must not produce circuit data either
            if raws:
                ctx.oracle_fail("on_data:foreign-origin-accepted", f"{tag}: a {mname} message nested in a returned tunnel packet, delivered by "
                                f"{src} ({sname}; first hop is {hop}), was handed to on_raw_data as data of circuit {raws[0][1]} from {raws[0][2]}", replay)
            ctx.count(f"nested:{sname}:{mname}:{'raw' if raws else 'none'}")
            if ck.drv is not None:
                m = ck.ask(f"sink {CT[recv_circ.ctype]} {pfx.hex()} {int(isinstance(ov.endpoint, TunnelEndpoint))} 1 {packet.hex()} {exit_ids(ov)}")
                reinj = [o for o in sim.opfc_log[n_op:] if o[0] == recv_node and o[3] == packet]
                seen = "raw" if raws else "ownPacket" if reinj else "dropped"
                if m != seen:
                    ctx.disagree(f"{tag}: nested {mname} from {sname}: model sink {m} != implementation {seen}", {**replay, "model": m, "impl": seen})
            ctx.case(("nested", kind, sname, mname), True)


async def class_round_exit(ctx: Ctx, rng, ck: Checker, sim: Sim, kind: str, send, exit_node, exit_cid, ctname):
    """data sent by the owner of a circuit toward the exit: for every payload class the exit's outside socket must be
    handed exactly the payload (when the exit's policy lets that class out at all)."""
    tag = ck.tag
    pfx = sim.nodes[0].overlay.get_prefix()
    for cname, payload in payload_classes(rng, pfx).items():
        dest = ("8.8.4.4", 1000 + rng.randrange(60000))
        replay = {"scenario": tag, "op": "data_class_exit", "kind": kind, "class": cname, "payload": payload.hex()}
        first = len(sim.passages)
        sim.op_first_pid = first
        n_exit, n_raw = len(sim.exit_log), len(sim.raw_log)
        xs = sim.nodes[exit_node].overlay.exit_sockets.get(exit_cid)
        allowed = sim.open_policy or (xs is not None and xs.is_allowed(payload))
        send(payload, dest)
        await sim.settle()
        ck.check_passages(first, f"{kind} class {cname}", replay)
        outs = sim.exit_log[n_exit:]
        if (allowed and outs != [(exit_node, exit_cid, payload, dest)]) or (not allowed and outs) or sim.raw_log[n_raw:]:
            ctx.oracle_fail("exit_data:output", f"{tag}: {kind}, {cname} payload ({len(payload)} bytes) sent into a {ctname} circuit: exit output "
                            f"{[(o[0], o[1], len(o[2]), o[3]) for o in outs]} instead of the payload once to {dest}", replay)
        ctx.count(f"class:{kind}:{cname}:{'exit' if outs else 'filtered'}")
        ctx.case(("class", kind, ctname, cname), True)
    # destination 0.0.0.0:0 must never be exited (on_data: "Cannot exit data")
    payload = rand_payload(rng, 40)
    first = len(sim.passages)
    sim.op_first_pid = first
    n_exit = len(sim.exit_log)
    send(payload, ZERO)
    await sim.settle()
    replay = {"scenario": tag, "op": "data_class_exit", "kind": kind, "class": "zero-destination", "payload": payload.hex()}
    ck.check_passages(first, f"{kind} zero destination", replay)
    seen = "exitSocket" if sim.exit_log[n_exit:] else "dropped"
    if seen != "dropped":
        ctx.oracle_fail("exit_data:zero-destination", f"{tag}: data for 0.0.0.0:0 left the exit", replay)
    if ck.drv is not None:
        m = ck.ask(f"sink - {pfx.hex()} 0 1 {payload.hex()} []")
        m2 = ck.ask(f"sink - {pfx.hex()} 0 0 {payload.hex()} []")
        if m != seen or m2 != "exitSocket":
            ctx.disagree(f"{tag}: {kind}: exit branch of on_data: model {m}/{m2} != implementation {seen}/exitSocket", {**replay, "model": m})
    ctx.count(f"class:{kind}:zero-destination:{seen}")


async def burst_round(ctx: Ctx, rng, ck: Checker, sim: Sim, c, path, hops: int, fresh: bool):
    """k datagrams sent back-to-back into a ready circuit, to a literal IPv4 / IPv6 address or to a host NAME (resolved
    by the exit): every one of them must leave the exit's outside socket, once, unmodified, to the (resolved) address.
    `fresh` = the exit socket has not created its transports yet (datagrams wait in its queue)."""
    from ipv8.messaging.interfaces.udp.endpoint import DomainAddress, UDPv4Address, UDPv6Address
    tag = ck.tag
    ov = sim.nodes[0].overlay
    exit_node, exit_cid = path[-1]
    kinds = ["name", "ip4", "name-ports", "ip6", "mixed", "ip4", "name6", "name-ports"] if not fresh else \
        [rng.choice(["name", "ip4", "mixed", "ip6", "ip4-overflow", "name-ports"])]
    for kind in kinds:
        k = rng.choice([1, 2, 3, 5]) if kind != "ip4" or fresh else rng.choice([1, 3, 12])
        if kind == "ip4-overflow":      # more than the queue (deque(maxlen=10)) holds while the transports are created
            kind, k = "ip4", 12
        host = f"host{rng.randrange(1000)}.example"
        port = 1000 + rng.randrange(60000)
        dests = []
        if kind == "name-ports":
            k = max(k, 2)       # the same host name, several services (ports), also ones used in earlier bursts
            host = rng.choice(["tracker.example", host])
        if kind == "name6":
            host = f"host{rng.randrange(1000)}.v6"
        for i in range(k):
            dk = kind if kind != "mixed" else rng.choice(["name", "ip4"])
            if dk == "name-ports":
                pt = rng.choice([port, port + 1 + i, 6881])
                dests.append((DomainAddress(host, pt), (sim.dns(host), pt)))
            elif dk in ("name", "name6"):
                dests.append((DomainAddress(host, port), (sim.dns(host), port)))
            elif dk == "ip4":
                dests.append((UDPv4Address("8.8.4.4", port), ("8.8.4.4", port)))
            else:
                dests.append((UDPv6Address("2001:db8::1", port), ("2001:db8::1", port)))
        payloads = [b"d" + bytes([i]) + bytes(rng.getrandbits(8) for _ in range(rng.choice([0, 20, 400]))) + b"e" for i in range(k)]
        replay = {"scenario": tag, "op": "burst", "kind": kind, "k": k, "fresh": fresh, "hops": hops,
                  "payloads": [p.hex() for p in payloads], "destinations": [str(d[0]) for d in dests]}
        first = len(sim.passages)
        sim.op_first_pid = first
        n_exit = len(sim.exit_log)
        for pl, (d, _) in zip(payloads, dests):
            ov.send_data(c.hop.address, c.circuit_id, d, ZERO, pl)      # no settling in between
        await sim.settle()
        ck.check_passages(first, f"burst {kind} x{k}", replay)
        outs = sim.exit_log[n_exit:]
        want = sorted((exit_node, exit_cid, pl, res) for pl, (_, res) in zip(payloads, dests))
        overflow = fresh and k > 10
        if overflow:
            # more datagrams than today's send queue (deque(maxlen=10)) holds while the transports are being created: the
            # property does not fix that bound; judged here: nothing altered, duplicated or misdirected, and not FEWER than
            # today's 10 leave (see design.d/C04.md, exceptions)
            ok = all(o in want for o in outs) and len(set(outs)) == len(outs) and len(outs) >= 10
        else:
            ok = sorted(outs) == want
        if not ok:
            ctx.oracle_fail("exit_socket:burst-output", f"{tag}: {k} datagram(s) sent back-to-back to {kind} destination(s) over {hops} hop(s) "
                            f"(exit socket {'not yet open' if fresh else 'open'}): {len(outs)} left the exit "
                            f"({[(len(o[2]), o[3]) for o in outs]}), expected each of the {k} once", replay)
        ctx.count(f"burst:{kind}:{'fresh' if fresh else 'open'}:k{k}")
        if ck.drv is not None:
            evs = ",".join(("n" if isinstance(d, DomainAddress) else "i") for d, _ in dests)
            m = ck.ask(f"xsburst {int(not fresh)} [{evs}]")
            lost = sum(1 for pl in payloads if [o[2] for o in outs].count(pl) != 1)
            real = f"out={len(outs)} lost={lost}"
            if m != real and not (overflow and len(outs) >= 10 and lost <= 2):
                ctx.disagree(f"{tag}: burst of {k} ({kind}) into the exit socket: model `{m}` != implementation `{real}`",
                             {**replay, "model": m, "impl": real})
        ctx.case(("burst", hops, kind, fresh, k), True)


async def interleaved_fresh_round(ctx: Ctx, rng, ck: Checker, sim: Sim, circuits, paths, hops: int):
    """the FIRST datagrams of several circuits arrive while each exit socket is still creating its transports (all of them have
    datagrams waiting at the same time); a host on the mock internet answers each one.  Every datagram must leave through the
    socket of ITS circuit, and every answer must come back over the circuit that asked."""
    from ipv8.messaging.interfaces.endpoint import EndpointListener
    tag = ck.tag
    ov = sim.nodes[0].overlay

    class Echo(EndpointListener):
        def __init__(self):
            ep = sim.mep.AutoMockEndpoint()
            ep.open()
            EndpointListener.__init__(self, ep, main_thread=False)
            ep.add_listener(self)

        def on_packet(self, packet):
            self.endpoint.send(packet[0], b"d" + packet[1][1:-1] + b"!e")      # answer to whoever sent it
    echo = Echo()
    eaddr = tuple(echo.endpoint.wan_address)
    sent = {}
    first = len(sim.passages)
    sim.op_first_pid = first
    n_exit, n_raw = len(sim.exit_log), len(sim.raw_log)
    for rnd in range(2):
        for ci, c in enumerate(circuits):
            pl = b"d" + bytes([ci, rnd]) + bytes(rng.getrandbits(8) for _ in range(12)) + b"e"
            sent.setdefault(ci, []).append(pl)
            ov.send_data(c.hop.address, c.circuit_id, eaddr, ZERO, pl)          # no settling: all sockets are still closed
    await sim.settle()
    await sim.settle()
    replay = {"scenario": tag, "op": "interleaved-fresh", "hops": hops, "circuits": len(circuits),
              "payloads": {str(k): [p.hex() for p in v] for k, v in sent.items()}}
    ck.check_passages(first, "interleaved first data", replay)
    outs, raws = sim.exit_log[n_exit:], sim.raw_log[n_raw:]
    for ci, (c, path) in enumerate(zip(circuits, paths)):
        exit_node, exit_cid = path[-1]
        want_out = sorted((exit_node, exit_cid, pl, eaddr) for pl in sent[ci])
        got_out = sorted(o for o in outs if o[2] in sent[ci])
        answers = sorted(b"d" + pl[1:-1] + b"!e" for pl in sent[ci])
        got_back = sorted(r[3] for r in raws if r[1] == c.circuit_id)
        if got_out != want_out:
            ctx.oracle_fail("exit_socket:wrong-socket", f"{tag}: first datagrams of {len(circuits)} circuits sent back-to-back: those of circuit "
                            f"{c.circuit_id} left as {[(o[0], o[1]) for o in got_out]}, expected {len(sent[ci])}x through exit socket "
                            f"{exit_cid} of node {exit_node}", replay)
        if got_back != answers:
            ctx.oracle_fail("on_data:originator-input", f"{tag}: answers to the first datagrams of circuit {c.circuit_id} came back as "
                            f"{len(got_back)} datagram(s) on that circuit ({len([r for r in raws if r[3] in answers])} anywhere), expected "
                            f"{len(answers)} on that circuit", replay)
    ctx.count(f"interleaved_fresh:circuits:{len(circuits)}:same_exit:{int(len({p[-1][0] for p in paths}) == 1)}")
    ctx.case(("interleaved-fresh", hops, len(circuits)), True)


# ---------- m11 class: the exit's traffic rules at the documented minimum sizes, both directions
def spec_could_be_bt(d: bytes) -> bool:
    """written from the protocol documents quoted in DataChecker's docstrings, not from its code"""
    utp = len(d) >= 20 and (d[0] >> 4) <= 4 and (d[0] & 15) == 1 and d[1] <= 3
    tracker = (len(d) >= 8 and int.from_bytes(d[0:4], "big") <= 3) or (len(d) >= 12 and int.from_bytes(d[8:12], "big") <= 3)
    dht = len(d) > 1 and d[:1] == b"d" and d[-1:] == b"e"
    return utp or tracker or dht


def boundary_payloads(rng):
    rb = lambda n: bytes(rng.getrandbits(8) for _ in range(n))  # noqa: E731
    hi = lambda: bytes([0x80 | rng.getrandbits(7)]) + rb(3)     # noqa: E731  a first word > 3 that is no uTP header
    act = lambda: struct.pack("!I", rng.randrange(4))           # noqa: E731
    return {
        "tracker-8": act() + rb(4), "tracker-7": act() + rb(3), "tracker-9": act() + rb(5),
        "tracker-off8-12": hi() + rb(4) + act(), "tracker-off8-11": hi() + rb(4) + act()[:3],
        "utp-20": bytes([(rng.randrange(5) << 4) | 1, rng.randrange(4)]) + b"\xff" * 6 + hi() + rb(6),
        "utp-19": bytes([(rng.randrange(5) << 4) | 1, rng.randrange(4)]) + b"\xff" * 6 + hi() + rb(5),
        "dht-2": b"de", "dht-1": b"d", "dht-3": b"d" + rb(1)[:1].replace(b"e", b"f") + b"e",
        "none-40": hi() + b"\xff" * 4 + hi() + rb(28),
    }


async def policy_boundary_round(ctx: Ctx, rng, ck: Checker, sim: Sim, c, path, hops: int):
    """real exit policy (BT exit): datagrams at and just below the minimum size of each recognised protocol, sent out through
    the exit and returned through it (`is_allowed` is applied in both directions)"""
    tag = ck.tag
    ov = sim.nodes[0].overlay
    exit_node, exit_cid = path[-1]
    xo = sim.nodes[exit_node].overlay
    xs = xo.exit_sockets.get(exit_cid)
    from ipv8.messaging.anonymization.tunnel import PEER_FLAG_EXIT_BT, PEER_FLAG_EXIT_IPV8
    bt, v8 = PEER_FLAG_EXIT_BT in xo.settings.peer_flags, PEER_FLAG_EXIT_IPV8 in xo.settings.peer_flags
    for name, payload in boundary_payloads(rng).items():
        allowed = spec_could_be_bt(payload) and bt
        for direction in ("fwd", "bwd"):
            replay = {"scenario": tag, "op": "policy-boundary", "class": name, "direction": direction, "payload": payload.hex(),
                      "hops": hops}
            first = len(sim.passages)
            sim.op_first_pid = first
            n_exit, n_raw = len(sim.exit_log), len(sim.raw_log)
            dest, src = ("8.8.4.4", 1000 + rng.randrange(60000)), ("9.9.9.9", 1000 + rng.randrange(60000))
            if direction == "fwd":
                ov.send_data(c.hop.address, c.circuit_id, dest, ZERO, payload)
            elif getattr(xs, "transport_ipv4", None) is not None:
                xs.transport_ipv4.proto.datagram_received(payload, src)
            else:
                continue
            await sim.settle()
            ck.check_passages(first, f"policy boundary {name} {direction}", replay)
            outs, raws = sim.exit_log[n_exit:], sim.raw_log[n_raw:]
            got = outs == [(exit_node, exit_cid, payload, dest)] if direction == "fwd" else raws == [(0, c.circuit_id, src, payload)]
            if allowed and not got:
                ctx.oracle_fail("exit_policy:allowed-traffic-lost", f"{tag}: {name} ({len(payload)} bytes, BitTorrent traffic by the protocol's "
                                f"minimum size) {'sent into the circuit did not leave the BT exit' if direction == 'fwd' else 'returned to the BT exit did not arrive at the originator'}",
                                replay)
            if (outs or raws) and not got:
                ctx.oracle_fail("exit_data:output", f"{tag}: {name} {direction}: wrong output", replay)
            ctx.count(f"policy_boundary:{name}:{direction}:{'passed' if (outs or raws) else 'filtered'}")
            if ck.drv is not None:
                m = ck.ask(f"allowed {int(bt)} {int(v8)} {xo.get_prefix().hex()} {payload.hex() or '-'}")
                real = str(int(bool(xs.is_allowed(payload))))
                if m != real:
                    ctx.disagree(f"{tag}: exit policy for {name} ({payload.hex()}): model {m} != implementation {real}", {**replay, "model": m, "impl": real})
            ctx.case(("policy-boundary", name, direction), True)


# ------------------------------------------------------------------------------------------------------------------
async def build_plain(ctx: Ctx, rng, hops: int, n_circuits: int, open_policy: bool):
    from ipv8.messaging.anonymization.tunnel import PEER_FLAG_EXIT_BT, PEER_FLAG_RELAY, PEER_FLAG_SPEED_TEST
    sim = Sim(rng, hidden=False, open_policy=open_policy)
    n_nodes = hops + 1 + (1 if rng.random() < 0.5 else 0)
    for i in range(n_nodes):
        sim.add_node()
    # exits: one or two nodes (never the originator)
    exits = rng.sample(range(1, n_nodes), 1 if hops > 1 or n_nodes == 2 else min(2, n_nodes - 1))
    for e in exits:
        sim.nodes[e].overlay.settings.peer_flags = {PEER_FLAG_RELAY, PEER_FLAG_SPEED_TEST, PEER_FLAG_EXIT_BT}
    await sim.introduce()
    circuits = []
    for _ in range(n_circuits):
        c = sim.nodes[0].overlay.create_circuit(hops)
        if c is None:
            break
        await sim.settle(0.05)
        if c.state == "READY" and len(c.hops) == hops:
            circuits.append(c)
    for p in sim.passages:
        p.setup = True
    sim.wrap_exits()
    return sim, circuits


def path_of(sim: Sim, onode: int, circ):
    """[(node idx, cid on the link INTO that node)] for the hops of a plain circuit, following the real relay tables"""
    path = []
    node = sim.addr2idx.get(tuple(circ.hop.address), 999)
    cid = circ.circuit_id
    for _ in range(8):
        if node == 999:
            break
        path.append((node, cid))
        r = sim.nodes[node].overlay.relay_from_to.get(cid)
        if r is None:
            break
        cid, node = r.circuit_id, sim.addr2idx.get(tuple(r.hop.address), 999)
    return path


def make_flip(pos, rng):
    x = rng.randrange(1, 256)

    def fn(pkt):
        if pos >= len(pkt):
            return pkt
        b = bytearray(pkt)
        b[pos] ^= x
        return bytes(b)
    return fn


def positions(ctx: Ctx, rng, pkt_len: int, all_bytes: bool):
    hdr = list(range(0, 29))
    body = list(range(29, pkt_len))
    if all_bytes:
        return hdr + body
    pick = set()
    if body:
        pick.update([29, 36, 37, pkt_len - 17, pkt_len - 16, pkt_len - 1])
        pick.update(rng.sample(body, min(len(body), ctx.scale(4, 12))))
    return rng.sample(range(22), ctx.scale(2, 8)) + list(range(22, 29)) + sorted(x for x in pick if 29 <= x < pkt_len)


async def run_plain(ctx: Ctx, rng, hops: int, use_model: bool, seed_tag: str, all_bytes_sizes=()):
    open_policy = rng.random() < 0.6
    sim, circuits = await build_plain(ctx, rng, hops, 2, open_policy)
    tag = f"plain/{hops}hop/{seed_tag}"
    ck = Checker(ctx, sim, use_model, tag)
    try:
        if not circuits:
            ctx.oracle_fail("create_circuit:not-ready", f"{tag}: no {hops}-hop circuit became ready on a loss-free network",
                            {"scenario": tag, "hops": hops})
            return
        ctx.count(f"scenario:plain:{hops}hop")
        ctx.count(f"circuits_ready:{len(circuits)}")
        ctx.count(f"exit_policy:{'open' if open_policy else 'real'}")
        # oracle over the set-up traffic: only create/created plaintext, everything else layered
        sim.key_ids()
        for p in sim.passages:
            if p.kind == "cell":
                ck.oracle_wires(p, "set-up", {"scenario": tag, "op": "setup", "msg_id": p.msg[:1].hex()})
                ctx.count(f"setup_msg:{p.msg[0] if p.msg else -1}")
        ck.load_tables()
        ov = sim.nodes[0].overlay
        paths = [path_of(sim, 0, c) for c in circuits]
        for c, path in zip(circuits, paths):
            if len(path) != hops:
                ctx.oracle_fail("circuit:path-length", f"{tag}: circuit {c.circuit_id} has {len(c.hops)} hops but its relay chain has {len(path)} nodes",
                                {"scenario": tag})
                return
        if ck.drv is not None:
            # the hypotheses of forward_delivers / backward_delivers (FwdChain / BwdChain), decided on the real tables
            for c, path in zip(circuits, paths):
                nodes = [n for n, _ in path]
                rf = ck.ask(f"chainf 0 {c.circuit_id} [{','.join(map(str, nodes))}]")
                rb = ck.ask(f"chainb {path[-1][0]} {path[-1][1]} [{','.join(map(str, [*reversed(nodes[:-1]), 0]))}]")
                ctx.count(f"chain_hypothesis:{'ok' if rf.startswith('ok') and rb.startswith('ok') else 'no'}")
                if rf != f"ok {path[-1][0]} {path[-1][1]}" or rb != f"ok 0 {c.circuit_id}":
                    ctx.disagree(f"{tag}: the tables built for circuit {c.circuit_id} do not satisfy the path hypotheses of the theorems "
                                 f"(FwdChain: {rf}, BwdChain: {rb})", {"scenario": tag, "hops": hops, "tables": sim.tables()[0]})
        sizes = [rng.choice(SIZES) for _ in range(ctx.scale(5, 12))] + [0, 1500] + ([4096] if ctx.thorough() else [])
        # ---- bursts into an exit socket that has not opened its transports yet ---------------------------------
        if len(circuits) > 1 and rng.random() < 0.6:
            await interleaved_fresh_round(ctx, rng, ck, sim, circuits, paths, hops)
        elif len(circuits) > 1:
            await burst_round(ctx, rng, ck, sim, circuits[1], paths[1], hops, fresh=True)
        # ---- genuine traffic -------------------------------------------------------------------------------
        for ci, (c, path) in enumerate(zip(circuits, paths)):
            exit_node, exit_cid = path[-1]
            for size in sizes:
                dht_like = not open_policy
                first, payload, dest, outs, replay = await ck.op_data_fwd(c, 0, size, dht_like, True)
                ck.check_passages(first, f"data fwd size {size}", replay)
                root = sim.passages[first]
                ck.layer_monotone(root, "fwd", f"data fwd size {size}", replay)
                allowed = open_policy or size >= 2
                good = [o for o in outs if o == (exit_node, exit_cid, payload, dest)]
                if allowed and (len(outs) != 1 or len(good) != 1):
                    ctx.oracle_fail("exit_data:output", f"{tag}: data of size {size} sent into {hops}-hop circuit: exit output {[(o[0], o[1], len(o[2])) for o in outs]} "
                                    f"instead of the payload once at node {exit_node} circuit {exit_cid}", replay)
                if len(root.wires) != hops:
                    ctx.oracle_fail("circuit:links", f"{tag}: forward data cell crossed {len(root.wires)} links on a {hops}-hop circuit", replay)
                ctx.case((tag.split('/')[0], hops, "data_fwd", size), True)
                ctx.count(f"op:data_fwd:size_class:{size_class(size)}")
                # backward
                src = ("9.9.9.9", 2000 + rng.randrange(60000))
                back = rand_payload(rng, size, False)
                replay = {"scenario": tag, "op": "data_bwd", "size": size, "payload": back.hex()}
                first = len(sim.passages)
                sim.op_first_pid = first
                n_raw = len(sim.raw_log)
                xs = sim.nodes[exit_node].overlay.exit_sockets.get(exit_cid)
                if xs is None:
                    ctx.oracle_fail("exit_socket:missing", f"{tag}: exit socket {exit_cid} missing at node {exit_node}", replay)
                    continue
                t4 = getattr(xs, "transport_ipv4", None)
                if t4 is not None and (open_policy or size >= 2):
                    # as a datagram arriving on the exit's outside socket (datagram_received -> policy -> tunnel_data)
                    back = rand_payload(rng, size, not open_policy)
                    replay["payload"] = back.hex()
                    t4.proto.datagram_received(back, src)
                    ctx.count("data_bwd:via-socket")
                else:
                    xs.tunnel_data(src, back)
                    ctx.count("data_bwd:via-tunnel_data")
                await sim.settle()
                ck.check_passages(first, f"data bwd size {size}", replay)
                ck.layer_monotone(sim.passages[first], "bwd", f"data bwd size {size}", replay)
                got = sim.raw_log[n_raw:]
                if got != [(0, c.circuit_id, src, back)]:
                    ctx.oracle_fail("on_data:originator-input", f"{tag}: data of size {size} returned through the exit: originator got "
                                    f"{[(g[0], g[1], g[2], len(g[3])) for g in got]} instead of the payload once from {src} on circuit {c.circuit_id}", replay)
                ctx.case((tag.split('/')[0], hops, "data_bwd", size), True)
                ctx.count(f"op:data_bwd:size_class:{size_class(size)}")
            # ping / pong
            from ipv8.messaging.anonymization.caches import PingRequestCache
            first = len(sim.passages)
            sim.op_first_pid = first
            ov.do_ping(exclude=[x.circuit_id for x in circuits if x is not c])
            await sim.settle()
            replay = {"scenario": tag, "op": "ping", "circuit": ci}
            ck.check_passages(first, "ping", replay)
            ps = [p for p in sim.passages[first:] if p.kind == "cell"]
            if len(ps) != 2 or not ps[0].delivered or ps[0].delivered[0][0] != exit_node or not ps[1].delivered \
                    or ps[1].delivered[0][:2] != (0, c.circuit_id):
                ctx.oracle_fail("ping:roundtrip", f"{tag}: ping over a {hops}-hop circuit did not reach the exit and return as a pong", replay)
            for p in ps:
                ck.layer_monotone(p, "fwd" if p.node == 0 else "bwd", "ping", replay)
            ctx.case((tag.split('/')[0], hops, "ping"), True)
            ctx.count("op:ping")
            # speed test request / response
            rs, ps_ = rng.choice([0, 10, 400]), rng.choice([0, 7, 900])
            first = len(sim.passages)
            sim.op_first_pid = first
            fut = ov.send_test_request(c, rs, ps_)
            await sim.settle()
            replay = {"scenario": tag, "op": "test", "request": rs, "response": ps_}
            ck.check_passages(first, "test-request", replay)
            ps = [p for p in sim.passages[first:] if p.kind == "cell"]
            ok = fut.done() and not fut.cancelled() and fut.exception() is None and len(fut.result()[0]) == ps_
            if ok and len(ps) == 2:
                # the response data handed to the originator must be the bytes the exit put into the response
                sent = ps[1].msg
                if fut.result()[0] != sent[len(sent) - ps_:] and ps_:
                    ok = False
            if not ok:
                ctx.oracle_fail("test_request:roundtrip", f"{tag}: test-request({rs},{ps_}) over {hops} hops: no or wrong response", replay)
            if not fut.done():
                fut.cancel()
            ctx.case((tag.split('/')[0], hops, "test", rs, ps_), True)
            ctx.count("op:test_request")
        await burst_round(ctx, rng, ck, sim, circuits[0], paths[0], hops, fresh=False)
        if not open_policy:
            await policy_boundary_round(ctx, rng, ck, sim, circuits[0], paths[0], hops)
        # ---- every payload class, both directions --------------------------------------------------------------
        for c, path in zip(circuits, paths):
            exit_node, exit_cid = path[-1]
            src = ("9.9.9.9", 2000 + rng.randrange(60000))
            xs = sim.nodes[exit_node].overlay.exit_sockets.get(exit_cid)
            await class_round(ctx, rng, ck, sim, "plain-bwd", lambda pl, xs=xs, src=src: xs.tunnel_data(src, pl), 0, c, src)
            await nested_round(ctx, rng, ck, sim, "plain", xs, 0, c, [x.circuit_id for x in circuits if x is not c])
            await class_round_exit(ctx, rng, ck, sim, "plain-fwd",
                                   lambda pl, dest, c=c: ov.send_data(c.hop.address, c.circuit_id, dest, ZERO, pl),
                                   exit_node, exit_cid, "data")
        ck.compare_tables("after genuine traffic")
        # ---- altered cells ------------------------------------------------------------------------------------
        await v6_return_round(ctx, rng, ck, sim, circuits[0], paths[0])
        await tamper_round(ctx, rng, ck, sim, plain_senders(sim, circuits[0], paths[0]), hops, open_policy, all_bytes_sizes)
        await tamper_shapes(ctx, rng, ck, sim, plain_senders(sim, circuits[0], paths[0]), hops, open_policy, "plain")
        # ---- injected cells -----------------------------------------------------------------------------------
        await inject_round(ctx, rng, ck, sim, circuits, paths, hops)
        await other_address_round(ctx, rng, ck, sim, circuits[0], paths[0])
        await create_under_own_id_round(ctx, rng, ck, sim, paths[0][0][0], 0, circuits[0], "plain")
        ck.compare_tables("at the end")
        for e in sim.loop_errors:
            ctx.count(f"loop_error:{e}")
    finally:
        if ck.drv is not None:
            ck.drv.close()
        await sim.stop()


def size_class(n):
    return "0" if n == 0 else "1-24" if n <= 24 else "25-279" if n <= 279 else "280-1472" if n <= 1472 else ">1472"


def pos_class(pos):
    return ("prefix" if pos < 22 else "msgid" if pos == 22 else "cid" if pos < 27 else "ptflag" if pos == 27
            else "earlyflag" if pos == 28 else "nonce" if pos < 37 else "body")


def plain_senders(sim: Sim, c, path):
    ov = sim.nodes[0].overlay
    exit_node, exit_cid = path[-1]

    def fwd(payload):
        ov.send_data(c.hop.address, c.circuit_id, ("8.8.4.4", 4242), ZERO, payload)

    def bwd(payload):
        sim.nodes[exit_node].overlay.exit_sockets.get(exit_cid).tunnel_data(("9.9.9.9", 999), payload)
    return {"fwd": fwd, "bwd": bwd}


async def tamper_round(ctx, rng, ck: Checker, sim: Sim, senders, hops, open_policy, all_bytes_sizes, kindtag="plain"):
    tag = ck.tag
    plan = []
    for direction in ("fwd", "bwd"):
        for link in range(hops):
            for size in ([rng.choice([0, 17, 100, 279])] + list(all_bytes_sizes)):
                plan.append((direction, link, size, size in all_bytes_sizes))
    for (direction, link, size, allb) in plan:
        wire_index = link if direction == "fwd" else hops - 1 - link
        # a genuine probe of the same size tells how long the datagram on that link is
        first = len(sim.passages)
        sim.op_first_pid = first
        probe = rand_payload(rng, size, not open_policy)
        senders[direction](probe)
        await sim.settle()
        ck.check_passages(first, "probe", {"scenario": tag, "op": "probe", "size": size})
        pw = sim.passages[first].wires
        if len(pw) <= wire_index:
            ctx.oracle_fail("tamper:link-missing", f"{tag}: {direction} data cell never appeared on link {link}", {"scenario": tag, "hops": hops})
            continue
        pkt_len = 29 + len(pw[wire_index][5])
        for pos in positions(ctx, rng, pkt_len, allb):
            payload = rand_payload(rng, size, not open_policy)
            first = len(sim.passages)
            sim.op_first_pid = first
            n_exit, n_raw = len(sim.exit_log), len(sim.raw_log)
            replay = {"scenario": tag, "op": "tamper", "direction": direction, "link": link, "pos": pos, "size": size,
                      "hops": hops, "payload": payload.hex()}
            holder = {}

            def fn(pkt, pos=pos, holder=holder):
                holder["orig"] = pkt
                new = make_flip(pos, rng)(pkt)
                holder["new"] = new
                return new
            sim.tamper = (0, wire_index, fn)
            senders[direction](payload)
            await sim.settle()
            sim.tamper = None
            if "new" not in holder:
                ctx.oracle_fail("tamper:link-missing", f"{tag}: {direction} data cell never appeared on link {link}", replay)
                continue
            replay["datagram"] = holder["new"].hex()
            root = sim.passages[first]
            root.tampered = wire_index + 1      # the model stops the genuine cell after this many wires
            inj = [p for p in sim.passages[first:] if p.kind == "inject"]
            outs, raws = sim.exit_log[n_exit:], sim.raw_log[n_raw:]
            delivered_any = any(p.delivered for p in sim.passages[first:])
            pc = pos_class(pos)
            ctx.count(f"tamper:{direction}:{pc}")
            altered_out = [o for o in outs if o[2] != payload] + [r for r in raws if r[3] != payload]
            if altered_out:
                ctx.oracle_fail("tamper:altered-data-delivered", f"{tag}: byte {pos} ({pc}) altered on link {link} ({direction}): altered data was delivered", replay)
            elif pc != "earlyflag" and (outs or raws or delivered_any):
                ctx.oracle_fail("tamper:altered-cell-delivered", f"{tag}: byte {pos} ({pc}) altered on link {link} ({direction}): the cell was still delivered", replay)
            ctx.count(f"tamper_outcome:{pc}:{'delivered' if (outs or raws) else 'dropped'}")
            # correspondence: genuine part (cut) + the altered datagram as an injection
            if ck.drv is not None:
                ck.check_passages(first, f"tamper {direction} link {link} pos {pos}", replay)
                if pos >= 23 and inj:
                    q = inj[0]
                    new = holder["new"]
                    cid, pt, re = struct.unpack_from("!I??", new, 23)
                    src_n, dst_n = root.wires[wire_index][0], root.wires[wire_index][1]
                    if pos >= 29:
                        if sim.decrypts_under_any(new[29:]):
                            ctx.oracle_fail("aead:forgery", f"{tag}: altered body decrypts under a session key", replay)
                        spec, inner = f"G{len(new) - 29}", "-"
                        plain = None
                    else:
                        pl = sim.peel(new[29:], root.msg)
                        spec, inner = "[" + ",".join(pl) + "]", root.msg.hex()
                        plain = root.msg
                        if pl and pl[-1] == "?":
                            raise InfraError("genuine body does not peel")
                    m = ck.ask(f"inject {dst_n} {src_n} {cid} {int(pt)} {int(re)} {spec} {inner}")
                    mw, mfin, reason = canon_model(m)
                    real = real_trace(sim, q, plain)
                    last = q.wires[-1][1] if q.wires else dst_n
                    fin = real_final(q, last)
                    ctx.count(f"model_final:{reason}")
                    if not traces_agree(mw, mfin, real, fin):
                        ctx.disagree(f"{tag}: altered byte {pos} on link {link} ({direction}): model {mw} {mfin} != implementation {real} {fin}",
                                     {**replay, "model": m, "impl": real + [fin]})
            ctx.case((kindtag, hops, "tamper", direction, link, pc, size if allb else 0), True)


async def tamper_shapes(ctx, rng, ck: Checker, sim: Sim, senders, nlinks, open_policy, kindtag):
    """alterations other than one flipped byte: truncation, extension, authentication tag cut off, plaintext flag set together
    with a first body byte of 2/3 (so that the cell claims to be a plaintext create/created)"""
    tag = ck.tag
    shapes = ["truncate", "extend", "flag+create", "flag+created", "drop-tag"]
    for direction in ("fwd", "bwd"):
        for link in range(nlinks):
            wire_index = link if direction == "fwd" else nlinks - 1 - link
            for shape in shapes:
                payload = rand_payload(rng, rng.choice([0, 30, 200]), not open_policy)
                holder = {}

                def fn(pkt, shape=shape, holder=holder):
                    b = bytearray(pkt)
                    if shape == "truncate":
                        b = b[:max(29, len(b) - rng.randrange(1, 40))]
                    elif shape == "drop-tag":
                        b = b[:len(b) - 16]
                    elif shape == "extend":
                        b += bytes(rng.getrandbits(8) for _ in range(rng.randrange(1, 40)))
                    else:
                        b[27] = 1
                        if len(b) > 29:
                            b[29] = 2 if shape == "flag+create" else 3
                    holder["new"] = bytes(b)
                    return bytes(b)
                first = len(sim.passages)
                sim.op_first_pid = first
                n_exit, n_raw = len(sim.exit_log), len(sim.raw_log)
                sim.tamper = (0, wire_index, fn)
                senders[direction](payload)
                await sim.settle()
                sim.tamper = None
                if "new" not in holder:
                    continue
                new = holder["new"]
                replay = {"scenario": tag, "op": "tamper-shape", "shape": shape, "direction": direction, "link": link,
                          "payload": payload.hex(), "datagram": new.hex()}
                root = sim.passages[first]
                root.tampered = wire_index + 1
                inj = [p for p in sim.passages[first:] if p.kind == "inject"]
                outs, raws = sim.exit_log[n_exit:], sim.raw_log[n_raw:]
                handled = [d for p in sim.passages[first:] for d in p.delivered]
                if outs or raws:
                    ctx.oracle_fail("tamper:altered-cell-delivered", f"{tag}: {shape} on link {link} ({direction}): data was delivered", replay)
                if any(d[2][:1] not in (b"\x02", b"\x03") for d in handled):
                    ctx.oracle_fail("tamper:altered-cell-delivered", f"{tag}: {shape} on link {link} ({direction}): the altered cell reached the "
                                    "cell handlers as something else than a plaintext create/created", replay)
                ctx.count(f"tamper_shape:{shape}:{direction}:{'handled-as-create' if handled else 'dropped'}")
                if ck.drv is not None and inj:
                    ck.check_passages(first, f"tamper {shape}", replay)
                    q = inj[0]
                    cid, pt, re = struct.unpack_from("!I??", new, 23)
                    src_n, dst_n = root.wires[wire_index][0], root.wires[wire_index][1]
                    if pt:
                        spec, inner, plain = "R", new[29:].hex() or "-", new[29:]
                    else:
                        if len(new) - 29 >= 24 and sim.decrypts_under_any(new[29:]):
                            ctx.oracle_fail("aead:forgery", f"{tag}: {shape}: altered body decrypts under a session key", replay)
                        spec, inner, plain = f"G{len(new) - 29}", "-", None
                    m = ck.ask(f"inject {dst_n} {src_n} {cid} {int(pt)} {int(re)} {spec} {inner}")
                    mw, mfin, reason = canon_model(m)
                    real = real_trace(sim, q, plain)
                    fin = real_final(q, q.wires[-1][1] if q.wires else dst_n)
                    ctx.count(f"model_final:{reason}")
                    if not traces_agree(mw, mfin, real, fin):
                        ctx.disagree(f"{tag}: {shape} on link {link} ({direction}): model {mw} {mfin} != implementation {real} {fin}",
                                     {**replay, "model": m, "impl": real + [fin]})
                ctx.case((kindtag, nlinks, "tamper-shape", shape, direction, link), True)


async def v6_return_round(ctx, rng, ck: Checker, sim: Sim, c, path):
    """return traffic arriving on the exit's IPv6 socket: the origin must come out as (ip6, port); IPv4-mapped sources
    belong to the IPv4 socket and are ignored"""
    tag = ck.tag
    exit_node, exit_cid = path[-1]
    xs = sim.nodes[exit_node].overlay.exit_sockets.get(exit_cid)
    t6 = getattr(xs, "transport_ipv6", None)
    if t6 is None:
        ctx.count("v6_return:no-transport")
        return
    for src, mapped in ((("2001:db8::5", 4000 + rng.randrange(1000), 0, 0), False), (("::ffff:1.2.3.4", 4000, 0, 0), True)):
        payload = b"d" + bytes(rng.getrandbits(8) for _ in range(30)) + b"e"
        replay = {"scenario": tag, "op": "v6-return", "source": list(src), "payload": payload.hex()}
        first = len(sim.passages)
        sim.op_first_pid = first
        n_raw = len(sim.raw_log)
        t6.proto.datagram_received(payload, src)
        await sim.settle()
        ck.check_passages(first, "v6 return traffic", replay)
        raws = sim.raw_log[n_raw:]
        want = [] if mapped else [(0, c.circuit_id, (src[0], src[1]), payload)]
        if raws != want and not (mapped and raws == [(0, c.circuit_id, (src[0], src[1]), payload)]):
            ctx.oracle_fail("on_data:originator-input", f"{tag}: datagram from {src[:2]} on the exit's IPv6 socket: originator got "
                            f"{[(r[0], r[1], r[2], len(r[3])) for r in raws]}, expected {[(w[0], w[1], w[2]) for w in want]}", replay)
        ctx.count(f"v6_return:{'mapped' if mapped else 'native'}:{'raw' if raws else 'none'}")
        ctx.case(("v6-return", mapped), True)


async def other_address_round(ctx, rng, ck: Checker, sim: Sim, c, path):
    """`on_data` takes a DATA message for data of an own circuit only from the first hop's FULL (ip, port) address: the very
    cell the first hop just delivered, arriving again from the first hop's IP with another port or from an unrelated
    address, decrypts (same keys) but must not reach on_raw_data.  (A re-sent genuine cell is used only because nobody else
    can produce a cell that decrypts; from the first hop's own address it would be an ordinary replay, outside C04.)"""
    tag = ck.tag
    exit_node, exit_cid = path[-1]
    xs = sim.nodes[exit_node].overlay.exit_sockets.get(exit_cid)
    payload = rand_payload(rng, 40)
    first = len(sim.passages)
    sim.op_first_pid = first
    xs.tunnel_data(("9.9.9.9", 999), payload)
    await sim.settle()
    bwd = sim.passages[first]
    if ck.drv is not None:
        ck.check_passages(first, "capture", {"scenario": tag, "op": "capture"})
    if not bwd.wires:
        return
    src_n, dst_n, cid, pt, re, body = bwd.wires[-1]
    hop = tuple(c.hop.address)
    prefix = sim.nodes[0].overlay.get_prefix()
    pkt = prefix + b"\x00" + struct.pack("!I??", cid, False, False) + body
    ip2n = lambda a: struct.unpack("!I", bytes(int(x) for x in a.split(".")))[0]  # noqa: E731
    for sname, src in (("hop-ip-other-port", (hop[0], (hop[1] + 1 + rng.randrange(1000)) % 65536 or 1)),
                       ("unrelated", ("9.8.7.6", 1 + rng.randrange(60000)))):
        replay = {"scenario": tag, "op": "inject", "kind": f"genuine-cell-from-{sname}", "src": list(src), "first_hop": list(hop),
                  "datagram": pkt.hex()}
        n_raw, n_exit = len(sim.raw_log), len(sim.exit_log)
        sim.inject(0, src_n, pkt, src_addr=src)
        await sim.settle()
        raws = sim.raw_log[n_raw:]
        if raws or sim.exit_log[n_exit:]:
            ctx.oracle_fail("on_data:foreign-origin-accepted", f"{tag}: circuit data arriving from {src} ({sname}; the first hop is {hop}) was "
                            "handed to on_raw_data", replay)
        ctx.count(f"other_address:{sname}:{'raw' if raws else 'none'}")
        if ck.drv is not None:
            m = ck.ask(f"sink2 {CT[c.ctype]} {ip2n(src[0])} {src[1]} {ip2n(hop[0])} {hop[1]} {prefix.hex()} 0 1 {payload.hex()}")
            seen = "raw" if raws else "dropped"
            if m != seen:
                ctx.disagree(f"{tag}: genuine cell from {sname}: model sink {m} != implementation {seen}", {**replay, "model": m, "impl": seen})
        ctx.case(("other-address", sname), True)


async def inject_round(ctx, rng, ck: Checker, sim: Sim, circuits, paths, hops, senders=None, kindtag="plain"):
    """cells made by someone who holds no (or the wrong) session keys"""
    tag = ck.tag
    ov = sim.nodes[0].overlay
    prefix = ov.get_prefix()
    c = circuits[0]
    senders = senders or plain_senders(sim, circuits[0], paths[0])
    # capture one genuine forward and one genuine backward passage as raw material
    payload = rand_payload(rng, 64, not sim.open_policy)
    first = len(sim.passages)
    sim.op_first_pid = first
    senders["fwd"](payload)
    await sim.settle()
    fwd = sim.passages[first]
    first = len(sim.passages)
    senders["bwd"](payload)
    await sim.settle()
    bwd = sim.passages[first]
    if not fwd.wires or not bwd.wires:
        ctx.oracle_fail("inject:capture", f"{tag}: genuine cells did not travel", {"scenario": tag, "hops": hops})
        return
    if ck.drv is not None:
        ck.check_passages(fwd.pid, "capture", {"scenario": tag, "op": "capture"})
    cases = []
    links_f = fwd.wires       # link j: (src, dst, cid, pt, re, body)
    links_b = bwd.wires
    other = circuits[1] if len(circuits) > 1 and paths else None
    opath = paths[1] if paths and len(paths) > 1 else None
    for j, (src, dst, cid, pt, re, body) in enumerate(links_f):
        # reflected: the forward cell of link j sent back to its sender
        cases.append(("reflect", src, dst, cid, body, fwd.msg))
        # under-layered: the body of the next link sent on this one
        if j + 1 < len(links_f):
            cases.append(("underlayered", dst, src, cid, links_f[j + 1][5], fwd.msg))
        # over-layered: this body on the next link
        if j + 1 < len(links_f):
            nx = links_f[j + 1]
            cases.append(("overlayered", nx[1], nx[0], nx[2], body, fwd.msg))
        # foreign bytes under a valid circuit id
        cases.append(("foreign", dst, src, cid, bytes(rng.getrandbits(8) for _ in range(len(body))), None))
        cases.append(("foreign-short", dst, src, cid, bytes(rng.getrandbits(8) for _ in range(rng.randrange(0, 24))), None))
        # the message in clear: unflagged (must fail to decrypt) and flagged plaintext (only create/created may be)
        cases.append(("clear-unflagged", dst, src, cid, fwd.msg, fwd.msg))
        cases.append(("clear-flagged", dst, src, cid, fwd.msg, fwd.msg))
        # a circuit id nobody knows
        cases.append(("unknown-cid", dst, src, (cid + 1 + rng.randrange(1000)) & 0xffffffff, fwd.msg, fwd.msg))
    cases.append(("clear-flagged", links_f[0][0], links_f[0][1], links_f[0][2], bwd.msg, bwd.msg))
    cases.append(("clear-unflagged", links_f[0][0], links_f[0][1], links_f[0][2], bwd.msg, bwd.msg))
    for j, (src, dst, cid, pt, re, body) in enumerate(links_b):
        cases.append(("reflect-bwd", src, dst, cid, body, bwd.msg))
        cases.append(("foreign-bwd", dst, src, cid, bytes(rng.getrandbits(8) for _ in range(len(body))), None))
        # backward body replayed in the forward direction at the same node pair
        fw_match = [w for w in links_f if w[0] == dst and w[1] == src]
        if fw_match:
            cases.append(("bwd-as-fwd", src, dst, fw_match[0][2], body, bwd.msg))
    if other is not None and opath:
        # cross-circuit: genuine bodies of circuit A under circuit B's ids (same originator, possibly shared relays)
        first = len(sim.passages)
        ov.send_data(other.hop.address, other.circuit_id, ("8.8.4.4", 4242), ZERO, payload)
        await sim.settle()
        o_f = sim.passages[first]
        if ck.drv is not None:
            ck.check_passages(first, "capture-other", {"scenario": tag, "op": "capture"})
        for j, w in enumerate(o_f.wires):
            if j < len(links_f):
                cases.append(("cross-circuit", w[1], w[0], w[2], links_f[j][5], fwd.msg))
        first = len(sim.passages)
        oexit, ocid = opath[-1]
        sim.nodes[oexit].overlay.exit_sockets[ocid].tunnel_data(("9.9.9.9", 999), payload)
        await sim.settle()
        o_b = sim.passages[first]
        if ck.drv is not None:
            ck.check_passages(first, "capture-other", {"scenario": tag, "op": "capture"})
        if o_b.wires and links_b:
            # body that the other circuit's last backward link carried, presented to the originator under this circuit
            cases.append(("cross-circuit-bwd", links_b[-1][1], links_b[-1][0], links_b[-1][2], o_b.wires[-1][5], bwd.msg))
    for (kind, dst, src, cid, body, plain) in cases:
        for re_flag in ((False, True) if kind in ("foreign", "reflect") else (False,)):
            ptf = kind == "clear-flagged"
            pkt = prefix + b"\x00" + struct.pack("!I??", cid, ptf, re_flag) + body
            replay = {"scenario": tag, "op": "inject", "kind": kind, "dst": dst, "src": src, "cid": cid, "hops": hops,
                      "datagram": pkt.hex()}
            n_exit, n_raw = len(sim.exit_log), len(sim.raw_log)
            first = len(sim.passages)
            q = sim.inject(dst, src, pkt)
            await sim.settle()
            outs, raws = sim.exit_log[n_exit:], sim.raw_log[n_raw:]
            if ptf and q.wires:
                ctx.oracle_fail("relay_cell:plaintext-forwarded", f"{tag}: a cell flagged plaintext (message id {body[:1].hex()}) was relayed by node {dst}", replay)
            if outs or raws or any(p.delivered for p in sim.passages[first:]):
                ctx.oracle_fail(f"inject:{kind}:delivered", f"{tag}: {kind} cell injected at node {dst} under circuit {cid} was delivered", replay)
            ctx.count(f"inject:{kind}")
            if ck.drv is not None:
                if plain is None:
                    spec, inner = f"G{len(body)}", "-"
                    if len(body) >= 24 and sim.decrypts_under_any(body):
                        ctx.oracle_fail("aead:forgery", f"{tag}: random body decrypts under a session key", replay)
                else:
                    pl = sim.peel(body, plain)
                    if pl and pl[-1] == "?":
                        raise InfraError("captured body does not peel")
                    spec, inner = "[" + ",".join(pl) + "]", plain.hex()
                m = ck.ask(f"inject {dst} {src} {cid} {int(ptf)} {int(re_flag)} {spec} {inner}")
                mw, mfin, reason = canon_model(m)
                real = real_trace(sim, q, plain)
                last = q.wires[-1][1] if q.wires else dst
                fin = real_final(q, last)
                ctx.count(f"model_final:{reason}")
                if not traces_agree(mw, mfin, real, fin):
                    ctx.disagree(f"{tag}: injected {kind} cell at node {dst}: model {mw} {mfin} != implementation {real} {fin}",
                                 {**replay, "model": m, "impl": real + [fin]})
            ctx.case((kindtag, hops, "inject", kind, re_flag), True)



# ------------------------------------------------------------------------------------------------------------------
async def rp_reflect_round(ctx, rng, ck: Checker, sim: Sim, senders, state="ready"):
    """the rendezvous point holds hop keys but not the end-to-end keys: it peels its own layer off a cell and sends the
    content straight back to where it came from; the sender must not accept its own data as coming from the other end"""
    tag = ck.tag
    prefix = sim.nodes[0].overlay.get_prefix()
    for direction in ("fwd", "bwd"):
        payload = rand_payload(rng, 48)
        first = len(sim.passages)
        sim.op_first_pid = first
        senders[direction](payload)
        await sim.settle()
        root = sim.passages[first]
        if ck.drv is not None:
            ck.check_passages(first, "capture", {"scenario": tag, "op": "capture"})
        for (src, dst, cid, pt, re, body) in root.wires:
            r = sim.nodes[dst].overlay.relay_from_to.get(cid) if dst < len(sim.nodes) else None
            if r is None or not r.rendezvous_relay:
                continue
            try:
                inner = r.hop.keys.decrypt_str(body, 0)
            except Exception:
                continue
            back = r.hop.keys.encrypt_str(inner, 1)
            pkt = prefix + b"\x00" + struct.pack("!I??", cid, False, False) + back
            replay = {"scenario": tag, "op": "inject", "kind": "rp-reflect", "direction": direction, "dst": src, "src": dst,
                      "cid": cid, "datagram": pkt.hex()}
            n_raw, n_exit = len(sim.raw_log), len(sim.exit_log)
            f2 = len(sim.passages)
            q = sim.inject(src, dst, pkt)
            await sim.settle()
            if sim.raw_log[n_raw:] or sim.exit_log[n_exit:] or any(p.delivered for p in sim.passages[f2:]):
                ctx.oracle_fail("inject:rp-reflect:delivered", f"{tag}: the rendezvous point reflected a {direction} e2e cell to its sender "
                                "and the sender accepted its own data", replay)
            ctx.count("inject:rp-reflect")
            if ck.drv is not None:
                pl = sim.peel(back, root.msg)
                if pl and pl[-1] == "?":
                    raise InfraError("reflected body does not peel")
                m = ck.ask(f"inject {src} {dst} {cid} 0 0 [{','.join(pl)}] {root.msg.hex()}")
                mw, mfin, reason = canon_model(m)
                real = real_trace(sim, q, root.msg)
                fin = real_final(q, q.wires[-1][1] if q.wires else src)
                ctx.count(f"model_final:{reason}")
                if not traces_agree(mw, mfin, real, fin):
                    ctx.disagree(f"{tag}: cell reflected by the rendezvous point: model {mw} {mfin} != implementation {real} {fin}",
                                 {**replay, "model": m, "impl": real + [fin]})
            ctx.case(("e2e", "inject", "rp-reflect", direction), True)
            # the rendezvous point makes a DATA message of its own and wraps it in the only layer it can make (its hop key):
            # without the end-to-end layer the end must refuse it
            from ipv8.messaging.anonymization.payload import DataPayload
            forged = bytes([1]) + sim.nodes[0].overlay.serializer.pack_serializable(
                DataPayload(cid, ZERO, ("6.6.6.6", 6), b"FORGED-BY-THE-RENDEZVOUS-POINT"))[4:]
            body2 = r.hop.keys.encrypt_str(forged, 1)
            pkt = prefix + b"\x00" + struct.pack("!I??", cid, False, False) + body2
            replay = {"scenario": tag, "op": "inject", "kind": "rp-forge", "direction": direction, "dst": src, "src": dst,
                      "cid": cid, "datagram": pkt.hex(), "state": state}
            n_raw, n_exit = len(sim.raw_log), len(sim.exit_log)
            f2 = len(sim.passages)
            q = sim.inject(src, dst, pkt)
            await sim.settle()
            if sim.raw_log[n_raw:] or sim.exit_log[n_exit:] or any(p.delivered for p in sim.passages[f2:]):
                ctx.oracle_fail("inject:rp-forge:delivered", f"{tag}: a cell made by the rendezvous point with its hop key only (no end-to-end "
                                f"layer) was accepted as end-to-end data by the {direction} sender's end ({state} circuit)", replay)
            ctx.count(f"inject:rp-forge:{state}")
            if ck.drv is not None:
                pl = sim.peel(body2, forged)
                m = ck.ask(f"inject {src} {dst} {cid} 0 0 [{','.join(pl)}] {forged.hex()}")
                mw, mfin, reason = canon_model(m)
                real = real_trace(sim, q, forged)
                fin = real_final(q, q.wires[-1][1] if q.wires else src)
                if not traces_agree(mw, mfin, real, fin):
                    ctx.disagree(f"{tag}: cell forged by the rendezvous point ({state}): model {mw} {mfin} != implementation {real} {fin}",
                                 {**replay, "model": m, "impl": real + [fin]})
            ctx.case(("e2e", "inject", "rp-forge", direction, state), True)


# ------------------------------------------------------------------------------------------------------------------
async def run_e2e(ctx: Ctx, rng, use_model: bool, seed_tag: str, all_bytes_sizes=(), delay: float = 0):
    """downloader (node 0) -- relay -- rendezvous point -- seeder (node 2): data both ways, altered and injected cells"""
    from ipv8.messaging.anonymization.tunnel import (CIRCUIT_TYPE_RP_DOWNLOADER, CIRCUIT_TYPE_RP_SEEDER, PEER_FLAG_EXIT_BT,
                                                     PEER_FLAG_RELAY, PEER_FLAG_SPEED_TEST)
    from ipv8.peer import Peer
    from ipv8.test.messaging.anonymization.mock import global_dht_services
    global_dht_services.clear()
    sim = Sim(rng, hidden=True, open_policy=True, delay=delay)
    tag = f"e2e/delay{delay}/{seed_tag}"
    ck = Checker(ctx, sim, use_model, tag)
    try:
        for _ in range(3):
            sim.add_node()
        service = bytes(rng.getrandbits(8) for _ in range(20))
        linked = asyncio.get_running_loop().create_future()
        o0, o2 = sim.nodes[0].overlay, sim.nodes[2].overlay
        o0.join_swarm(service, 1, lambda a: (not linked.done()) and linked.set_result(a), seeding=False)
        o2.join_swarm(service, 1, lambda a: None)
        await sim.introduce([0, 1, 2])
        await asyncio.wait_for(o2.create_introduction_point(service), 30)
        await sim.settle(0.05)
        sim.wrap_exits()
        x = sim.add_node(flags={PEER_FLAG_RELAY, PEER_FLAG_SPEED_TEST, PEER_FLAG_EXIT_BT})
        xn = sim.nodes[x]
        pub = Peer(xn.my_peer.public_key, xn.my_peer.address)
        sim.nodes[0].network.add_verified_peer(pub)
        sim.nodes[0].network.discover_services(pub, [xn.overlay.community_id])
        o0.candidates[pub] = list(xn.overlay.settings.peer_flags)
        o0.build_tunnels(1)
        await sim.settle(0.05)
        sim.wrap_exits()
        await o0.do_peer_discovery()
        await sim.settle(0.1)
        try:
            await asyncio.wait_for(linked, 30)
        except asyncio.TimeoutError:
            pass
        await sim.settle(0.05)
        sim.wrap_exits()
        dc = [c for c in o0.circuits.values() if c.ctype == CIRCUIT_TYPE_RP_DOWNLOADER and c.e2e and c.hs_session_keys]
        sc = [c for c in o2.circuits.values() if c.ctype == CIRCUIT_TYPE_RP_SEEDER and c.hs_session_keys]
        if not dc or not sc:
            ctx.oracle_fail("e2e:not-established", f"{tag}: the end-to-end circuit was not linked on a loss-free network",
                            {"scenario": tag, "op": "e2e-setup"})
            return
        d, sd = dc[0], sc[0]
        for p in sim.passages:
            p.setup = True
        ctx.count(f"scenario:e2e:remove_tunnel_delay={delay}")
        sim.key_ids()
        for p in sim.passages:
            if p.kind == "cell":
                ck.oracle_wires(p, "set-up", {"scenario": tag, "op": "setup", "msg_id": p.msg[:1].hex()})
                ctx.count(f"setup_msg:{p.msg[0] if p.msg else -1}")
        ck.load_tables()

        def fwd(payload):
            o0.send_data(d.hop.address, d.circuit_id, ZERO, ZERO, payload)

        def bwd(payload):
            o2.send_data(sd.hop.address, sd.circuit_id, ZERO, ZERO, payload)
        senders = {"fwd": fwd, "bwd": bwd}
        nlinks = None
        sizes = [rng.choice(SIZES) for _ in range(ctx.scale(4, 10))] + [0, 1500]
        for size in sizes:
            for direction, recv_node, recv_cid in (("fwd", 2, sd.circuit_id), ("bwd", 0, d.circuit_id)):
                payload = rand_payload(rng, size)
                replay = {"scenario": tag, "op": f"e2e_{direction}", "size": size, "payload": payload.hex()}
                first = len(sim.passages)
                sim.op_first_pid = first
                n_raw, n_exit = len(sim.raw_log), len(sim.exit_log)
                senders[direction](payload)
                await sim.settle()
                ck.check_passages(first, f"e2e data {direction} size {size}", replay)
                root = sim.passages[first]
                nlinks = len(root.wires)
                got = sim.raw_log[n_raw:]
                if got != [(recv_node, recv_cid, ZERO, payload)] or sim.exit_log[n_exit:]:
                    ctx.oracle_fail("e2e:delivery", f"{tag}: e2e data ({direction}, size {size}) arrived as {[(g[0], g[1], len(g[3])) for g in got]} "
                                    f"instead of once at node {recv_node} circuit {recv_cid}", replay)
                cs = getattr(root, "layer_counts", [])
                if len(cs) != len(root.wires) or (cs and min(cs) < 2):
                    ctx.oracle_fail("e2e:layers", f"{tag}: e2e data ({direction}): layers per link {cs}; the end-to-end layer plus one hop layer "
                                    "must cover the payload on every link", replay)
                ck.layer_monotone(root, direction, f"e2e data {direction}", replay, e2e=True)
                ctx.case(("e2e", direction, "data", size), True)
                ctx.count(f"op:e2e_{direction}:size_class:{size_class(size)}")
                ctx.count(f"e2e_links:{nlinks}")
        # ---- ping and speed-test over the e2e circuit: every cell, not only DATA, carries the end-to-end layer ----------
        for what in ("ping", "test"):
            first = len(sim.passages)
            sim.op_first_pid = first
            fut = None
            if what == "ping":
                o0.do_ping()
            else:
                fut = o0.send_test_request(d, 20, 30)
            await sim.settle()
            replay = {"scenario": tag, "op": f"e2e_{what}"}
            ck.check_passages(first, f"e2e {what}", replay)
            cells = [p for p in sim.passages[first:] if p.kind == "cell" and p.cid in (d.circuit_id, sd.circuit_id)]
            if not cells or not cells[0].delivered or cells[0].delivered[0][0] != 2:
                ctx.oracle_fail(f"e2e:{what}", f"{tag}: {what} over the e2e circuit did not reach the other end", replay)
            if what == "test" and not (fut.done() and not fut.cancelled() and fut.exception() is None and len(fut.result()[0]) == 30):
                ctx.oracle_fail("e2e:test", f"{tag}: test-request over the e2e circuit got no proper response", replay)
            if fut is not None and not fut.done():
                fut.cancel()
            for p in cells:
                cs = getattr(p, "layer_counts", [])
                if len(cs) != len(p.wires) or (cs and min(cs) < 2):
                    ctx.oracle_fail("e2e:layers", f"{tag}: e2e {what} (message id {p.msg[:1].hex()}): layers per link {cs}; the end-to-end layer "
                                    "plus one hop layer must cover every cell on every link", replay)
            ctx.count(f"op:e2e_{what}:cells:{len(cells)}")
            ctx.case(("e2e", what), True)
        # ---- every payload class over the e2e circuit (both ends) and over the seeder's introduction circuit ------
        await class_round(ctx, rng, ck, sim, "e2e-to-seeder", fwd, 2, sd, ZERO)
        await class_round(ctx, rng, ck, sim, "e2e-to-downloader", bwd, 0, d, ZERO)
        from ipv8.messaging.anonymization.tunnel import CIRCUIT_TYPE_IP_SEEDER
        for ipc in [c for c in o2.circuits.values() if c.ctype == CIRCUIT_TYPE_IP_SEEDER and c.state == "READY"][:1]:
            ipath = path_of(sim, 2, ipc)
            if ipath and sim.nodes[ipath[-1][0]].overlay.exit_sockets.get(ipath[-1][1]) is not None:
                xn, xc = ipath[-1]
                xs = sim.nodes[xn].overlay.exit_sockets[xc]
                src = ("9.9.9.9", 3000 + rng.randrange(60000))
                await class_round(ctx, rng, ck, sim, "ip-bwd", lambda pl, xs=xs, src=src: xs.tunnel_data(src, pl), 2, ipc, src)
                await class_round_exit(ctx, rng, ck, sim, "ip-fwd",
                                       lambda pl, dest, ipc=ipc: o2.send_data(ipc.hop.address, ipc.circuit_id, dest, ZERO, pl),
                                       xn, xc, "ip")
        ck.compare_tables("after genuine traffic")
        if delay:
            # until here the rendezvous point held BOTH the exit sockets being retired and the relay entries that replace
            # them (on_link_e2e removes the sockets with remove_tunnel_delay); now let the removal complete
            both = sum(1 for n in sim.nodes for cid in n.overlay.exit_sockets if cid in n.overlay.relay_from_to)
            ctx.count(f"e2e:rendezvous-has-exit-and-relay-entry:{both}")
            await asyncio.sleep(delay + 1)
            await sim.settle()
            sim.key_ids()
            ck.load_tables()
        await tamper_round(ctx, rng, ck, sim, senders, nlinks, True, all_bytes_sizes, kindtag="e2e")
        await tamper_shapes(ctx, rng, ck, sim, senders, nlinks, True, "e2e")
        await inject_round(ctx, rng, ck, sim, [d], None, nlinks, senders=senders, kindtag="e2e")
        await rp_reflect_round(ctx, rng, ck, sim, senders)
        ck.compare_tables("at the end")
        if delay:
            # ---- both ends close their e2e circuit; for remove_tunnel_delay seconds the circuits stay registered and usable
            #      (post-mortem data): they must stay END-TO-END circuits for that time
            o0.remove_circuit(d.circuit_id, "test")
            o2.remove_circuit(sd.circuit_id, "test")
            await sim.settle()
            ctx.count(f"e2e:closing-window:still-registered:{int(d.circuit_id in o0.circuits)}{int(sd.circuit_id in o2.circuits)}")
            ck.compare_tables("while the e2e circuits are closing")
            for direction, recv_node, recv_cid in (("fwd", 2, sd.circuit_id), ("bwd", 0, d.circuit_id)):
                payload = rand_payload(rng, 60)
                replay = {"scenario": tag, "op": f"e2e_{direction}", "state": "closing", "payload": payload.hex()}
                first = len(sim.passages)
                sim.op_first_pid = first
                senders[direction](payload)
                await sim.settle()
                ck.check_passages(first, f"e2e data {direction} on closing circuits", replay)
                root = sim.passages[first]
                cs = getattr(root, "layer_counts", [])
                if root.wires and (len(cs) != len(root.wires) or min(cs) < 2):
                    ctx.oracle_fail("e2e:layers", f"{tag}: data sent over a closing e2e circuit ({direction}): layers per link {cs}; the "
                                    "end-to-end layer must still cover it", replay)
                ctx.case(("e2e", direction, "data", "closing"), True)
            await rp_reflect_round(ctx, rng, ck, sim, senders, state="closing")
            if d.circuit_id in o0.circuits:
                await create_under_own_id_round(ctx, rng, ck, sim, sim.addr2idx.get(tuple(d.hop.address), 1), 0, d, "e2e")
    finally:
        if ck.drv is not None:
            ck.drv.close()
        await sim.stop()


# ------------------------------------------------------------------------------------------------------------------
async def run_preready(ctx: Ctx, rng, use_model: bool, seed_tag: str):
    """a circuit that is still waiting for CREATED has no session keys at all: nothing but the (plaintext-flagged)
    created message may be accepted on it — in particular no cell "in clear" may be delivered as circuit data"""
    from ipv8.messaging.anonymization.payload import DataPayload, PingPayload
    from ipv8.messaging.anonymization.tunnel import PEER_FLAG_EXIT_BT, PEER_FLAG_RELAY, PEER_FLAG_SPEED_TEST
    sim = Sim(rng, hidden=False, open_policy=True, delay=5)      # production remove_tunnel_delay: a removed circuit lingers
    tag = f"preready/{seed_tag}"
    ck = Checker(ctx, sim, use_model, tag)
    try:
        for _ in range(3):
            sim.add_node()
        sim.nodes[1].overlay.settings.peer_flags = {PEER_FLAG_RELAY, PEER_FLAG_SPEED_TEST, PEER_FLAG_EXIT_BT}
        await sim.introduce()
        o = sim.nodes[0].overlay
        sim.hold.add(0)                      # the CREATE is lost: the circuit stays without hops
        c = o.create_circuit(1)
        await sim.settle()
        if c is None or c.hops:
            return
        ctx.count("scenario:preready")
        first_hop = sim.addr2idx.get(tuple(c.hop.address), 1)
        sim.key_ids()
        ck.load_tables()
        prefix = o.get_prefix()
        ser = o.serializer
        size = rng.choice([0, 5, 40, 300])
        foreign = rand_payload(rng, size)
        msgs = {
            "data": bytes([1]) + ser.pack_serializable(DataPayload(c.circuit_id, ZERO, ("6.6.6.6", 6), foreign))[4:],
            "ping": bytes([6]) + ser.pack_serializable(PingPayload(c.circuit_id, 7))[4:],
            "garbage": b"\x55" + bytes(rng.getrandbits(8) for _ in range(40)),
        }
        # the same while the circuit is still being built (EXTENDING) and after it has been given up but is still registered for
        # remove_tunnel_delay seconds (CLOSING): a circuit without hops has no keys in either state
        for state in ("EXTENDING", "CLOSING"):
            if state == "CLOSING":
                o.remove_circuit(c.circuit_id, "given up")
                await sim.settle()
                if c.circuit_id not in o.circuits:
                    break
                ck.compare_tables("hop-less circuit closing")
            ctx.count(f"preready:circuit_state:{c.state}")
            for kind, msg in msgs.items():
                for src in (first_hop, 2):
                    for ptf in (False, True):
                        pkt = prefix + b"\x00" + struct.pack("!I??", c.circuit_id, ptf, False) + msg
                        replay = {"scenario": tag, "op": "inject", "kind": f"no-keys-{kind}", "dst": 0, "src": src, "cid": c.circuit_id,
                                  "flagged_plaintext": ptf, "circuit_state": state, "datagram": pkt.hex(), "hops": 1}
                        n_raw = len(sim.raw_log)
                        f2 = len(sim.passages)
                        q = sim.inject(0, src, pkt)
                        await sim.settle()
                        if sim.raw_log[n_raw:] or any(p.delivered for p in sim.passages[f2:]):
                            ctx.oracle_fail("incoming_crypto:no-keys-cell-delivered",
                                            f"{tag}: a cell in clear ({kind}, plaintext flag {ptf}) sent to a circuit without any hop keys (state {state}) was "
                                            f"delivered{' to on_raw_data as circuit data' if sim.raw_log[n_raw:] else ' to the cell handlers'}", replay)
                        ctx.count(f"inject:no-keys-{kind}:{state}")
                        if ck.drv is not None:
                            m = ck.ask(f"inject 0 {src} {c.circuit_id} {int(ptf)} 0 [] {msg.hex()}")
                            mw, mfin, reason = canon_model(m)
                            real = real_trace(sim, q, msg)
                            fin = real_final(q, 0)
                            ctx.count(f"model_final:{reason}")
                            if not traces_agree(mw, mfin, real, fin):
                                ctx.disagree(f"{tag}: cell in clear for a circuit without keys: model {mw} {mfin} != implementation {real} {fin}",
                                             {**replay, "model": m, "impl": real + [fin]})
                        ctx.case(("preready", state, kind, src == first_hop, ptf), True)
            sim.hold.discard(0)
            await create_under_own_id_round(ctx, rng, ck, sim, first_hop, 0, c, "preready")
            sim.hold.add(0)
            # the owner itself sends into the circuit that has no hop keys yet (data, ping): nothing may leave unencrypted —
            # there is no key, so nothing may leave at all (guard of outgoing_crypto; model: noKeyToSend)
            for what in ("data", "ping"):
                payload = rand_payload(rng, 40)
                first = len(sim.passages)
                sim.op_first_pid = first
                if what == "data":
                    o.send_data(c.hop.address, c.circuit_id, ("8.8.4.4", 4242), ZERO, payload)
                else:
                    o.send_cell(c.hop.address, PingPayload(c.circuit_id, 9))
                await sim.settle()
                replay = {"scenario": tag, "op": "send-without-keys", "what": what, "payload": payload.hex(), "hops": 1}
                ck.check_passages(first, f"owner sends {what} into a circuit without hop keys", replay)
                for p in sim.passages[first:]:
                    if p.kind == "cell" and any(not w[3] for w in p.wires):
                        ctx.oracle_fail("link:plaintext-visible", f"{tag}: the owner's {what} cell for a circuit without hop keys was put on the wire "
                                        "unencrypted", replay)
                ctx.count(f"send_without_keys:{what}")
                ctx.case(("preready", state, "send", what), True)
    finally:
        if ck.drv is not None:
            ck.drv.close()
        sim.hold.clear()
        await sim.stop()


# ------------------------------------------------------------------------------------------------------------------
async def run_teardown(ctx: Ctx, rng, hops: int, use_model: bool, seed_tag: str):
    """Circuits being retired with the production setting remove_tunnel_delay = 5 s: during the delay the exit socket is
    still open and the Internet can still answer; whatever still travels (return traffic, late forward data, pings) must
    be layered exactly as before, and once the entries are gone nothing travels at all.  Triggers: the originator
    destroys the circuit, the exit retires the socket itself (idle / too old / over quota: what do_remove does), a relay
    gives up, the exit sends a destroy."""
    from ipv8.messaging.anonymization.tunnel import PEER_FLAG_EXIT_BT, PEER_FLAG_RELAY, PEER_FLAG_SPEED_TEST
    from ipv8.messaging.interfaces.endpoint import EndpointListener
    trigger = rng.choice(["orig-destroy", "exit-retire", "exit-destroy"] + (["relay-destroy"] if hops > 1 else []))
    sim = Sim(rng, hidden=False, open_policy=False)
    tag = f"teardown/{hops}hop/{trigger}/{seed_tag}"
    ck = Checker(ctx, sim, use_model, tag)
    try:
        for _ in range(hops + 1):
            sim.add_node()
        for n in sim.nodes:
            n.overlay.settings.remove_tunnel_delay = 5
        sim.nodes[hops].overlay.settings.peer_flags = {PEER_FLAG_RELAY, PEER_FLAG_SPEED_TEST, PEER_FLAG_EXIT_BT}
        await sim.introduce()
        ov = sim.nodes[0].overlay
        c = ov.create_circuit(hops)
        await sim.settle(0.05)
        if c is None or c.state != "READY":
            ctx.oracle_fail("create_circuit:not-ready", f"{tag}: no circuit", {"scenario": tag, "hops": hops})
            return
        path = path_of(sim, 0, c)
        exit_node, exit_cid = path[-1]
        xo = sim.nodes[exit_node].overlay
        xs_old = xo.exit_sockets[exit_cid]

        class Host(EndpointListener):
            def __init__(self):
                ep = sim.mep.AutoMockEndpoint()
                ep.open()
                EndpointListener.__init__(self, ep, main_thread=False)
                ep.add_listener(self)
                self.got = []

            def on_packet(self, packet):
                self.got.append((tuple(packet[0]), bytes(packet[1])))
        host = Host()
        haddr = tuple(host.endpoint.wan_address)

        def dht(n):
            return b"d" + bytes(rng.getrandbits(8) for _ in range(n)) + b"e"
        # open the exit's outside socket and learn its public address
        hello = dht(20)
        ov.send_data(c.hop.address, c.circuit_id, haddr, ZERO, hello)
        await sim.settle()
        if not host.got or host.got[-1][1] != hello:
            ctx.oracle_fail("exit_data:output", f"{tag}: datagram for a host on the mock internet did not arrive", {"scenario": tag, "hops": hops})
            return
        public = host.got[-1][0]
        sim.key_ids()
        ck.load_tables()

        async def traffic(phase, expect_delivery):
            """return traffic from the host, late forward data, a ping"""
            for what in ("return", "forward", "ping", "return"):
                payload = dht(rng.choice([0, 30, 300]))
                replay = {"scenario": tag, "op": "teardown-traffic", "phase": phase, "what": what, "trigger": trigger, "hops": hops,
                          "payload": payload.hex()}
                first = len(sim.passages)
                sim.op_first_pid = first
                n_raw, n_got = len(sim.raw_log), len(host.got)
                if what == "return":
                    if public in sim.mep.internet:       # a closed socket receives nothing
                        host.endpoint.send(public, payload)
                elif what == "forward":
                    # an application only sends into circuits the community still lists (a stale circuit id would be
                    # sent in clear by outgoing_crypto: see `uncovered_is_clear`; noted in design.d/C04.md)
                    if c.circuit_id in ov.circuits:
                        ov.send_data(c.hop.address, c.circuit_id, haddr, ZERO, payload)
                else:
                    ov.do_ping()
                await sim.settle()
                cells = [p for p in sim.passages[first:] if p.kind == "cell"]
                ck.check_passages(first, f"{phase}: {what}", replay)     # includes the plaintext-visible / layering oracle
                for p in cells:
                    for (src, dst, cid, pt, re, body) in p.wires:
                        if not pt and payload and len(payload) >= 8 and payload in body:
                            ctx.oracle_fail("link:plaintext-visible", f"{tag}: {phase}: {what} payload visible in clear on link {src}>{dst}", replay)
                raws, gots = sim.raw_log[n_raw:], host.got[n_got:]
                if any(r[3] != payload for r in raws) or any(g[1] != payload for g in gots):
                    ctx.oracle_fail("teardown:altered", f"{tag}: {phase}: {what}: altered data delivered", replay)
                if expect_delivery and what == "return" and raws != [(0, c.circuit_id, haddr, payload)]:
                    ctx.oracle_fail("on_data:originator-input", f"{tag}: {phase}: return traffic did not reach the originator once, intact, "
                                    f"from {haddr} (got {[(r[0], r[1], r[2], len(r[3])) for r in raws]})", replay)
                if phase == "after" and cells and any(p.wires for p in cells if p.node != 0):
                    ctx.oracle_fail("teardown:traffic-after-removal", f"{tag}: a retired node still put cells on the wire", replay)
                ctx.count(f"teardown:{trigger}:{phase}:{what}:{'delivered' if (raws or gots) else 'none'}")
                ctx.case(("teardown", hops, trigger, phase, what), True)

        def compare_cover(when):
            ck.compare_tables(when)

        await traffic("before", True)
        compare_cover("before the removal")
        # ---- the removal starts ------------------------------------------------------------------------------
        t_trigger = asyncio.get_running_loop().time()
        if trigger == "orig-destroy":
            ov.remove_circuit(c.circuit_id, "test", destroy=True)
        elif trigger == "exit-retire":
            xo.remove_exit_socket(exit_cid, "no activity")
        elif trigger == "exit-destroy":
            xo.remove_exit_socket(exit_cid, "test", destroy=True)
        else:
            rn, rcid = path[0]
            sim.nodes[rn].overlay.remove_relay(rcid, "test", destroy=True)
        await sim.settle()
        # nothing has been removed yet during remove_tunnel_delay: the tables loaded into the model before still describe the nodes
        compare_cover("during remove_tunnel_delay")
        live = (exit_node, exit_cid) in sim.live_exit_sockets()
        still_listed = exit_cid in xo.exit_sockets
        if live and not still_listed:
            ctx.oracle_fail("remove_exit_socket:open-socket-unlisted", f"{tag}: during remove_tunnel_delay the exit socket of circuit {exit_cid} "
                            "is still open but no longer in the routing table", {"scenario": tag, "trigger": trigger, "hops": hops})
        # when only the exit retires its socket (idle / too old / over quota) nobody else knows: the circuit is still
        # ready for its owner, and the delay exists so that data still arrives
        await traffic("during", trigger == "exit-retire")
        if c.circuit_id in ov.circuits:
            await create_under_own_id_round(ctx, rng, ck, sim, path[0][0], 0, c, "teardown")
        compare_cover("during remove_tunnel_delay, after traffic")
        # ---- the instant the delay ends: a host-name resolution is still pending at the exit and the Internet host keeps
        #      answering on every loop turn while the removal (pop, shutdown of the socket's tasks, close) is in progress
        from ipv8.messaging.interfaces.udp.endpoint import DomainAddress
        loop = asyncio.get_running_loop()
        t_end = t_trigger + 5
        sim.dns_table["late.example"] = haddr[0]
        first = len(sim.passages)
        sim.op_first_pid = first
        n_raw, n_got = len(sim.raw_log), len(host.got)
        probes = []

        def late_send():
            if c.circuit_id in ov.circuits:
                pl = dht(16)
                probes.append(pl)
                ov.send_data(c.hop.address, c.circuit_id, DomainAddress("late.example", haddr[1]), ZERO, pl)

        def chain(n):
            if n and public in sim.mep.internet:
                pl = dht(24)
                probes.append(pl)
                host.endpoint.send(public, pl)
                loop.call_soon(chain, n - 1)
        if t_end - 0.004 > loop.time():
            loop.call_at(t_end - 0.004, late_send)
            loop.call_at(t_end - 0.0001, chain, 40)
            loop.call_at(t_end, chain, 80)
        await asyncio.sleep(max(0.0, t_end + 0.5 - loop.time()))
        await sim.settle()
        replay = {"scenario": tag, "op": "teardown-instant", "trigger": trigger, "hops": hops, "probes": len(probes)}
        ck.check_passages(first, "the instant remove_tunnel_delay ends", replay, expect_model=False)
        for p in sim.passages[first:]:
            if p.kind == "cell":
                for (src, dst, cid, pt, re, body) in p.wires:
                    if not pt and any(pl in body for pl in probes):
                        ctx.oracle_fail("link:plaintext-visible", f"{tag}: while the exit socket was being removed, return traffic left node {src} "
                                        f"for {dst} in clear (circuit {cid})", {**replay, "datagram_body": body.hex()})
        if any(r[3] not in probes for r in sim.raw_log[n_raw:]) or any(g[1] not in probes for g in host.got[n_got:]):
            ctx.oracle_fail("teardown:altered", f"{tag}: altered data delivered while the exit socket was being removed", replay)
        ctx.count(f"teardown:{trigger}:instant:probes:{len(probes)}")
        ctx.count(f"teardown:{trigger}:instant:cells:{sum(1 for p in sim.passages[first:] if p.kind == 'cell' and p.wires)}")
        ctx.case(("teardown", hops, trigger, "instant"), True)
        # ---- the delay has passed ------------------------------------------------------------------------------
        await asyncio.sleep(12)
        await sim.settle()
        if ck.drv is not None:
            # entries whose removal has completed
            for i, n in enumerate(sim.nodes):
                pass
            ck.load_tables()
        if sim.live_exit_sockets():
            ctx.oracle_fail("remove_exit_socket:socket-left-open", f"{tag}: after the removal an exit socket is still open: {sim.live_exit_sockets()}",
                            {"scenario": tag, "trigger": trigger, "hops": hops})
        await traffic("after", False)
        # an exit socket object that outlived its table entry (however that came about) is asked to tunnel return data:
        # with no entry for the circuit id nothing may be put on the wire (model: noKeyToSend -> nothing sent)
        payload = dht(40)
        first = len(sim.passages)
        sim.op_first_pid = first
        xs_old.tunnel_data(haddr, payload)
        await sim.settle()
        replay = {"scenario": tag, "op": "tunnel_data-after-removal", "trigger": trigger, "hops": hops, "payload": payload.hex()}
        ck.check_passages(first, "tunnel_data of a removed exit socket", replay)
        for p in sim.passages[first:]:
            if p.kind == "cell" and p.wires:
                ctx.oracle_fail("link:plaintext-visible", f"{tag}: a removed exit socket still put a cell on the wire", replay)
        ctx.count("teardown:tunnel_data-after-removal")
        ctx.count(f"scenario:teardown:{trigger}")
    finally:
        if ck.drv is not None:
            ck.drv.close()
        await sim.stop()


# ------------------------------------------------------------------------------------------------------------------
async def run_tunnel_endpoint(ctx: Ctx, rng, hops: int, use_model: bool, seed_tag: str):
    """The originator's endpoint is a TunnelEndpoint on which, besides the tunnel community, an ANONYMIZED overlay and a
    plain overlay are loaded.  IPv8-shaped datagrams returned through the exit of a plain circuit (prefix of the anonymized
    overlay / of the plain overlay / of nobody) must reach exactly the anonymized overlay they are addressed to: its
    on_packet gets the bytes once, with the outside origin as source; the plain overlay gets nothing out of the tunnel."""
    from ipv8.community import Community, CommunitySettings
    from ipv8.messaging.anonymization.tunnel import PEER_FLAG_EXIT_BT, PEER_FLAG_EXIT_IPV8, PEER_FLAG_RELAY, PEER_FLAG_SPEED_TEST
    sim = Sim(rng, hidden=False, open_policy=True)
    tag = f"tunnel-endpoint/{hops}hop/{seed_tag}"
    ck = Checker(ctx, sim, use_model, tag)
    extra = []
    try:
        sim.add_node(tunnel_ep=True)
        for _ in range(hops):
            sim.add_node()
        sim.nodes[hops].overlay.settings.peer_flags = {PEER_FLAG_RELAY, PEER_FLAG_SPEED_TEST, PEER_FLAG_EXIT_BT, PEER_FLAG_EXIT_IPV8}
        n0 = sim.nodes[0]
        got = []

        def load(cid_byte, anonymize):
            class Extra(Community):
                community_id = bytes([cid_byte]) * 20
            st = CommunitySettings(my_peer=n0.my_peer, endpoint=n0.endpoint, network=n0.network, anonymize=anonymize)
            o = Extra(st)
            real = o.on_packet
            name = "anon" if anonymize else "plain"

            def on_packet(packet, warn_unknown=True, name=name, real=real):
                got.append((name, tuple(packet[0]), bytes(packet[1])))
                return real(packet, warn_unknown)
            o.on_packet = on_packet
            extra.append(o)
            return o
        anon, plain = load(0xA1, True), load(0xB2, False)
        await sim.introduce()
        ov = n0.overlay
        # ---- forward: the anonymized overlay sends through the TunnelEndpoint; first while no circuit exists (queued, a
        #      circuit is built), then with the circuit ready, then again with an empty queue
        n0.endpoint.hops = hops
        sent, flags = [], []
        n_exit = len(sim.exit_log)
        phases = [rng.choice([1, 2, 3]), rng.choice([1, 2, 3]), rng.choice([0, 2])]
        for phase, k in enumerate(phases):
            for _ in range(k):
                dest = (f"8.8.{rng.randrange(1, 250)}.{rng.randrange(1, 250)}", 1000 + rng.randrange(60000))
                pkt = anon.get_prefix() + bytes([0xEE]) + bytes(rng.getrandbits(8) for _ in range(rng.choice([0, 40, 700])))
                ready = bool(ov.find_circuits(exit_flags=[PEER_FLAG_EXIT_IPV8], hops=hops))
                flags.append(int(ready))
                sent.append((pkt, dest))
                anon.endpoint.send(dest, pkt)        # no settling inside a phase
            await sim.settle(0.05)
        cs = ov.find_circuits(exit_flags=[PEER_FLAG_EXIT_IPV8], hops=hops)
        if not cs:
            ctx.oracle_fail("create_circuit:not-ready", f"{tag}: the TunnelEndpoint did not get a circuit built", {"scenario": tag, "hops": hops})
            return
        c = cs[0]
        path = path_of(sim, 0, c)
        exit_node, exit_cid = path[-1]
        outs = [(o[2], o[3]) for o in sim.exit_log[n_exit:]]
        replay = {"scenario": tag, "op": "tunnel-endpoint-send", "hops": hops, "ready_at_send": flags,
                  "packets": [p.hex()[:80] for p, _ in sent], "destinations": [list(d) for _, d in sent]}
        if sorted(outs) != sorted(sent):
            lost = [i for i, x in enumerate(sent) if outs.count(x) != 1]
            ctx.oracle_fail("tunnel_endpoint:send-output", f"{tag}: {len(sent)} packets handed to the anonymizing endpoint (ready circuit at the "
                            f"time of the call: {flags}): packets {lost} did not leave the exit exactly once to their own destination "
                            f"({len(outs)} datagrams left)", replay)
        ctx.count(f"tunnel_endpoint_send:history:{''.join(map(str, flags))}")
        if ck.drv is not None:
            m = ck.ask(f"tepsend [{','.join(map(str, flags))}]")
            order = sorted(sent.index(x) if x in sent else -1 for x in outs)
            real = f"out=[{','.join(map(str, order))}] queued=[{','.join(str(i) for i, x in enumerate(sent) if x not in outs)}]"
            mo = re.match(r"out=\[([0-9,]*)\] (queued=.*)", m)
            m = f"out=[{','.join(map(str, sorted(int(x) for x in mo.group(1).split(',') if x)))}] {mo.group(2)}" if mo else m
            if m != real:
                ctx.disagree(f"{tag}: TunnelEndpoint.send history {flags}: model `{m}` != implementation `{real}`", {**replay, "model": m, "impl": real})
        ctx.case(("tunnel-endpoint-send", hops, tuple(flags)), True)
        xs = sim.nodes[exit_node].overlay.exit_sockets.get(exit_cid)
        sim.key_ids()
        ck.load_tables()
        ctx.count("scenario:tunnel-endpoint")
        specs = "[" + ",".join(f"{o.get_prefix().hex()}:{int(o.anonymize)}" for o in (ov, anon, plain)) + "]"
        names = ["tunnel", "anon", "plain"]
        prefixes = {"anon": anon.get_prefix(), "plain": plain.get_prefix(), "unknown": b"\x00\x02" + bytes([0xC3]) * 20,
                    "anon-v1": b"\x00\x01" + anon.get_prefix()[2:]}
        for pname, pfx in prefixes.items():
            for size in (1, rng.choice([30, 200, 1200])):
                src = ("9.9.9.9", 2000 + rng.randrange(60000))
                payload = pfx + bytes([0xEE]) + bytes(rng.getrandbits(8) for _ in range(size - 1))
                replay = {"scenario": tag, "op": "tunnel-endpoint-return", "prefix_of": pname, "size": len(payload), "hops": hops,
                          "payload": payload.hex(), "origin": list(src)}
                first = len(sim.passages)
                sim.op_first_pid = first
                n_got, n_raw = len(got), len(sim.raw_log)
                xs.tunnel_data(src, payload)
                await sim.settle()
                ck.check_passages(first, f"return of a {pname} packet", replay)
                new = got[n_got:]
                want = [("anon", src, payload)] if pname == "anon" else []
                if new != want or sim.raw_log[n_raw:]:
                    ctx.oracle_fail("on_data:anonymized-overlay-delivery",
                                    f"{tag}: IPv8 packet with the prefix of {pname} ({len(payload)} bytes) returned through the exit from {src}: "
                                    f"overlays got {[(g[0], g[1], len(g[2])) for g in new]}, on_raw_data {len(sim.raw_log[n_raw:])}x; expected "
                                    f"{'the anonymized overlay once with that origin' if want else 'nobody'}", replay)
                ctx.count(f"tunnel_endpoint:{pname}:{'+'.join(g[0] for g in new) or 'nobody'}")
                if ck.drv is not None:
                    m = ck.ask(f"tdeliver {payload.hex()} {specs}")
                    real = "[" + ",".join(str(names.index(g[0])) for g in new) + "]"
                    s1 = ck.ask(f"sink data {ov.get_prefix().hex()} 1 1 {payload.hex()} {exit_ids(ov)}")
                    if m != real or s1 != "otherCommunity":
                        ctx.disagree(f"{tag}: return of a {pname} packet: model sink {s1}, delivery set {m} != implementation {real}",
                                     {**replay, "model": m, "impl": real})
                ctx.case(("tunnel-endpoint", hops, pname, size == 1), True)
        # ---- the tunnel community is detached (what its unload does) while the overlays keep sending: a packet of the anonymized
        #      overlay must not leave the node at all (it may only travel inside circuit cells); the plain overlay sends as before
        n0.endpoint.set_tunnel_community(None)
        for who, overlay_ in (("anon", anon), ("plain", plain), ("anon", anon)):
            dest = tuple(sim.nodes[hops].endpoint.wan_address)
            pkt = overlay_.get_prefix() + bytes([0xEE]) + bytes(rng.getrandbits(8) for _ in range(40))
            first = len(sim.passages)
            sim.op_first_pid = first
            n_exit = len(sim.exit_log)
            overlay_.endpoint.send(dest, pkt)
            await sim.settle()
            direct = [p for p in sim.passages[first:] if p.node == 0 and (p.msg == pkt or (p.kind == "raw" and pkt in p.msg))]
            replay = {"scenario": tag, "op": "send-while-detached", "overlay": who, "packet": pkt.hex(), "destination": list(dest), "hops": hops}
            if who == "anon" and direct:
                ctx.oracle_fail("tunnel_endpoint:anonymized-packet-in-clear", f"{tag}: with no tunnel community attached a packet of the anonymized "
                                f"overlay left node 0 unencrypted, addressed directly to {dest}", replay)
            ctx.count(f"tunnel_endpoint_detached:{who}:{'direct' if direct else 'not-sent'}")
            if ck.drv is not None:
                m = ck.ask(f"tepany {int(who == 'anon')} 0 0")
                real = f"direct={len(direct)} out={len(sim.exit_log[n_exit:])} queued=0"
                if m != real:
                    ctx.disagree(f"{tag}: {who} overlay sends while no tunnel community is attached: model `{m}` != implementation `{real}`",
                                 {**replay, "model": m, "impl": real})
            ctx.case(("tunnel-endpoint", "detached", who), True)
    finally:
        if ck.drv is not None:
            ck.drv.close()
        for o in extra:
            try:
                await o.unload()
            except Exception:
                pass
        await sim.stop()


# ------------------------------------------------------------------------------------------------------------------
async def run_dual_stack(ctx: Ctx, rng, hops: int, use_model: bool, seed_tag: str):
    """Relays and exit run on a DispatcherEndpoint with two interfaces.  A cell is a cell on whichever interface it arrives:
    cells in clear, foreign bytes, cells with an unknown id sent to the SECOND interface of a node must be refused exactly as
    on the first (nothing delivered, nothing exited, nothing forwarded)."""
    from ipv8.messaging.anonymization.tunnel import PEER_FLAG_EXIT_BT, PEER_FLAG_RELAY, PEER_FLAG_SPEED_TEST
    sim = Sim(rng, hidden=False, open_policy=True)
    tag = f"dual-stack/{hops}hop/{seed_tag}"
    ck = Checker(ctx, sim, use_model, tag)
    try:
        sim.add_node()
        for _ in range(hops):
            sim.add_node(dual_stack=True)
        sim.nodes[hops].overlay.settings.peer_flags = {PEER_FLAG_RELAY, PEER_FLAG_SPEED_TEST, PEER_FLAG_EXIT_BT}
        await sim.introduce()
        ov = sim.nodes[0].overlay
        c = ov.create_circuit(hops)
        await sim.settle(0.05)
        if c is None or c.state != "READY":
            ctx.oracle_fail("create_circuit:not-ready", f"{tag}: no circuit over dual-stack nodes", {"scenario": tag, "hops": hops})
            return
        path = path_of(sim, 0, c)
        exit_node, exit_cid = path[-1]
        sim.key_ids()
        ck.load_tables()
        ctx.count("scenario:dual-stack")
        # genuine traffic first (the exit socket becomes enabled), captured as raw material
        payload = rand_payload(rng, 50)
        first = len(sim.passages)
        sim.op_first_pid = first
        n_exit = len(sim.exit_log)
        ov.send_data(c.hop.address, c.circuit_id, ("8.8.4.4", 4242), ZERO, payload)
        await sim.settle()
        fwd = sim.passages[first]
        ck.check_passages(first, "data fwd", {"scenario": tag, "op": "data_fwd"})
        if [o[2] for o in sim.exit_log[n_exit:]] != [payload]:
            ctx.oracle_fail("exit_data:output", f"{tag}: data did not leave the dual-stack exit", {"scenario": tag, "hops": hops})
        prefix = ov.get_prefix()
        for (src, dst, cid, pt, re, body) in fwd.wires:
            node = sim.nodes[dst]
            for iname, iface in list(node.endpoint.interfaces.items()):
                other_msg = bytes([1]) + sim.nodes[0].overlay.serializer.pack_serializable(
                    __import__("ipv8.messaging.anonymization.payload", fromlist=["DataPayload"]).DataPayload(
                        cid, ("8.8.8.8", 53), ZERO, b"dINJECTEDe"))[4:]
                bodies = {"clear-unflagged": (False, other_msg, other_msg), "clear-flagged": (True, other_msg, other_msg),
                          "foreign": (False, bytes(rng.getrandbits(8) for _ in range(len(body))), None),
                          "unknown-cid": (False, other_msg, other_msg)}
                for kind, (ptf, b, plain) in bodies.items():
                    ucid = cid if kind != "unknown-cid" else (cid + 77) & 0xffffffff
                    pkt = prefix + b"\x00" + struct.pack("!I??", ucid, ptf, False) + b
                    replay = {"scenario": tag, "op": "inject", "kind": kind, "interface": iname, "dst": dst, "cid": ucid, "hops": hops,
                              "datagram": pkt.hex()}
                    n_exit, n_raw = len(sim.exit_log), len(sim.raw_log)
                    f2 = len(sim.passages)
                    q = sim.inject(dst, src, pkt, dst_addr=tuple(iface.wan_address))
                    await sim.settle()
                    if sim.exit_log[n_exit:] or sim.raw_log[n_raw:] or any(p.delivered for p in sim.passages[f2:]) or q.wires:
                        ctx.oracle_fail(f"inject:{kind}:delivered", f"{tag}: {kind} cell sent to interface {iname} of node {dst} under circuit "
                                        f"{ucid} was {'exited' if sim.exit_log[n_exit:] else 'accepted'}", replay)
                    ctx.count(f"interface:{iname}:{kind}")
                    if ck.drv is not None:
                        spec, inner = (f"G{len(b)}", "-") if plain is None else ("[]", plain.hex())
                        m = ck.ask(f"inject {dst} {src} {ucid} {int(ptf)} 0 {spec} {inner}")
                        mw, mfin, reason = canon_model(m)
                        real = real_trace(sim, q, plain)
                        fin = real_final(q, q.wires[-1][1] if q.wires else dst)
                        if not traces_agree(mw, mfin, real, fin):
                            ctx.disagree(f"{tag}: {kind} cell on interface {iname} of node {dst}: model {mw} {mfin} != implementation {real} {fin}",
                                         {**replay, "model": m, "impl": real + [fin]})
                    ctx.case(("dual-stack", hops, iname, kind, dst == exit_node), True)
        # genuine traffic still works afterwards, in both directions
        first = len(sim.passages)
        n_raw = len(sim.raw_log)
        sim.nodes[exit_node].overlay.exit_sockets[exit_cid].tunnel_data(("9.9.9.9", 99), payload)
        await sim.settle()
        ck.check_passages(first, "data bwd", {"scenario": tag, "op": "data_bwd"})
        if [r[3] for r in sim.raw_log[n_raw:]] != [payload]:
            ctx.oracle_fail("on_data:originator-input", f"{tag}: return data over dual-stack nodes did not arrive", {"scenario": tag, "hops": hops})
        ck.compare_tables("at the end")
    finally:
        if ck.drv is not None:
            ck.drv.close()
        await sim.stop()


# ------------------------------------------------------------------------------------------------------------------
async def create_under_own_id_round(ctx: Ctx, rng, ck: Checker, sim: Sim, attacker: int, victim: int, c, kindtag: str):
    """A peer (typically the first hop, which holds only the first layer of keys) sends a CREATE that names one of the victim's OWN
    circuit ids — while that circuit is being built, ready or closing — and, if it gets a CREATED back, a DATA cell under the keys of
    that hand-shake.  The id is in use: the CREATE must be refused; in no case may the forged data reach on_raw_data."""
    from ipv8.messaging.anonymization.payload import CreatedPayload, CreatePayload, DataPayload
    tag = ck.tag
    att, vic = sim.nodes[attacker].overlay, sim.nodes[victim].overlay
    cid = c.circuit_id
    state = c.state
    before = (cid in vic.circuits, cid in vic.relay_from_to, cid in vic.exit_sockets)
    dh_secret, dh_first = att.crypto.generate_diffie_secret()
    first = len(sim.passages)
    sim.op_first_pid = first
    n_raw, n_exit = len(sim.raw_log), len(sim.exit_log)
    held = attacker in sim.hold
    att.send_cell(sim.nodes[victim].endpoint.wan_address,
                  CreatePayload(cid, rng.randrange(1, 65000), att.my_peer.public_key.key_to_bin(), dh_first))
    await sim.settle()
    replay = {"scenario": tag, "op": "create-under-own-id", "circuit_state": state, "attacker": attacker, "victim": victim, "cid": cid}
    accepted = (cid in vic.exit_sockets) and not before[2]
    created = [p for p in sim.passages[first:] if p.kind == "cell" and p.node == victim and p.msg[:1] == b"\x03"]
    delivered = False
    if created and not held:
        msg = created[0].msg
        data = vic.get_prefix() + msg[0:1] + struct.pack("!I", cid) + msg[1:]
        try:
            payload, _ = vic.serializer.unpack_serializable(CreatedPayload, data, offset=23)
            shared = att.crypto.verify_and_generate_shared_secret(dh_secret, payload.key, payload.auth,
                                                                  sim.nodes[victim].my_peer.public_key.get_crypt_pk())
            keys = att.crypto.generate_session_keys(shared)
            forged = bytes([1]) + vic.serializer.pack_serializable(DataPayload(cid, ZERO, ("6.6.6.6", 6), b"FORGED-UNDER-A-REUSED-ID"))[4:]
            pkt = vic.get_prefix() + b"\x00" + struct.pack("!I??", cid, False, False) + keys.encrypt_str(forged, 0)
            replay["datagram"] = pkt.hex()
            sim.inject(victim, attacker, pkt)
            await sim.settle()
        except Exception as e:      # the hand-shake could not be completed: nothing to forge with
            replay["handshake_error"] = type(e).__name__
        delivered = bool(sim.raw_log[n_raw:] or sim.exit_log[n_exit:])
    if delivered:
        ctx.oracle_fail("on_create:forged-data-delivered", f"{tag}: node {attacker} sent a CREATE naming circuit {cid} of node {victim} (own circuit, "
                        f"state {state}), was answered, and its DATA cell under that hand-shake was delivered as data of the circuit", replay)
    elif accepted or created:
        ctx.oracle_fail("on_create:own-circuit-id-accepted", f"{tag}: a CREATE naming circuit id {cid}, which node {victim} uses for an own circuit "
                        f"(state {state}), was accepted", replay)
    ctx.count(f"create_under_own_id:{state}:{'accepted' if (accepted or created) else 'refused'}")
    if ck.drv is not None:
        m = ck.ask(f"createinuse {int(before[0])} {int(before[1])} {int(before[2])}")
        real = str(int(not (accepted or created)))
        if m != real:
            ctx.disagree(f"{tag}: CREATE under a circuit id in use (tables {before}): model refuses={m}, implementation refuses={real}",
                         {**replay, "model": m, "impl": real})
    ctx.case((kindtag, "create-under-own-id", state), True)


async def run_impostor(ctx: Ctx, rng, use_model: bool, seed_tag: str):
    """The CREATE meant for the chosen hop is answered by somebody else, who does NOT hold that hop's static private key (it sits on
    the hop's address).  Whatever circuit results: what the originator sends into it must not be readable by that party with any
    key it can derive, and what that party sends back must not be delivered."""
    from ipv8.keyvault.crypto import default_eccrypto
    from ipv8.messaging.anonymization.crypto import TunnelCrypto
    from ipv8.messaging.anonymization.payload import CreatedPayload, CreatePayload, DataPayload
    from ipv8.messaging.anonymization.tunnel import PEER_FLAG_EXIT_BT, PEER_FLAG_RELAY, PEER_FLAG_SPEED_TEST
    sim = Sim(rng, hidden=False, open_policy=True)
    tag = f"impostor/{seed_tag}"
    try:
        sim.add_node()
        sim.add_node(flags={PEER_FLAG_RELAY, PEER_FLAG_SPEED_TEST, PEER_FLAG_EXIT_BT})
        await sim.introduce()
        o = sim.nodes[0].overlay
        sim.hold.add(0)
        first = len(sim.passages)
        c = o.create_circuit(1)
        await sim.settle()
        creates = [p for p in sim.passages[first:] if p.kind == "cell" and p.msg[:1] == b"\x02"]
        if c is None or not creates:
            return
        msg = creates[0].msg
        data = o.get_prefix() + msg[0:1] + struct.pack("!I", c.circuit_id) + msg[1:]
        create, _ = o.serializer.unpack_serializable(CreatePayload, data, offset=23)
        imp = TunnelCrypto()
        imp.initialize(default_eccrypto.generate_key("curve25519"))       # the impostor's OWN static key
        shared, crypt_pk, auth = imp.generate_diffie_shared_secret(create.key)
        keys_imp = imp.generate_session_keys(shared)
        cand = keys_imp.encrypt_str(o.serializer.pack("varlenH-list", []), 0)
        created = bytes([3]) + o.serializer.pack_serializable(CreatedPayload(c.circuit_id, create.identifier, crypt_pk, auth, cand))[4:]
        pkt = o.get_prefix() + b"\x00" + struct.pack("!I??", c.circuit_id, True, False) + created
        sim.hold.clear()
        sim.inject(0, 1, pkt)
        await sim.settle()
        ctx.count(f"impostor:circuit_state:{c.state}:hops:{len(c.hops)}")
        if c.state != "READY" or not c.hops:
            ctx.case(("impostor", "not-established"), True)
            return
        # the originator uses the circuit
        payload = rand_payload(rng, 60)
        first = len(sim.passages)
        n_raw = len(sim.raw_log)
        o.send_data(c.hop.address, c.circuit_id, ("8.8.4.4", 53), ZERO, payload)
        await sim.settle()
        replay = {"scenario": tag, "op": "impostor-hop", "payload": payload.hex()}
        for p in sim.passages[first:]:
            for (src, dst, cid, pt, re, body) in p.wires:
                readable = False
                for d in (0, 1):
                    try:
                        readable = readable or payload in keys_imp.decrypt_str(body, d)
                    except Exception:
                        pass
                if readable or payload in body:
                    ctx.oracle_fail("key_agreement:impostor-reads-data", f"{tag}: the party that answered the CREATE without the chosen hop's "
                                    "static key derives session keys under which the originator's data decrypts", {**replay, "datagram_body": body.hex()})
        forged = bytes([1]) + o.serializer.pack_serializable(DataPayload(c.circuit_id, ZERO, ("6.6.6.6", 6), b"FROM-THE-IMPOSTOR"))[4:]
        back = o.get_prefix() + b"\x00" + struct.pack("!I??", c.circuit_id, False, False) + keys_imp.encrypt_str(forged, 1)
        sim.inject(0, 1, back)
        await sim.settle()
        if sim.raw_log[n_raw:]:
            ctx.oracle_fail("key_agreement:impostor-data-delivered", f"{tag}: data encrypted by the party that answered the CREATE without the "
                            "chosen hop's static key was delivered to the originator", {**replay, "datagram": back.hex()})
        ctx.case(("impostor", "established"), True)
    finally:
        sim.hold.clear()
        await sim.stop()


# ------------------------------------------------------------------------------------------------------------------
def run_async(coro_fn):
    import logging
    import vclock
    logging.disable(logging.CRITICAL)
    loop = vclock.new_loop()
    errors = []
    loop.set_exception_handler(lambda lp, c: errors.append(repr(c.get("exception") or c.get("message"))[:200]))
    try:
        return loop.run_until_complete(coro_fn()), errors
    finally:
        vclock.uninstall()
        try:
            loop.run_until_complete(loop.shutdown_asyncgens())
        except Exception:
            pass
        loop.close()


def note_errs(ctx, errs):
    for e in errs:
        ctx.count("loop_exception")
        ctx.extra.setdefault("loop_exceptions", [])
        if len(ctx.extra["loop_exceptions"]) < 5:
            ctx.extra["loop_exceptions"].append(e)


def run(ctx: Ctx):
    if ctx.replay_input is not None:
        return replay(ctx, ctx.replay_input)
    use_model = ctx.model_ok
    rounds = ctx.scale(5, 24)
    for rnd in range(rounds):
        for hops in (1, 2, 3):
            sub = _random.Random(ctx.rng.getrandbits(64))
            allb = ((17, 279) if rnd == 0 else (0,) if rnd == 1 else ()) if ctx.thorough() else ()
            _, errs = run_async(lambda: run_plain(ctx, sub, hops, use_model, f"s{ctx.seed}r{rnd}", allb))
            note_errs(ctx, errs)
        sub = _random.Random(ctx.rng.getrandbits(64))
        allb = ((17, 279) if rnd == 0 else ()) if ctx.thorough() else ()
        _, errs = run_async(lambda: run_e2e(ctx, sub, use_model, f"s{ctx.seed}r{rnd}", allb, delay=5 if rnd % 2 else 0))
        note_errs(ctx, errs)
        sub = _random.Random(ctx.rng.getrandbits(64))
        _, errs = run_async(lambda: run_preready(ctx, sub, use_model, f"s{ctx.seed}r{rnd}"))
        note_errs(ctx, errs)
        for hops in (1, 2, 3):
            sub = _random.Random(ctx.rng.getrandbits(64))
            _, errs = run_async(lambda: run_teardown(ctx, sub, hops, use_model, f"s{ctx.seed}r{rnd}"))
            note_errs(ctx, errs)
        hops = 1 + rnd % 3
        sub = _random.Random(ctx.rng.getrandbits(64))
        _, errs = run_async(lambda: run_tunnel_endpoint(ctx, sub, hops, use_model, f"s{ctx.seed}r{rnd}"))
        note_errs(ctx, errs)
        sub = _random.Random(ctx.rng.getrandbits(64))
        _, errs = run_async(lambda: run_impostor(ctx, sub, use_model, f"s{ctx.seed}r{rnd}"))
        note_errs(ctx, errs)
        sub = _random.Random(ctx.rng.getrandbits(64))
        _, errs = run_async(lambda: run_dual_stack(ctx, sub, 1 + (rnd + 1) % 3, use_model, f"s{ctx.seed}r{rnd}"))
        note_errs(ctx, errs)


def search(ctx: Ctx, reason: str):
    for rnd in range(2):
        for hops in (1, 2, 3):
            sub = _random.Random(ctx.rng.getrandbits(64))
            run_async(lambda: run_plain(ctx, sub, hops, False, f"search{rnd}"))
        sub = _random.Random(ctx.rng.getrandbits(64))
        run_async(lambda: run_e2e(ctx, sub, False, f"search{rnd}"))
        sub = _random.Random(ctx.rng.getrandbits(64))
        run_async(lambda: run_preready(ctx, sub, False, f"search{rnd}"))
        for hops in (1, 2, 3):
            sub = _random.Random(ctx.rng.getrandbits(64))
            run_async(lambda: run_teardown(ctx, sub, hops, False, f"search{rnd}"))
            sub = _random.Random(ctx.rng.getrandbits(64))
            run_async(lambda: run_tunnel_endpoint(ctx, sub, hops, False, f"search{rnd}"))
            sub = _random.Random(ctx.rng.getrandbits(64))
            run_async(lambda: run_dual_stack(ctx, sub, hops, False, f"search{rnd}"))
        sub = _random.Random(ctx.rng.getrandbits(64))
        run_async(lambda: run_impostor(ctx, sub, False, f"search{rnd}"))


def replay(ctx: Ctx, rec: dict):
    """Session keys are fresh random values in every run, so a recorded datagram cannot be re-sent literally; a replay
    re-runs the recorded seed and tier (all scenario choices, sizes, links and byte positions derive from the seed) and
    reports whether the recorded signature fails again."""
    r = rec.get("replay", rec)
    sig = rec.get("signature")
    print("replay of:", sig, {k: (v if len(str(v)) < 60 else str(v)[:60] + "...") for k, v in r.items()})
    ctx.seed = int(rec.get("seed", ctx.seed))
    ctx.tier = rec.get("tier", ctx.tier)
    ctx.rng = _random.Random(ctx.seed)
    ctx.replay_input = None
    run(ctx)
    again = [f for f in ctx.failures if f["signature"] == sig]
    print(f"replay: signature {sig} {'FAILS again' if again else 'does not fail'} ({len(ctx.failures)} oracle failures in total)")
