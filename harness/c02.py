"""
C02 — every shipped wire message survives encode/decode unchanged.

Link to the code
  * translator tools/gen_c02.py: live packer registry + every Serializable's format_list/names/msg_id -> Gen.lean;
    frozen documented table spec/doc_wire_format.json -> GenSpec.lean; table theorems are re-proved by `decide`.
  * correspondence (driver drv_c02): type-directed legal (and a few illegal) values per registered packer, per shipped class,
    per random ad-hoc format list (nested / listed), at random offsets inside random prefix/suffix bytes:
    real bytes vs model `pack`; real (fields, new offset) vs model `unpackAt`; hand-written to_pack_list/from_unpack_list
    vs the model of the old-style payloads; CellPayload.to_bin/from_bin; unpack_serializable_list(consume_all).
  * oracle (independent of the model, evaluated on the implementation for every legal case):
    decode(encode(x)) == x field by field, consumed == produced, re-encode equal, bytes == an independent encoder written
    from the documented table (spec JSON), shipped layouts/msg ids == frozen.
"""
from __future__ import annotations

import json
import random
import socket
import struct

import gen_c02
from vlib import Ctx, TranslatorError

PROPERTY = "C02"
LEAN_TARGETS = ["Ipv8.C02.Props"]
PROPS_FILE = "Ipv8/C02/Props.lean"
DRIVER = "drv_c02"
RULE = ("cases: (registered packer | shipped class | random ad-hoc format list | cell | payload list) x type-directed value "
        "(boundary integers, empty/maximal byte strings, IPv4/IPv6/domain, all 256 bit combinations, NaN/+-0/denormal "
        "float patterns) x embedding (offset 0 | random prefix+suffix | nested in `payload` | listed in `payload-list`); "
        "distinct = distinct (section, name, value token, offset); non-trivial = value is not the type's all-zero/empty "
        "value or offset > 0")
TRUSTED_BASE = [
    "tools/gen_c02.py: reads live packer objects by exact class + constructor state, and class attributes format_list/names/msg_id",
    "spec/doc_wire_format.json: hand transcription of the Datatypes table of doc/reference/serialization.rst "
    "(typos 32s/64s/74s resolved by type name); frozen_undocumented / layouts / msg_ids are the pinned commit's values",
    "hand-written Lean model of the packers, of the 16 old-style to_pack_list/from_unpack_list pairs and of CellPayload "
    "(Ipv8/C02/Model.lean, OldPayloads.lean), tied by the correspondence run",
    "struct float conversion, socket.inet_pton/inet_ntop/inet_aton/inet_ntoa, the UTF-8 codec, array.array, key parsing in dht Node",
]
ASSUMPTIONS = [
    "legal values: integers within the format's range; byte strings of exactly N bytes for 'Ns'; len % unit == 0 and "
    "len/unit below the prefix range for varlen; canonical IP text; host names that do not parse as IP; valid UTF-8; "
    "flags = ascending distinct powers of two; `raw` last and followed by nothing",
    "text and IP conversion are outside the model (text is carried as UTF-8 bytes, IPs in binary form)",
]

S_PACKERS, S_CLASSES, S_ADHOC, S_CELL, S_ULIST, S_BITS, S_SPEC = "packers", "classes", "adhoc", "cell", "ulist", "bits", "spec"


# =====================================================================================================================
# value <-> model token, by layout description (the dicts produced by gen_c02.packer_to_desc / the spec JSON)
# =====================================================================================================================
def hx(b: bytes) -> str:
    return b.hex() if b else "-"


ADDR_CLASS_FAMILY = {"UDPv4Address": "v4", "UDPv6Address": "v6", "DomainAddress": "domain"}


def addr_token(a, v4_only=False) -> str:
    host, port = a[0], a[1]
    fam = ADDR_CLASS_FAMILY.get(type(a).__name__)
    if fam is not None and not v4_only:
        # a DECODED address: the family is the one its class states (a v6 address delivered as UDPv4Address is another value)
        try:
            if fam == "v4":
                return f"a4:{hx(socket.inet_pton(socket.AF_INET, host))}:{port}"
            if fam == "v6":
                return f"a6:{hx(socket.inet_pton(socket.AF_INET6, host))}:{port}"
            return f"ad:{hx(host.encode())}:{port}"
        except OSError:
            return f"a?{fam}:{host}:{port}"
    if v4_only:
        return f"a4:{hx(socket.inet_aton(host))}:{port}"
    try:
        return f"a4:{hx(socket.inet_pton(socket.AF_INET, host))}:{port}"
    except OSError:
        pass
    try:
        return f"a6:{hx(socket.inet_pton(socket.AF_INET6, host))}:{port}"
    except OSError:
        pass
    return f"ad:{hx(host.encode())}:{port}"


def atom_token(kind: str, w: int, v) -> str:
    if kind == "uint":
        return f"n{int(v)}"
    if kind == "sint":
        return f"i{int(v)}"
    if kind == "bool":
        if not isinstance(v, bool):
            return f"n{int(v)}" if isinstance(v, int) else "x" + hx(bytes(v))
        return "b1" if v else "b0"
    if kind in ("char", "fixed"):
        return "x" + hx(bytes(v))
    if kind == "float":
        return "f" + hx(struct.pack(">f" if w == 4 else ">d", v))
    raise ValueError(kind)


def token(d: dict, v) -> str:
    """model token of python value `v` for layout `d` (for multi-field structs and bits `v` is the argument tuple)"""
    k = d["kind"]
    if k == "struct":
        fs = d["fields"]
        if len(fs) == 1:
            return atom_token(fs[0][0], fs[0][1], v)
        return "T(" + ",".join(atom_token(f[0], f[1], x) for f, x in zip(fs, v, strict=True)) + ")"
    if k == "bits":
        return "T(" + ",".join(f"n{1 if x else 0}" for x in v) + ")"
    if k == "ipv4":
        return addr_token(v, v4_only=True)
    if k == "address":
        return addr_token(v)
    if k in ("raw", "varlen"):
        return "x" + hx(bytes(v))
    if k == "varlenUtf8":
        return "s" + hx(v.encode())
    if k == "listOf":
        return "L(" + ",".join(token(d["elem"], x) for x in v) + ")"
    if k == "array":
        e = d["elem"]
        if e == "bool":
            return "A(" + ",".join(("b1" if x else "b0") if isinstance(x, bool) else f"n{int(x)}" for x in v) + ")"
        if e == "q":
            return "A(" + ",".join(f"i{int(x)}" for x in v) + ")"
        return "A(" + ",".join("f" + hx(struct.pack(">d", x)) for x in v) + ")"
    if k == "flags":
        return "F(" + ",".join(str(int(x)) for x in v) + ")"
    if k == "node":
        return f"N({addr_token(v.address)};{hx(v.public_key.key_to_bin())})"
    if k == "nested":     # v: list of per-format python values (pack-list shape)
        return "R(" + ",".join(token(f, x) for f, x in zip(d["fields"], v, strict=True)) + ")"
    raise ValueError(k)


def fmt_token(d: dict) -> str:
    k = d["kind"]
    if k == "struct":
        m = {"uint": "u", "sint": "i", "fixed": "x", "float": "f"}
        return "S[" + ",".join("b" if f[0] == "bool" else "c" if f[0] == "char" else m[f[0]] + str(f[1])
                               for f in d["fields"]) + "]"
    if k in ("bits", "ipv4", "raw", "node"):
        return k
    if k == "address":
        return "addr1" if d["ip_only"] else "addr0"
    if k == "varlen":
        return f"V{d['len_width']}:{d['unit']}"
    if k == "varlenUtf8":
        return f"U{d['len_width']}:{d['unit']}"
    if k == "listOf":
        return f"L{d['len_width']}({fmt_token(d['elem'])})"
    if k == "array":
        return f"A{d['len_width']}{'b' if d['elem'] == 'bool' else d['elem']}"
    if k == "flags":
        return f"F{d['width']}"
    if k == "nested":
        return "P(" + ",".join(fmt_token(f) for f in d["fields"]) + ")"
    raise ValueError(k)


# =====================================================================================================================
# independent encoder written from the documented table (int.to_bytes, no use of the library under test)
# =====================================================================================================================
class NotEncodable(Exception):
    pass


def doc_atom(kind, w, v) -> bytes:
    if kind == "uint":
        return int(v).to_bytes(w, "big", signed=False)
    if kind == "sint":
        return int(v).to_bytes(w, "big", signed=True)
    if kind == "bool":
        return b"\x01" if v else b"\x00"
    if kind == "char":
        if len(v) != 1:
            raise NotEncodable
        return bytes(v)
    if kind == "fixed":
        if len(v) != w:
            raise NotEncodable
        return bytes(v)
    if kind == "float":
        return struct.pack(">f" if w == 4 else ">d", v)
    raise ValueError(kind)


def doc_addr(a, ip_only) -> bytes:
    host, port = a[0], a[1]
    try:
        return b"\x01" + socket.inet_pton(socket.AF_INET, host) + port.to_bytes(2, "big")
    except OSError:
        pass
    try:
        return b"\x03" + socket.inet_pton(socket.AF_INET6, host) + port.to_bytes(2, "big")
    except OSError:
        pass
    if ip_only:
        raise NotEncodable
    h = host.encode()
    return b"\x02" + len(h).to_bytes(2, "big") + h + port.to_bytes(2, "big")


def doc_encode(d: dict, v) -> bytes:
    k = d["kind"]
    if k == "struct":
        fs = d["fields"]
        if len(fs) == 1:
            return doc_atom(fs[0][0], fs[0][1], v)
        return b"".join(doc_atom(f[0], f[1], x) for f, x in zip(fs, v, strict=True))
    if k == "bits":
        n = 0
        for x in v:      # "bit 0 … bit 7": first member is the most significant bit
            n = (n << 1) | (1 if x else 0)
        return bytes([n])
    if k == "ipv4":
        return socket.inet_aton(v[0]) + v[1].to_bytes(2, "big")
    if k == "address":
        return doc_addr(v, d["ip_only"])
    if k == "raw":
        return bytes(v)
    if k == "varlen":
        if len(v) % d["unit"]:
            raise NotEncodable
        return (len(v) // d["unit"]).to_bytes(d["len_width"], "big") + bytes(v)
    if k == "varlenUtf8":
        e = v.encode()
        return (len(e) // d["unit"]).to_bytes(d["len_width"], "big") + e
    if k == "listOf":
        return len(v).to_bytes(d["len_width"], "big") + b"".join(doc_encode(d["elem"], x) for x in v)
    if k == "array":
        e = d["elem"]
        body = b"".join((b"\x01" if x else b"\x00") if e == "bool" else
                        int(x).to_bytes(8, "big", signed=True) if e == "q" else struct.pack(">d", x) for x in v)
        return len(v).to_bytes(d["len_width"], "big") + body
    if k == "flags":
        n = 0
        for x in v:
            n |= int(x)
        return n.to_bytes(d["width"], "big")
    if k == "node":
        key = v.public_key.key_to_bin()
        return doc_addr(v.address, True) + len(key).to_bytes(2, "big") + key
    if k == "nested":
        body = b"".join(doc_encode(f, x) for f, x in zip(d["fields"], v, strict=True))
        return len(body).to_bytes(2, "big") + body
    raise ValueError(k)


def doc_encode_body(d: dict, v) -> bytes:
    """the fields of a message (a `nested` layout) one after the other, without a length prefix"""
    return b"".join(doc_encode(f, x) for f, x in zip(d["fields"], v, strict=True))


# =====================================================================================================================
# generators of legal values
# =====================================================================================================================
def rbytes(rng, n):
    return bytes(rng.getrandbits(8) for _ in range(n))


FLOAT32 = [b"\x00\x00\x00\x00", b"\x80\x00\x00\x00", b"\x7f\xc0\x00\x00", b"\x7f\xa0\x00\x01", b"\xff\x80\x00\x00",
           b"\x7f\x80\x00\x00", b"\x00\x00\x00\x01", b"\x3f\x80\x00\x00", b"\x7f\x7f\xff\xff"]
FLOAT64 = [bytes(8), b"\x80" + bytes(7), b"\x7f\xf8" + bytes(6), b"\x7f\xf0" + bytes(6), b"\xff\xf0" + bytes(6),
           bytes(7) + b"\x01", b"\x3f\xf0" + bytes(6), b"\x7f\xef" + b"\xff" * 6, b"\x7f\xf8\x00\x00\x00\x00\x00\x01"]
HOSTS = ["localhost", "tracker.example.org", "a", "xn--mnchen-3ya.de", "münchen.example", "例え.jp",
         "host-\U0001f600.test", "1.2.3", "999.1.1.1", "", "a" * 63 + ".example", "not an ip"]
TEXTS = ["", "a", "hello world", "éè", "€ uro", "\U0001f600\U0001f601", "\x00nul", "tab\tnew\nline",
         "퟿", "\U0010ffff", "\u0080߿ࠀ￿"]


def gen_uint(rng, w):
    top = 256 ** w
    return rng.choice([0, 1, top - 1, top // 2, top // 2 - 1, 255 % top, 256 % top, rng.randrange(top), rng.randrange(top)])


def gen_sint(rng, w):
    h = 256 ** w // 2
    return rng.choice([-h, h - 1, -1, 0, 1, -h + 1, rng.randrange(-h, h), rng.randrange(-h, h)])


def gen_float(rng, w):
    pats = FLOAT32 if w == 4 else FLOAT64
    b = rng.choice(pats) if rng.random() < 0.6 else rbytes(rng, w)
    return struct.unpack(">f" if w == 4 else ">d", b)[0]


def gen_fixed(rng, n):
    return rng.choice([bytes(n), b"\xff" * n, rbytes(rng, n), rbytes(rng, max(n - 1, 0)) + b"\x00" * min(n, 1), rbytes(rng, n)])


def gen_port(rng):
    return rng.choice([0, 1, 80, 65535, 32768, rng.randrange(65536), rng.randrange(65536)])


def gen_ipv4(rng):
    return rng.choice(["0.0.0.0", "255.255.255.255", "127.0.0.1", "10.0.0.255", socket.inet_ntoa(rbytes(rng, 4)),
                       socket.inet_ntoa(rbytes(rng, 4))])


def gen_ipv6(rng):
    raw = rng.choice([bytes(16), bytes(15) + b"\x01", bytes(10) + b"\xff\xff" + rbytes(rng, 4), b"\xff" * 16,
                      b"\xfe\x80" + bytes(6) + rbytes(rng, 8), rbytes(rng, 16), rbytes(rng, 16),
                      rbytes(rng, 2) + bytes(12) + rbytes(rng, 2)])
    return socket.inet_ntop(socket.AF_INET6, raw)


def gen_address(rng, ip_only, ctx=None):
    r = rng.random()
    if r < 0.35 or (ip_only and r < 0.55):
        kind, host = "v4", gen_ipv4(rng)
    elif r < 0.62 or ip_only:
        kind, host = "v6", gen_ipv6(rng)
    else:
        kind, host = "domain", rng.choice(HOSTS)
    if ctx is not None:
        ctx.count("address:" + kind)
    return (host, gen_port(rng))


def gen_bytes_len(rng, big_ok=True):
    return rng.choice([0, 0, 1, 2, 3, 19, 20, 21, 64, 74, 255, 256, rng.randrange(0, 40), rng.randrange(0, 300)]
                      + ([1400, 2000] if big_ok else []))


_KEYS = []


def gen_node(rng):
    from ipv8.dht.routing import Node
    key = b"LibNaCLPK:" + rbytes(rng, 64)
    return Node(key, address=gen_address(rng, True))


def gen_value(rng, d: dict, ctx=None, depth=0, maximal=False):
    """a legal python value for layout d (for multi-field structs / bits: the tuple of pack arguments)"""
    k = d["kind"]
    if k == "struct":
        vals = []
        for kind, w in d["fields"]:
            vals.append(gen_uint(rng, w) if kind == "uint" else gen_sint(rng, w) if kind == "sint" else
                        rng.random() < 0.5 if kind == "bool" else rbytes(rng, 1) if kind == "char" else
                        gen_fixed(rng, w) if kind == "fixed" else gen_float(rng, w))
        return vals[0] if len(vals) == 1 else tuple(vals)
    if k == "bits":
        n = rng.randrange(256)
        return tuple((n >> (7 - i)) & 1 for i in range(8))
    if k == "ipv4":
        return (gen_ipv4(rng), gen_port(rng))
    if k == "address":
        return gen_address(rng, d["ip_only"], ctx)
    if k == "raw":
        return rbytes(rng, gen_bytes_len(rng))
    if k == "varlen":
        u, lim = d["unit"], 256 ** d["len_width"]
        if maximal:
            cnt = min(lim - 1, 70000 // u)
        else:
            cnt = rng.choice([0, 1, 2, 3, rng.randrange(0, 12), min(lim - 1, 255), min(lim - 1, 256) if u == 1 else 7])
        if cnt * u > 70000:
            cnt = 70000 // u
        return rbytes(rng, cnt * u)
    if k == "varlenUtf8":
        s = rng.choice(TEXTS) if rng.random() < 0.6 else "".join(rng.choice(TEXTS) for _ in range(rng.randrange(1, 6)))
        if maximal and d["len_width"] == 2:
            s = ("€" * 21845)          # 65535 encoded bytes
        return s
    if k == "listOf":
        cnt = rng.choice([0, 1, 2, 3, rng.randrange(0, 6)]) if depth < 2 else rng.choice([0, 1])
        if maximal and d["len_width"] == 1 and d["elem"]["kind"] in ("varlen", "struct"):
            cnt = 255
        return [gen_value(rng, d["elem"], ctx, depth + 1) for _ in range(cnt)]
    if k == "array":
        cnt = rng.choice([0, 1, 2, 5, rng.randrange(0, 10), 300 if maximal else 3])
        e = d["elem"]
        if e == "bool":
            return [rng.random() < 0.5 for _ in range(cnt)]
        if e == "q":
            return [gen_sint(rng, 8) for _ in range(cnt)]
        return [gen_float(rng, 8) for _ in range(cnt)]
    if k == "flags":
        bits = 8 * d["width"]
        r = rng.random()
        sel = [] if r < 0.15 else list(range(bits)) if r < 0.25 else sorted(rng.sample(range(bits), rng.randrange(1, min(bits, 6))))
        return [2 ** i for i in sel]
    if k == "node":
        return gen_node(rng)
    if k == "nested":
        return [gen_value(rng, f, ctx, depth + 1) for f in d["fields"]]
    raise ValueError(k)


def is_trivial(d, v) -> bool:
    try:
        b = doc_encode(d, v)
    except Exception:
        return False
    return not any(b)


# =====================================================================================================================
# comparing python values field by field (NaN-safe, Node/Payload aware)
# =====================================================================================================================
def same(a, b) -> bool:
    from ipv8.messaging.serialization import Serializable
    if isinstance(a, float) and isinstance(b, float):
        return struct.pack(">d", a) == struct.pack(">d", b)
    if isinstance(a, (list, tuple)) and isinstance(b, (list, tuple)):
        if isinstance(a, list) != isinstance(b, list) and not (isinstance(a, tuple) and isinstance(b, tuple)):
            return False
        return len(a) == len(b) and all(same(x, y) for x, y in zip(a, b))
    if hasattr(a, "public_key") and hasattr(b, "public_key"):
        return a.public_key.key_to_bin() == b.public_key.key_to_bin() and same(tuple(a.address), tuple(b.address))
    if isinstance(a, Serializable) and isinstance(b, Serializable):
        return type(a) is type(b) and same(public_attrs(a), public_attrs(b))
    if isinstance(a, (bytes, str, int, bool, type(None))) and isinstance(b, (bytes, str, int, bool, type(None))):
        if isinstance(a, (bytes, str)) != isinstance(b, (bytes, str)) or isinstance(a, bytes) != isinstance(b, bytes):
            return False
        if isinstance(a, bool) != isinstance(b, bool):
            return False        # a `?` / arrayH-? value is a bool, not the integer 1 (bit flags are normalised by `norm`)
        return a == b
    if isinstance(a, (set, frozenset)) and isinstance(b, (set, frozenset)):
        return type(a) is type(b) and len(a) == len(b) and all(any(same(x, y) for y in b) for x in a)
    return type(a) is type(b) and a == b


def public_attrs(obj):
    return sorted((k, v) for k, v in vars(obj).items() if not k.startswith("_"))


def short_repr(v, n=300):
    r = repr(v)
    return r if len(r) <= n else r[:n] + "…"


# =====================================================================================================================
KIND_MARKS = [("struct", r"S\["), ("bits", r"bits"), ("ipv4", r"ipv4"), ("address", r"addr[01]"), ("raw", r"raw"),
              ("varlen", r"V\d+:"), ("varlenUtf8", r"U\d+:"), ("listOf", r"L\d+\("), ("array", r"A\d+[bqd]"),
              ("nested", r"P\("), ("flags", r"F\d"), ("node", r"node")]


# branch classes of the hand-written model (and generator classes) that EVERY full run must reach; a run in which one of
# them stays at zero ends with exit 2 (coverage lost), not with a pass.  `x*` = some key with this prefix.
REQUIRED = (
    [f"model:{op}:{k}:ok" for op in ("pack", "unpack") for k, _ in KIND_MARKS]
    + [f"model:{op}:struct-field:{f}" for op in ("pack", "unpack") for f in "uibcxf"]
    + [f"model:{op}:array-elem:{a}" for op in ("pack", "unpack") for a in "bqd"]
    + [f"model:unpack:address-family:{f}" for f in ("a4", "a6", "ad")]
    + ["model:unpack:err:short", "model:unpack:err:utf8", "model:unpack:err:addr", "model:pack:err:range",
       "model:pack:err:addr", "model:pack:err:type", "model:dlist:ok", "model:dlist:err:extra",
       "model:encode:ok", "model:decode:ok", "model:init:ok", "model:cell:tobin:ok", "model:cell:frombin:ok",
       "model:cell:unwrap:ok", "model:dc:raise", "model:dc:inst", "model:dc:decoded-as-itself-or-base",
       "model:dcrule:list", "model:dcrule:tuple", "model:dcrule:set", "model:reg:unknown-name", "model:reg:resolved",
       "iso_registration:override-default", "iso_registration:fresh-name", "iso_scenario:name-shared-between-overlays",
       "dc_recv:known-finding:never-converted", "dc_recv:known-finding:ancestor-converted",
       "dc_recv:known-finding:unconverted-member", "dc_recv:as-expected-by-property", "dc_container_chain:tuple>list*",
       "dc_reannotated_inherited_field", "adhoc_hook:compiled:behind-bits", "adhoc_hook:interpreted:behind-bits",
       "nested_body_size:32768-65535", "ctor_int_arg:max", "ctor_arg:out-of-domain", "foreign_datagram",
       "serializer_api:name", "serializer_api:class", "serializer_api:class-list", "golden:old_wire",
       "golden:frozen_layout", "embedding:nested", "embedding:listed", "offset:0", "offset:23+", "address:domain",
       "model:ezunpack:auth:ok", "model:ezunpack:noauth:ok",
       "framed_entry:ezr_pack:signed", "framed_entry:ezr_pack:unsigned", "framed_entry:_ez_senda:signed",
       "framed_entry:_ez_senda:unsigned", "framed_entry:ez_send:signed", "framed_entry:ez_send:unsigned", "framed:signed:key-with-trailing-bytes:*",
       "framed:signed:key-canonical:*", "history:key-seen-before-with-other-address-family",
       "history:key-seen-before-same-family"])



class Run:
    """one harness run: accumulates driver lines with the implementation's answer, diffs at the end"""

    def __init__(self, ctx: Ctx, info: dict, spec: dict, use_model: bool, only=None):
        self.ctx, self.info, self.spec, self.use_model = ctx, info, spec, use_model
        self.only = only          # (section, index) when replaying
        self.lines: list[tuple[str, str, dict]] = []
        from ipv8.messaging.serialization import Serializer
        self.ser = self.make_serializer()
        self.doc = {e["name"]: e["layout"] for e in spec["documented"] + spec["frozen_undocumented"]}

    def make_serializer(self):
        """a Serializer with every packer any shipped overlay registers (as the overlays do it)"""
        from ipv8.dht.community import DHTCommunity
        from ipv8.messaging.anonymization.community import TunnelCommunity
        from ipv8.messaging.serialization import Serializer
        ser = Serializer()
        for cls in (DHTCommunity, TunnelCommunity):
            extra = object.__new__(cls).get_serializer()
            for name, p in extra._packers.items():
                if name not in ser._packers:
                    if hasattr(p, "packer") and hasattr(p.packer, "serializer"):
                        p.packer.serializer = ser
                    if hasattr(p, "serializer"):
                        p.serializer = ser
                    ser.add_packer(name, p)
        return ser

    def rng_for(self, section: str, idx=None) -> random.Random:
        """one PRNG per case, derived from the run seed: a replay regenerates exactly the case it names"""
        return random.Random(f"{self.ctx.seed}:{self.ctx.tier}:{section}:{'s' if self.ctx.searching else 'r'}:{idx}")

    def branch_keys(self, line: str, reply: str) -> list[str]:
        """which branches of the hand-written model a driver line went through (counted as `model:*` in the evidence)"""
        import re
        t = line.split(" ")
        op = t[0]
        out = []
        ok = reply.startswith("ok") or (op in ("dc", "dcrule", "reg") and reply != "bad-op")
        res = "ok" if ok else ("err:" + reply[4:] if reply.startswith("err") else reply[:12])
        if op in ("pack", "unpack", "packl", "unpackl") and len(t) > 1:
            ftok = t[1]
            if ftok.startswith("@"):
                d = self.info["registry"].get(ftok[1:])
                ftok = fmt_token(d) if d and d["kind"] not in ("payload", "payloadList") else ""
            base = "pack" if op.startswith("pack") else "unpack"
            if ok:
                for kind, pat in KIND_MARKS:
                    if re.search(pat, ftok):
                        out.append(f"model:{base}:{kind}:ok")
                for fk in set(re.findall(r"[\[,]([uibcxf])", ftok)):
                    out.append(f"model:{base}:struct-field:{fk}")
                for ak in set(re.findall(r"A\d+([bqd])", ftok)):
                    out.append(f"model:{base}:array-elem:{ak}")
                if base == "unpack":
                    for fam in set(re.findall(r"\b(a4|a6|ad):", reply)):
                        out.append(f"model:unpack:address-family:{fam}")
            else:
                out.append(f"model:{base}:{res}")
        elif op in ("encode", "decode", "dlist"):
            out.append(f"model:{op}:{res}")
            if ok and op != "dlist":
                out.append(f"model:{op}:class:{t[1].rpartition('.')[2]}")
        elif op == "old" and len(t) > 2:
            out.append(f"model:init:{res}")
        elif op == "ulist":
            out.append(f"model:ulist:{res}")
        elif op == "cell":
            out.append(f"model:cell:{t[1]}:{res}")
        elif op == "dc":
            out.append("model:dc:" + ("raise" if reply.startswith("raise") else "inst" if reply.startswith("inst") else
                                      "decoded-as-itself-or-base"))
        elif op == "ezunpack":
            out.append(f"model:ezunpack:{'noauth' if t[1] == '-' else 'auth'}:{res}")
        elif op == "dcrule":
            out.append("model:dcrule:" + reply)
        elif op == "reg":
            out.append("model:reg:" + ("unknown-name" if reply == "none" else "resolved"))
        return out

    def missing_required(self) -> list[str]:
        c = self.ctx.counts
        need = list(REQUIRED)
        for p in self.info["payloads"]:
            if p["kind"] != "old" or type(self).old_known(p):
                cn = p["name"].rpartition(".")[2]
                need += [f"model:encode:class:{cn}", f"model:decode:class:{cn}"]
        miss = []
        for k in need:
            if k.endswith("*"):
                if not any(x.startswith(k[:-1]) and v > 0 for x, v in c.items()):
                    miss.append(k)
            elif c.get(k, 0) <= 0:
                miss.append(k)
        return miss

    @staticmethod
    def old_known(p) -> bool:
        return p["name"].rpartition(".")[2] in OLD

    LIMITED = ("DataClassPayload:decode-before-first-instance",)

    def fail_limited(self, signature, what, rep):
        """oracle failure; signatures that are recorded known findings are reported a few times per run and counted
        afterwards, so that they cannot crowd new failures out of the runner's bounded failure list"""
        if signature in self.LIMITED:
            k = "known_signature_occurrences:" + signature
            self.ctx.count(k)
            if self.ctx.counts[k] > 3:
                return
        self.ctx.oracle_fail(signature, what, rep)

    def want(self, section, i) -> bool:
        return self.only is None or self.only == (section, i)

    def model(self, line: str, impl: str, replay: dict):
        self.lines.append((line, impl, replay))

    def flush(self):
        if not self.use_model or not self.lines:
            return
        d = self.ctx.driver()
        replies = d.batch([ln for ln, _, _ in self.lines], timeout=1200)
        for (ln, impl, rep), mod in zip(self.lines, replies):
            for k in self.branch_keys(ln, mod):
                self.ctx.count(k)
            if mod.startswith("err"):
                self.ctx.count("model_error:" + mod[4:])
                mod = "err"
            if mod != impl and rep.get("tolerate_impl_err") and impl == "err":
                self.ctx.count("malformed:node-key-rejected")
                continue
            if mod != impl:
                self.ctx.disagree(f"model {mod[:160]!r} != implementation {impl[:160]!r} on `{ln[:200]}`",
                                  {**rep, "line": ln[:4000], "model": mod[:2000], "impl": impl[:2000]})
        self.lines = []

    # -----------------------------------------------------------------------------------------------------------------
    force_pre = None

    def embed(self, rng, packed: bytes, ends_in_raw: bool):
        mode = rng.choice(["zero", "pre", "pre", "both", "both", "both"])
        pre = b"" if mode == "zero" else rbytes(rng, rng.choice([1, 2, 3, 7, 22, 23, 31, rng.randrange(1, 80), rng.randrange(1, 80),
                                                                 rng.choice([255, 256, 1400, 1500])]))
        if self.force_pre is not None:
            pre, mode = rbytes(rng, self.force_pre), "both"
        post = b"" if (mode in ("zero", "pre") or ends_in_raw) else rbytes(rng, rng.randrange(1, 12))
        self.ctx.count("offset:" + ("0" if not pre else "1-22" if len(pre) < 23 else "23+"))
        self.ctx.count("suffix:" + ("none" if not post else "some"))
        return pre, post

    # --- section: registered packers ------------------------------------------------------------------------------------
    def packer_args(self, d, v):
        """the *args with which Serializer.pack_serializable would call packer.pack"""
        if d["kind"] == "bits" or (d["kind"] == "struct" and len(d["fields"]) > 1):
            return tuple(v)
        return (v,)

    def unpack_packer(self, name, d, data, off):
        """-> (python value in pack-argument shape, new offset)"""
        lst: list = []
        new = self.ser.get_packer_for(name).unpack(data, off, lst)
        if d["kind"] == "bits":
            return tuple(lst), new
        if len(lst) != 1:
            raise AssertionError(f"packer {name} appended {len(lst)} values")
        return lst[0], new

    def packers(self, n_per: int):
        ctx = self.ctx
        reg = self.info["registry"]
        names = [n for n, d in reg.items() if d["kind"] not in ("payload", "payloadList")]
        idx = 0
        for name in names:
            d = reg[name]
            for j in range(n_per):
                idx += 1
                if not self.want(S_PACKERS, idx):
                    continue
                rng = self.rng_for(S_PACKERS, idx)
                maximal = (j == n_per - 1)
                v = gen_value(rng, d, ctx, maximal=maximal)
                self.one_packer(rng, name, d, v, idx)

    def one_packer(self, rng, name, d, v, idx, section=S_PACKERS):
        ctx = self.ctx
        rep = {"section": section, "index": idx, "packer": name, "value": short_repr(v)}
        site = f"{type(self.ser.get_packer_for(name)).__name__}[{name}]"
        tok = token(d, v)
        ctx.count("packer:" + name)
        try:
            packed = self.ser.get_packer_for(name).pack(*self.packer_args(d, v))
        except Exception as e:
            ctx.oracle_fail(f"{site}:pack-raises", f"packing legal value {short_repr(v)} raises {type(e).__name__}: {e}", rep)
            self.model(f"pack @{name} {tok}", "err", rep)
            return
        self.model(f"pack @{name} {tok}", "ok " + hx(packed), rep)
        # documented bytes
        docd = self.doc.get(name)
        if docd is not None and docd["kind"] not in ("payload", "payloadList"):
            try:
                want = doc_encode(docd, v)
            except NotEncodable:
                want = None
            except (OverflowError, struct.error, ValueError, TypeError, AttributeError) as e:
                want = None
                ctx.oracle_fail(f"{site}:doc-bytes", f"{name}: the code encodes {short_repr(v, 120)} as {packed.hex()[:80]} but the value "
                                f"does not fit the documented format ({type(e).__name__}: {e})", {**rep, "bytes": packed.hex()[:400]})
            if want is not None and want != packed:
                ctx.oracle_fail(f"{site}:doc-bytes", f"{name}: value {short_repr(v)} is encoded as {packed.hex()[:120]} but the "
                                f"documented format prescribes {want.hex()[:120]}", {**rep, "bytes": packed.hex()[:400],
                                                                                     "documented": want.hex()[:400]})
        pre, post = self.embed(rng, packed, d["kind"] == "raw")
        data, off = pre + packed + post, len(pre)
        rep = {**rep, "offset": off, "data": data.hex()[:600]}
        ctx.count("size:" + ("0" if not packed else "1-8" if len(packed) <= 8 else "9-64" if len(packed) <= 64 else
                             "65-1500" if len(packed) <= 1500 else "1500+"))
        try:
            got, new = self.unpack_packer(name, d, data, off)
        except Exception as e:
            ctx.oracle_fail(f"{site}:unpack-raises", f"decoding the encoding of {short_repr(v)} at offset {off} raises "
                            f"{type(e).__name__}: {e}", rep)
            self.model(f"unpack @{name} {hx(data)} {off}", "err", rep)
            ctx.case((S_PACKERS, name, tok, off), True)
            return
        try:
            gtok = token(d, got)
        except Exception:
            gtok = "untokenizable:" + short_repr(got, 80)
        self.model(f"unpack @{name} {hx(data)} {off}", f"ok {gtok} {new}", rep)
        if not same(self.norm(d, v), self.norm(d, got)):
            ctx.oracle_fail(f"{site}:value", f"{name}: {short_repr(v)} decodes as {short_repr(got)}", rep)
        for msg in self.addr_class_errors(d, got)[:1]:
            ctx.oracle_fail(f"{site}:address-class", f"{name}: {msg}", rep)
        # the public Serializer.pack / Serializer.unpack dispatch must agree with the packer (single-argument formats)
        if d["kind"] != "bits" and not (d["kind"] == "struct" and len(d["fields"]) > 1):
            try:
                if self.ser.pack(name, v) != packed:
                    ctx.oracle_fail("Serializer.pack:dispatch", f"Serializer.pack({name!r}, …) differs from the packer's bytes", rep)
                g2, n2 = self.ser.unpack(name, data, off)
                if not same(self.norm(d, g2), self.norm(d, got)) or n2 != new:
                    ctx.oracle_fail("Serializer.unpack:dispatch", f"Serializer.unpack({name!r}, data, {off}) = "
                                    f"({short_repr(g2, 80)}, {n2}) but the packer gives ({short_repr(got, 80)}, {new})", rep)
                ctx.count("serializer_api:name")
            except Exception as e:
                ctx.oracle_fail("Serializer.unpack:dispatch", f"Serializer.pack/unpack({name!r}) raises {type(e).__name__}: {e}", rep)
        if new != off + len(packed):
            ctx.oracle_fail(f"{site}:offset", f"{name}: decoding at offset {off} consumed up to {new}, produced bytes end at "
                            f"{off + len(packed)}", rep)
        try:
            again = self.ser.get_packer_for(name).pack(*self.packer_args(d, got))
            if again != packed:
                ctx.oracle_fail(f"{site}:reencode", f"{name}: re-encoding the decoded value gives other bytes", rep)
        except Exception as e:
            ctx.oracle_fail(f"{site}:reencode", f"{name}: re-encoding the decoded value raises {type(e).__name__}", rep)
        ctx.case((S_PACKERS, name, tok, off), off > 0 or not is_trivial(d, v))
        ctx.sample({"packer": name, "value": short_repr(v, 80), "offset": off, "bytes": packed.hex()[:60]})

    def addr_class_errors(self, d, v) -> list[str]:
        """decoded addresses must be of the endpoint address class of their family (spec: address_classes)"""
        want = self.spec.get("address_classes")
        if not want:
            return []
        k = d["kind"]
        out = []
        try:
            if k in ("ipv4", "address"):
                if k == "ipv4":
                    fam = "v4"
                else:
                    try:
                        socket.inet_pton(socket.AF_INET, v[0])
                        fam = "v4"
                    except OSError:
                        try:
                            socket.inet_pton(socket.AF_INET6, v[0])
                            fam = "v6"
                        except OSError:
                            fam = "domain"
                if type(v).__name__ != want[fam]:
                    out.append(f"address {tuple(v)!r} of family {fam} is delivered as {type(v).__name__}, expected {want[fam]}")
            elif k == "listOf":
                for x in v:
                    out += self.addr_class_errors(d["elem"], x)
            elif k == "nested":
                for f, x in zip(d["fields"], v):
                    out += self.addr_class_errors(f, x)
            elif k == "node":
                out += self.addr_class_errors({"kind": "address", "ip_only": True}, v.address)
        except Exception:
            pass
        return out

    def norm(self, d, v):
        """normal form for field comparison: decoded bits are 0/1, decoded addresses are tuple subclasses"""
        k = d["kind"]
        if k == "bits":
            return tuple(1 if x else 0 for x in v)
        if k in ("ipv4", "address"):
            return (v[0], v[1])
        if k == "listOf":
            return [self.norm(d["elem"], x) for x in v]
        if k == "struct" and len(d["fields"]) > 1:
            return tuple(v)
        if k == "nested":
            return [self.norm(f, x) for f, x in zip(d["fields"], v)]
        return v

    # --- section: small-scope exhaustive enumerations -------------------------------------------------------------------
    def offset_sweep(self, max_off: int):
        """every registered packer, one value, EVERY start offset 0..max_off"""
        reg = self.info["registry"]
        names = [n for n, d in reg.items() if d["kind"] not in ("payload", "payloadList")]
        idx = 0
        try:
            for name in names:
                for off in range(max_off + 1):
                    idx += 1
                    if not self.want("sweep", idx):
                        continue
                    rng = self.rng_for("sweep", idx)
                    v = gen_value(rng, reg[name], None)
                    self.force_pre = off
                    self.one_packer(rng, name, reg[name], v, idx, section="sweep")
        finally:
            self.force_pre = None
        self.ctx.count("offset_sweep:0..%d" % max_off, idx)

    def flags_exhaustive(self):
        """flags: every subset of at most two of the 16 bits, and all bits"""
        reg = self.info["registry"]
        if "flags" not in reg or reg["flags"]["kind"] != "flags":
            return
        bits = 8 * reg["flags"]["width"]
        subsets = [[]] + [[i] for i in range(bits)] + [[i, j] for i in range(bits) for j in range(i + 1, bits)] + [list(range(bits))]
        for idx, sel in enumerate(subsets, 1):
            if not self.want("flagsx", idx):
                continue
            rng = self.rng_for("flagsx", idx)
            self.one_packer(rng, "flags", reg["flags"], [2 ** i for i in sel], idx, section="flagsx")
        self.ctx.count("flags:subsets<=2", len(subsets))

    def old_exhaustive(self):
        """hand-written payloads: every combination of their boolean flags and connection types"""
        import itertools
        by = {p["name"].rpartition(".")[2]: p for p in self.info["payloads"] if p["kind"] == "old"}
        idx = 0
        conns = ["unknown", "public", "symmetric-NAT"]
        combos = []
        for adv, sns, ct in itertools.product([False, True], [False, True], conns):
            combos.append(("IntroductionRequestPayload", lambda r, adv=adv, sns=sns, ct=ct:
                           (_v4(r), _v4(r), _v4(r), adv, ct, _ident(r), rbytes(r, 3), sns)))
            if sns:
                combos.append(("DiscoveryIntroductionRequestPayload", lambda r, adv=adv, ct=ct:
                               (gen_fixed(r, 20), _v4(r), _v4(r), _v4(r), adv, ct, _ident(r), rbytes(r, 2))))
        for a, b, c, ct in itertools.product([False, True], [False, True], [False, True], conns):
            combos.append(("IntroductionResponsePayload", lambda r, a=a, b=b, c=c, ct=ct:
                           (_v4(r), _v4(r), _v4(r), _v4(r), _v4(r), ct, _ident(r), rbytes(r, 2), a, b, c)))
        for ct in conns:
            combos.append(("SimilarityRequestPayload", lambda r, ct=ct: (_ident(r), _v4(r), _v4(r), ct, [gen_fixed(r, 20)])))
        for cn, mk in combos:
            idx += 1
            if cn not in by or not self.want("oldx", idx):
                continue
            rng = self.rng_for("oldx", idx)
            p = by[cn]
            cls = self.load_class(p["name"])
            obj = cls(*mk(rng))
            names = [a for a, _ in OLD[cn]["attrs"]]
            self.one_class(rng, p, obj, names, "plain", idx, section="oldx")
        self.ctx.count("old_flag_combinations", idx)

    # --- section: illegal pack inputs (model must predict the error) -----------------------------------------------------
    def illegal(self):
        ctx, rng = self.ctx, self.rng_for("illegal")
        reg = self.info["registry"]
        cases = []
        for name, d in reg.items():
            k = d["kind"]
            if k == "struct" and len(d["fields"]) == 1 and d["fields"][0][0] == "uint":
                w = d["fields"][0][1]
                cases.append((name, d, 256 ** w))
            if k == "struct" and len(d["fields"]) == 1 and d["fields"][0][0] == "sint":
                w = d["fields"][0][1]
                cases += [(name, d, 256 ** w // 2), (name, d, -(256 ** w // 2) - 1)]
            if k == "varlen" and d["len_width"] == 1:
                cases.append((name, d, rbytes(rng, 256 * d["unit"])))
            if k == "varlen" and d["len_width"] == 2 and d["unit"] == 1:
                cases.append((name, d, rbytes(rng, 65536)))
            if k == "listOf" and d["len_width"] == 1 and d["elem"]["kind"] == "varlen":
                cases.append((name, d, [b""] * 256))
            if k == "address" and d["ip_only"]:
                cases.append((name, d, ("example.org", 1)))
            if k in ("address", "ipv4"):
                cases.append((name, d, ("1.2.3.4", 65536)))
            if k == "flags":
                cases.append((name, d, [256 ** d["width"]]))
        for i, (name, d, v) in enumerate(cases):
            rep = {"section": "illegal", "index": i, "packer": name, "value": short_repr(v)}
            try:
                b = self.ser.get_packer_for(name).pack(*self.packer_args(d, v))
                impl = "ok " + hx(b)
            except Exception:
                impl = "err"
            ctx.count("illegal:" + impl[:3])
            self.model(f"pack @{name} {token(d, v)}", impl, rep)
            ctx.case(("illegal", name, i), True)

    # --- section: fixed malformed inputs, one per decode-error class of the model (so that each is reached in every run) ----
    def bad_decodes(self):
        ctx = self.ctx
        reg = self.info["registry"]
        cases = [("address", bytes([9, 1, 2, 3, 4, 0, 5])), ("ip_address", bytes([2, 0, 1, 97, 0, 5])),
                 ("varlenHutf8", bytes([0, 2, 0xC3, 0x28])), ("varlenHutf8", bytes([0, 3, 0xED, 0xA0, 0x80])),
                 ("address", bytes([2, 0, 2, 0xFF, 0xFE, 0, 80])), ("H", b"\x01"), ("varlenH", bytes([0, 5, 1, 2])),
                 ("ipv4", bytes(5)), ("bits", b""), ("flags", b"\x00"), ("varlenH-list", bytes([2, 0, 1, 7])),
                 ("arrayH-q", bytes([0, 2]) + bytes(8))]
        for i, (name, data) in enumerate(cases):
            if name not in reg or reg[name]["kind"] in ("payload", "payloadList"):
                continue
            rep = {"section": "bad_decodes", "index": i, "packer": name, "data": data.hex()}
            try:
                got, new = self.unpack_packer(name, reg[name], b"\xee" + data, 1)
                impl = f"ok {token(reg[name], got)} {new}"
            except Exception:
                impl = "err"
            ctx.count("bad_decode:" + impl[:3])
            self.model(f"unpack @{name} ee{data.hex()} 1", impl, rep)
            ctx.case(("bad_decodes", i), True)

    # --- section: pack inputs the packers accept beyond the round-trip domain (truthiness, surplus arguments) -------------------
    def loose(self):
        ctx = self.ctx

        def atok(v):
            if isinstance(v, bool):
                return "b1" if v else "b0"
            if isinstance(v, int):
                return f"n{v}" if v >= 0 else f"i{v}"
            return "x" + hx(bytes(v))
        cases = []
        if self.info["registry"].get("bits", {}).get("kind") == "bits":
            for args in [(2, 0, 0, 0, 0, 0, 0, -1), (b"x", b"", 0, 1, True, False, 7, 0), (1, 0, 1, 0, 1, 0, 1, 0, 1),
                         (0, 0, 0, 0, 0, 0, 0, 0, 1, 1), (1, 1, 1, 1, 1, 1, 1)]:
                cases.append(("bits", args, "T(" + ",".join(atok(a) for a in args) + ")"))
        if self.info["registry"].get("?", {}).get("kind") == "struct":
            for v in [0, 1, 5, -1, b"", b"\x00"]:
                cases.append(("?", (v,), atok(v)))
        for i, (name, args, tok) in enumerate(cases):
            rep = {"section": "loose", "index": i, "packer": name, "args": short_repr(args)}
            try:
                b = self.ser.get_packer_for(name).pack(*args)
                impl = "ok " + hx(b)
            except Exception:
                b, impl = None, "err"
            ctx.count("loose:" + name + ":" + impl[:3])
            self.model(f"pack @{name} {tok}", impl, rep)
            if b is not None:
                want = [1 if a else 0 for a in args[:8]]
                lst: list = []
                try:
                    self.ser.get_packer_for(name).unpack(b, 0, lst)
                    got = [int(x) for x in lst]
                    if got != (want if name == "bits" else want[:1]):
                        ctx.oracle_fail(f"{type(self.ser.get_packer_for(name)).__name__}[{name}]:truthiness",
                                        f"{name}: arguments {args!r} (truth values {want}) decode as {lst}", rep)
                except Exception as e:
                    ctx.oracle_fail(f"{type(self.ser.get_packer_for(name)).__name__}[{name}]:unpack-raises",
                                    f"{name}: decoding the encoding of {args!r} raises {type(e).__name__}", rep)
            ctx.case(("loose", name, tok), True)

    # --- section: all 256 bit combinations ---------------------------------------------------------------------------------
    def bits_exhaustive(self):
        ctx = self.ctx
        d = {"kind": "bits"}
        p = self.ser.get_packer_for("bits")
        for n in range(256):
            v = tuple((n >> (7 - i)) & 1 for i in range(8))
            vb = tuple(bool(x) for x in v)
            rep = {"section": S_BITS, "index": n, "value": v}
            b = p.pack(*vb)
            if b != bytes([n]):
                ctx.oracle_fail("Bits[bits]:doc-bytes", f"bits {v} encoded as {b.hex()}, documented {n:02x}", rep)
            lst: list = []
            new = p.unpack(b"\xaa" + b + b"\x55", 1, lst)
            if tuple(lst) != v or new != 2:
                ctx.oracle_fail("Bits[bits]:value", f"bits {v} decode as {lst} / offset {new}", rep)
            self.model(f"pack @bits {token(d, vb)}", "ok " + hx(b), rep)
            self.model(f"unpack @bits aa{b.hex()}55 1", f"ok {token(d, tuple(lst))} {new}", rep)
            ctx.case((S_BITS, n), n > 0)
        ctx.count("bits:exhaustive", 256)

    # --- section: shipped classes -----------------------------------------------------------------------------------------
    def class_layout(self, p) -> dict:
        """nested layout description of a shipped class from the translator's output"""
        by = {q["name"]: q for q in self.info["payloads"]}
        reg = self.info["registry"]
        fields = []
        for kind, ref in p["refs"]:
            if kind == "name":
                fields.append(reg[ref])
            elif kind == "cls":
                fields.append(self.class_layout(by[ref]))
            else:
                fields.append({"kind": "listOf", "len_width": reg["payload-list"]["len_width"], "elem": self.class_layout(by[ref])})
        return {"kind": "nested", "fields": fields, "cls": p["name"]}

    def doc_class_layout(self, p) -> dict | None:
        """the same, but from the FROZEN spec (layouts + documented table) — what another implementation would build"""
        lay = {e["name"]: e for e in self.spec["layouts"]}
        if p["name"] not in lay:
            return None
        fields = []
        for kind, ref in lay[p["name"]]["refs"]:
            if kind == "name":
                if ref not in self.doc:
                    return None
                fields.append(self.doc[ref])
            else:
                sub = self.doc_class_layout({"name": ref})
                if sub is None:
                    return None
                fields.append(sub if kind == "cls" else {"kind": "listOf", "len_width": 1, "elem": sub})
        return {"kind": "nested", "fields": fields}

    def golden(self, qn, obj) -> bytes | None:
        """bytes of a shipped message computed from its attributes, the frozen per-class layout and the documented table"""
        lay, vals = self.golden_values(qn, obj)
        if lay is None:
            return None
        return doc_encode_body(lay, vals)

    def golden_values(self, qn, obj):
        frozen = {e["name"]: e for e in self.spec["layouts"]}
        if qn not in frozen:
            return None, None
        ow = self.spec.get("old_wire", {})
        fields, vals = [], []
        if qn in ow:
            conn = self.spec["connection_types"]

            def bit(b):
                if b == 0:
                    return 0
                if "attr" in b:
                    return 1 if getattr(obj, b["attr"]) else 0
                return conn[obj.connection_type][b["conn"]]
            for w in ow[qn]:
                d = self.doc[w["fmt"]]
                fields.append(d)
                if "attr" in w:
                    vals.append(getattr(obj, w["attr"]))
                elif "bits" in w:
                    vals.append(tuple(bit(b) for b in w["bits"]))
                elif "join" in w:
                    vals.append(b"".join(getattr(obj, w["join"])))
                elif "records" in w:
                    vals.append(b"".join(b"".join(doc_atom(k, n, x) for (k, n), x in zip(w["record"], rec, strict=True))
                                         for rec in getattr(obj, w["records"])))
                elif "tuple" in w:
                    vals.append(tuple(bytes.fromhex(t["const"]) if "const" in t else getattr(obj, t["attr"]) for t in w["tuple"]))
                else:
                    raise KeyError(f"old_wire entry {w}")
            return {"kind": "nested", "fields": fields}, vals
        e = frozen[qn]
        if not e["names"]:
            return None, None     # an old-style class without an old_wire entry: no golden layout known
        names = iter(e["names"])
        for kind, ref in e["refs"]:
            if kind == "name":
                d = self.doc[ref]
                fields.append(d)
                if d["kind"] == "bits":
                    vals.append(tuple(1 if getattr(obj, next(names)) else 0 for _ in range(8)))
                else:
                    vals.append(getattr(obj, next(names)))
            elif kind == "cls":
                sl, sv = self.golden_values(ref, getattr(obj, next(names)))
                fields.append(sl)
                vals.append(sv)
            else:
                subs = [self.golden_values(ref, x) for x in getattr(obj, next(names))]
                sl = subs[0][0] if subs else {"kind": "nested", "fields": []}
                fields.append({"kind": "listOf", "len_width": 1, "elem": sl})
                vals.append([v for _, v in subs])
        return {"kind": "nested", "fields": fields}, vals

    def intent_checks(self, rng, p, obj, cls, cn, packed, ends_raw, rep):
        """hand-written constructors: (1) constructor arguments -> attributes vs the model's `init`; (2) a value that lies in
        the wire domain of its field must be stored unchanged; (3) the bytes are the golden bytes of the INTENDED values;
        (4) a datagram built by a conforming peer from the intended values (independent encoder) decodes to those values,
        consumes exactly its bytes and re-encodes to itself"""
        ctx = self.ctx
        intent = obj._c02_intent
        spec = OLD[type(obj).__name__]
        try:
            atoks = ",".join(old_attr_token(t, intent[a]) for a, t in spec["attrs"] if a in intent)
            self.model(f"old {p['name']} init R({atoks})", "ok " + self.attr_tokens(p, obj, None), rep)
        except Exception:
            pass
        wire = {w["attr"]: w["fmt"] for w in self.spec.get("old_wire", {}).get(p["name"], []) if "attr" in w}
        in_domain = {}
        for a, v in intent.items():
            if a in wire:
                try:
                    doc_encode(self.doc[wire[a]], v)
                except Exception:
                    ctx.count("ctor_arg:out-of-domain")
                    continue
            in_domain[a] = v
            if a in wire and self.doc[wire[a]]["kind"] == "struct" and isinstance(v, int) and not isinstance(v, bool):
                top = 256 ** self.doc[wire[a]]["fields"][0][1]
                ctx.count("ctor_int_arg:" + ("max" if v == top - 1 else "zero" if v == 0 else "other"))
            if not same_field(getattr(obj, a, "<missing>"), v):
                ctx.oracle_fail(f"{cn}.__init__:in-domain-value-changed", f"{cn}({a}={short_repr(v, 60)}) stores {a} = "
                                f"{short_repr(getattr(obj, a, '<missing>'), 60)} although the value is in the field's wire domain", rep)

        class Shim:
            def __getattr__(self_inner, name):
                return in_domain[name] if name in in_domain else getattr(obj, name)
        try:
            gi = self.golden(p["name"], Shim())
        except Exception:
            return
        if gi is None:
            return
        if gi != packed:
            ctx.oracle_fail(f"{cn}:value-to-bytes", f"{cn} constructed from {short_repr(in_domain, 200)} is encoded as "
                            f"{packed.hex()[:120]}; these values in the documented layout are {gi.hex()[:120]}", rep)
        pre, post = self.embed(rng, gi, ends_raw)
        data, off = pre + gi + post, len(pre)
        rep = {**rep, "offset": off, "data": data.hex()[:800], "foreign": True}
        try:
            got, new = self.ser.unpack_serializable(cls, data, off)
        except Exception as e:
            ctx.oracle_fail(f"{cn}:foreign-datagram", f"a conforming {cn} datagram (fields {short_repr(in_domain, 160)}) raises "
                            f"{type(e).__name__}: {e} when decoded at offset {off}", rep)
            return
        for a, v in in_domain.items():
            if not same_field(v, getattr(got, a, "<missing>")):
                ctx.oracle_fail(f"{cn}:foreign-datagram", f"a conforming {cn} datagram carrying {a} = {short_repr(v, 60)} decodes to "
                                f"{a} = {short_repr(getattr(got, a, '<missing>'), 60)}", rep)
        if new != off + len(gi):
            ctx.oracle_fail(f"{cn}:foreign-datagram", f"a conforming {cn} datagram of {len(gi)} bytes at {off} is consumed up to {new}", rep)
        try:
            if self.ser.pack_serializable(got) != gi:
                ctx.oracle_fail(f"{cn}:foreign-datagram", f"re-encoding a decoded conforming {cn} datagram changes the bytes", rep)
        except Exception as e:
            ctx.oracle_fail(f"{cn}:foreign-datagram", f"re-encoding a decoded conforming {cn} datagram raises {type(e).__name__}", rep)
        ctx.count("foreign_datagram")

    def load_class(self, qn):
        import importlib
        mod, _, cn = qn.rpartition(".")
        return getattr(importlib.import_module(mod), cn)

    def gen_instance(self, rng, p, depth=0):
        """-> (instance, attribute names in model order) for a shipped class with legal random field values"""
        cls = self.load_class(p["name"])
        reg = self.info["registry"]
        by = {q["name"]: q for q in self.info["payloads"]}
        if p["kind"] != "old":
            args = []
            for kind, ref in p["refs"]:
                if kind == "name":
                    d = reg[ref]
                    v = gen_value(rng, d, self.ctx, depth)
                    if d["kind"] == "bits":
                        args += [bool(x) if rng.random() < 0.5 else x for x in v]
                    else:
                        args.append(v)
                elif kind == "cls":
                    args.append(self.gen_instance(rng, by[ref], depth + 1)[0])
                else:
                    args.append([self.gen_instance(rng, by[ref], depth + 1)[0] for _ in range(rng.choice([0, 1, 2, 3]))])
            names = list(p["names"])
            if rng.random() < 0.3:      # keyword construction
                return cls(**dict(zip(names, args, strict=True))), names
            return cls(*args), names
        return gen_old(rng, cls, self.ctx)

    def attr_tokens(self, p, obj, names) -> str:
        """model token R(...) of the instance's attributes"""
        reg = self.info["registry"]
        by = {q["name"]: q for q in self.info["payloads"]}
        if p["kind"] == "old":
            spec = OLD[type(obj).__name__]
            return "R(" + ",".join(old_attr_token(t, getattr(obj, a)) for a, t in spec["attrs"]) + ")"
        toks, i = [], 0
        for kind, ref in p["refs"]:
            if kind == "name":
                d = reg[ref]
                if d["kind"] == "bits":
                    for _ in range(8):
                        toks.append(f"n{1 if getattr(obj, names[i]) else 0}")
                        i += 1
                    continue
                toks.append(token(d, getattr(obj, names[i])))
            elif kind == "cls":
                toks.append(self.sub_token(by[ref], getattr(obj, names[i])))
            else:
                toks.append("L(" + ",".join(self.sub_token(by[ref], s) for s in getattr(obj, names[i])) + ")")
            i += 1
        return "R(" + ",".join(toks) + ")"

    def sub_token(self, p, sub) -> str:
        """a nested payload instance as the model sees it: the record of its pack-list values"""
        layout = self.class_layout(p)
        return token(layout, self.norm(layout, self.pack_list_values(p, sub)))

    def pack_list_values(self, p, obj):
        """python values of obj.to_pack_list() in `nested` shape (sub-payloads expanded recursively)"""
        by = {q["name"]: q for q in self.info["payloads"]}
        out = []
        for (kind, ref), item in zip(p["refs"], obj.to_pack_list(), strict=True):
            if kind == "name":
                args = item[1:]
                d = self.info["registry"][ref]
                out.append(tuple(args) if d["kind"] == "bits" or (d["kind"] == "struct" and len(d["fields"]) > 1) else args[0])
            elif kind == "cls":
                out.append(self.pack_list_values(by[ref], item[1]))
            else:
                out.append([self.pack_list_values(by[ref], s) for s in item[1]])
        return out

    def classes(self, n_per: int):
        idx = 0
        for p in self.info["payloads"]:
            for _ in range(n_per):
                idx += 1
                if not self.want(S_CLASSES, idx):
                    continue
                rng = self.rng_for(S_CLASSES, idx)
                obj, names = self.gen_instance(rng, p)
                if obj is None:
                    self.ctx.count("old_style_class_without_generator:" + p["name"].rpartition(".")[2])
                    continue
                mode = rng.choice(["plain", "plain", "nested", "listed"])
                self.one_class(rng, p, obj, names, mode, idx)

    def field_names(self, p, obj, names):
        if p["kind"] == "old":
            return [a for a, _ in OLD[type(obj).__name__]["attrs"]]
        return names

    def one_class(self, rng, p, obj, names, mode, idx, section=S_CLASSES):
        ctx = self.ctx
        cn = p["name"].rpartition(".")[2]
        cls = type(obj)
        fields = self.field_names(p, obj, names)
        rep = {"section": section, "index": idx, "class": p["name"], "mode": mode,
               "fields": {f: short_repr(getattr(obj, f), 120) for f in fields}}
        ctx.count("class_kind:" + p["kind"])
        ctx.count("embedding:" + mode)
        layout = self.class_layout(p)
        ends_raw = bool(p["refs"]) and p["refs"][-1] == ("name", "raw")
        try:
            packed = self.ser.pack_serializable(obj)
        except Exception as e:
            ctx.oracle_fail(f"{cn}.to_pack_list:pack-raises", f"packing a legal {cn} raises {type(e).__name__}: {e}", rep)
            return
        atok = self.attr_tokens(p, obj, names)
        self.model(f"encode {p['name']} {atok}", "ok " + hx(packed), rep)
        # golden bytes: what another implementation builds from the instance's ATTRIBUTES with the frozen per-class wire
        # layout (spec: layouts / old_wire) and the documented formats — independent of to_pack_list and of the packers
        try:
            gold = self.golden(p["name"], obj)
        except (NotEncodable, ValueError, TypeError, AttributeError, OverflowError, struct.error, KeyError) as e:
            gold = None
            ctx.oracle_fail(f"{cn}:doc-bytes", f"{cn}: attributes do not fit the frozen wire layout ({type(e).__name__}: {e})", rep)
        if gold is not None:
            ctx.count("golden:" + ("old_wire" if p["name"] in self.spec.get("old_wire", {}) else "frozen_layout"))
            if gold != packed:
                ctx.oracle_fail(f"{cn}:doc-bytes", f"{cn} is encoded as {packed.hex()[:160]} but its fields in the frozen wire layout "
                                f"with the documented formats give {gold.hex()[:160]}", {**rep, "bytes": packed.hex()[:600],
                                                                                           "documented": gold.hex()[:600]})
        if getattr(obj, "_c02_intent", None):
            self.intent_checks(rng, p, obj, cls, cn, packed, ends_raw, rep)
        if mode == "plain":
            pre, post = self.embed(rng, packed, ends_raw)
            data, off = pre + packed + post, len(pre)
            try:
                got, new = self.ser.unpack_serializable(cls, data, off)
            except Exception as e:
                ctx.oracle_fail(f"{cn}.from_unpack_list:unpack-raises", f"decoding an encoded {cn} at offset {off} raises "
                                f"{type(e).__name__}: {e}", {**rep, "offset": off, "data": data.hex()[:800]})
                self.model(f"decode {p['name']} {hx(data)} {off}", "err", rep)
                return
            end = off + len(packed)
        else:
            # nested in `payload` / listed in `payload-list` inside an ad-hoc wrapper message
            from ipv8.messaging.lazy_payload import VariablePayload
            others = [self.gen_instance(rng, p)[0] for _ in range(rng.choice([0, 1, 2]))] if mode == "listed" else []
            items = [obj, *others]
            W = type("W", (VariablePayload,), {"format_list": ["H", cls if mode == "nested" else [cls], "B"],
                                               "names": ["a", "inner", "z"]})
            w = W(0xBEEF, obj if mode == "nested" else items, 7)
            try:
                wp = self.ser.pack_serializable(w)
            except Exception as e:
                ctx.oracle_fail(f"{cn}:nested-pack-raises", f"packing {cn} inside `{ 'payload' if mode == 'nested' else 'payload-list'}` "
                                f"raises {type(e).__name__}: {e}", rep)
                return
            pre, post = self.embed(rng, wp, False)
            data, off = pre + wp + post, len(pre)
            wl = {"kind": "nested", "fields": [{"kind": "struct", "fields": [["uint", 2]]},
                                               layout if mode == "nested" else {"kind": "listOf", "len_width": 1, "elem": layout},
                                               {"kind": "struct", "fields": [["uint", 1]]}]}
            try:
                gw, new = self.ser.unpack_serializable(W, data, off)
            except Exception as e:
                ctx.oracle_fail(f"{cn}:nested-unpack-raises", f"decoding {cn} nested ({mode}) at offset {off} raises "
                                f"{type(e).__name__}: {e}", {**rep, "offset": off, "data": data.hex()[:800]})
                self.model(f"unpackl {fmt_token(wl)} {hx(data)} {off}", "err", rep)
                return
            end = off + len(wp)
            try:    # public API: Serializer.unpack(cls | [cls], data, offset) on the nested field alone
                g2, n2 = self.ser.unpack(cls if mode == "nested" else [cls], data, off + 2)
                ref = gw.inner
                ok = (same(public_attrs(g2), public_attrs(ref)) if mode == "nested" else
                      len(g2) == len(ref) and all(same(public_attrs(x), public_attrs(y)) for x, y in zip(g2, ref)))
                if not ok or n2 != new - 1:
                    ctx.oracle_fail("Serializer.unpack:dispatch", f"Serializer.unpack({'cls' if mode == 'nested' else '[cls]'}, …) of a "
                                    f"{mode} {cn} gives another result / offset {n2} than unpack_serializable ({new - 1})", rep)
                ctx.count("serializer_api:" + ("class" if mode == "nested" else "class-list"))
            except Exception as e:
                ctx.oracle_fail("Serializer.unpack:dispatch", f"Serializer.unpack({'cls' if mode == 'nested' else '[cls]'}, …) of a "
                                f"{mode} {cn} raises {type(e).__name__}: {e}", rep)
            if gw.a != 0xBEEF or gw.z != 7:
                ctx.oracle_fail(f"{cn}:nested-neighbours", f"fields around a nested {cn} decode as {gw.a}, {gw.z}", rep)
            inner = gw.inner if mode == "nested" else gw.inner
            if mode == "listed":
                if len(inner) != len(items):
                    ctx.oracle_fail(f"{cn}:listed-count", f"{len(items)} listed {cn} decode as {len(inner)}", rep)
                    return
                for o2, g2 in zip(items[1:], inner[1:]):
                    self.compare_fields(cn, p, o2, g2, names, rep, "listed")
                got = inner[0]
            else:
                got = inner
            # model: decode the wrapper with the explicit format syntax and compare the inner unpack lists via re-encoding
            self.model(f"unpackl {fmt_token(wl)} {hx(data)} {off}",
                       f"ok {self.wrapper_unpack_token(p, mode, gw, items if mode == 'listed' else [obj])} {new}", rep)
        rep = {**rep, "offset": off, "data": data.hex()[:800]}
        if new != end:
            ctx.oracle_fail(f"{cn}:offset", f"{cn} ({mode}) at offset {off}: decoder stopped at {new}, encoded bytes end at {end}", rep)
        self.compare_fields(cn, p, obj, got, names, rep, mode)
        try:
            again = self.ser.pack_serializable(got)
            if again != packed:
                ctx.oracle_fail(f"{cn}:reencode", f"re-encoding the decoded {cn} gives {again.hex()[:120]}, original {packed.hex()[:120]}", rep)
        except Exception as e:
            ctx.oracle_fail(f"{cn}:reencode", f"re-encoding the decoded {cn} raises {type(e).__name__}: {e}", rep)
        if mode == "plain":
            try:
                gtok = self.attr_tokens(p, got, names)
            except Exception as e:
                gtok = f"untokenizable:{type(e).__name__}"
            self.model(f"decode {p['name']} {hx(data)} {off}", f"ok {gtok} {new}", rep)
        ctx.case((S_CLASSES, p["name"], atok, off, mode), off > 0 or any(packed))
        if idx % 37 == 0:
            ctx.sample({"class": cn, "mode": mode, "offset": off, "bytes": packed.hex()[:60]})

    def wrapper_unpack_token(self, p, mode, gw, originals) -> str:
        """token of the wrapper's unpack list as the implementation decoded it: inner payloads are re-expanded to their
        pack lists (API level: to_pack_list of the decoded objects)"""
        layout = self.class_layout(p)
        inner = [gw.inner] if mode == "nested" else list(gw.inner)
        toks = []
        for g in inner:
            try:
                toks.append(token(layout, self.norm(layout, self.decoded_pack_values(p, g))))
            except Exception as e:
                toks.append(f"untokenizable:{type(e).__name__}")
        mid = toks[0] if mode == "nested" else "L(" + ",".join(toks) + ")"
        return f"R(n{gw.a},{mid},n{gw.z})"

    def decoded_pack_values(self, p, g):
        """pack-list values of a decoded object, with decoded `bits` normalised to 0/1"""
        vals = self.pack_list_values(p, g)
        return vals

    def compare_fields(self, cn, p, obj, got, names, rep, mode):
        if type(got) is not type(obj):
            allowed = self.spec.get("decodes_as", {}).get(p["name"])
            gq = f"{type(got).__module__}.{type(got).__qualname__}"
            if gq != allowed:
                self.ctx.oracle_fail(f"{cn}:type", f"decoded object is a {type(got).__name__}, expected {cn}", rep)
                return
            # PongPayload inherits PingPayload.from_unpack_list: same fields and bytes, decoded as the base class (frozen pair)
            self.ctx.count("decoded_as_base_class:" + cn)
        for f in self.field_names(p, obj, names):
            a, b = getattr(obj, f), getattr(got, f, "<missing>")
            if isinstance(b, tuple) and len(b) == 2 and isinstance(b[0], str) and isinstance(b[1], int):
                for msg in self.addr_class_errors({"kind": "address", "ip_only": False}, b)[:1]:
                    self.ctx.oracle_fail(f"{cn}.from_unpack_list:address-class-{f}", f"{cn}.{f}: {msg}", rep)
            if not same_field(a, b):
                self.ctx.oracle_fail(f"{cn}.from_unpack_list:field-{f}",
                                     f"{cn}.{f} = {short_repr(a, 100)} decodes as {short_repr(b, 100)} ({mode})", rep)

    # --- section: random ad-hoc format lists --------------------------------------------------------------------------------
    def gen_layout(self, rng, depth=0) -> dict:
        reg = self.info["registry"]
        plain = [n for n, d in reg.items() if d["kind"] not in ("payload", "payloadList", "raw")
                 and not (d["kind"] == "struct" and len(d["fields"]) > 1)]
        nf = rng.randrange(1, 6 if depth == 0 else 4)
        fields, refs = [], []
        for i in range(nf):
            r = rng.random()
            if depth < 3 and r < 0.2:
                sub = self.gen_layout(rng, depth + 1)
                fields.append(sub)
            elif depth < 3 and r < 0.35:
                sub = self.gen_layout(rng, depth + 1)
                fields.append({"kind": "listOf", "len_width": 1, "elem": sub})
            else:
                n = rng.choice(plain)
                fields.append({**reg[n], "name": n})
        if rng.random() < 0.3:
            fields.append({**reg["raw"], "name": "raw"})
        return {"kind": "nested", "fields": fields}

    def build_class(self, rng, layout, compiled: bool):
        """a VariablePayload class for an ad-hoc layout (nested layouts become nested classes)"""
        from ipv8.messaging.lazy_payload import VariablePayload, vp_compile
        fl, names, hooks = [], [], {}
        for i, f in enumerate(layout["fields"]):
            if f["kind"] == "nested":
                fl.append(self.build_class(rng, f, compiled))
                names.append(f"f{i}")
            elif f["kind"] == "listOf" and f["elem"]["kind"] == "nested" and "name" not in f:
                fl.append([self.build_class(rng, f["elem"], compiled)])
                names.append(f"f{i}")
            elif f["kind"] == "bits":
                fl.append("bits")
                names += [f"f{i}b{j}" for j in range(8)]
            else:
                fl.append(f["name"])
                names.append(f"f{i}")
                # field-specific pack/unpack rules (`fix_pack_<name>` / `fix_unpack_<name>`): a self-inverse transformation
                hk = self.hook_kind(f)
                if hk and rng.random() < 0.25:
                    f["hook"] = hk
                    h = HOOKS[hk]
                    hooks[f"fix_pack_f{i}"] = (lambda self_, v, _h=h: _h(v))
                    hooks[f"fix_unpack_f{i}"] = classmethod(lambda cls_, v, _h=h: _h(v))
                    self.ctx.count(f"adhoc_hook:{'compiled' if compiled else 'interpreted'}:"
                                   + ("behind-bits" if "bits" in fl else "no-bits-before"))
        cls = type("AdHoc", (VariablePayload,), {"format_list": fl, "names": names, **hooks})
        layout["cls_obj"] = cls
        return vp_compile(cls) if compiled else cls

    @staticmethod
    def hook_kind(f):
        if f["kind"] == "struct" and len(f["fields"]) == 1 and f["fields"][0][0] in ("uint", "sint"):
            return "xor1"
        if f["kind"] in ("varlen", "raw") or (f["kind"] == "struct" and len(f["fields"]) == 1 and f["fields"][0][0] == "fixed"):
            return "rev"
        return None

    def apply_hooks(self, layout, vals):
        """attribute values -> the values that travel (and back: the transformations are their own inverse)"""
        out = []
        for f, v in zip(layout["fields"], vals):
            if f["kind"] == "nested":
                out.append(self.apply_hooks(f, v))
            elif f["kind"] == "listOf" and f["elem"]["kind"] == "nested" and "name" not in f:
                out.append([self.apply_hooks(f["elem"], x) for x in v])
            elif f.get("hook"):
                out.append(HOOKS[f["hook"]](v))
            else:
                out.append(v)
        return out

    def instantiate(self, layout, vals):
        args = []
        for f, v in zip(layout["fields"], vals):
            if f["kind"] == "nested":
                args.append(self.instantiate(f, v))
            elif f["kind"] == "listOf" and f["elem"]["kind"] == "nested" and "name" not in f:
                args.append([self.instantiate(f["elem"], x) for x in v])
            elif f["kind"] == "bits":
                args += list(v)
            else:
                args.append(v)
        cls = layout["cls_obj"]
        k = getattr(self, "_kw_split", None)
        if k is None or len(cls.names) != len(args):
            return cls(*args)
        k = min(k, len(args))
        return cls(*args[:k], **dict(zip(cls.names[k:], args[k:])))

    def extract(self, layout, obj):
        vals, names = [], iter(layout["cls_obj"].names)
        for f in layout["fields"]:
            if f["kind"] == "nested":
                vals.append(self.extract(f, getattr(obj, next(names))))
            elif f["kind"] == "listOf" and f["elem"]["kind"] == "nested" and "name" not in f:
                vals.append([self.extract(f["elem"], x) for x in getattr(obj, next(names))])
            elif f["kind"] == "bits":
                vals.append(tuple(getattr(obj, next(names)) for _ in range(8)))
            else:
                vals.append(getattr(obj, next(names)))
        return vals

    def doc_view(self, layout):
        """the ad-hoc layout with every named field replaced by its DOCUMENTED layout"""
        fields = []
        for f in layout["fields"]:
            if f["kind"] == "nested":
                fields.append(self.doc_view(f))
            elif f["kind"] == "listOf" and f["elem"]["kind"] == "nested" and "name" not in f:
                fields.append({"kind": "listOf", "len_width": 1, "elem": self.doc_view(f["elem"])})
            else:
                fields.append(self.doc.get(f.get("name"), f))
        return {"kind": "nested", "fields": fields}

    BIG_BODIES = [(32767, False), (32768, False), (40000, True), (65535, False), (65535, True), (50000, False)]

    def adhoc(self, n: int):
        ctx = self.ctx
        for idx in range(1, n + 1):
            if not self.want(S_ADHOC, idx):
                continue
            rng = self.rng_for(S_ADHOC, idx)
            layout = self.gen_layout(rng)
            compiled = rng.random() < 0.5
            vals = gen_value(rng, layout, ctx)
            if idx <= len(self.BIG_BODIES):
                # nested / listed messages whose BODY is close to the 2-byte length limit (32 KiB .. 64 KiB - 1)
                size, listed = self.BIG_BODIES[idx - 1]
                reg = self.info["registry"]
                inner = {"kind": "nested", "fields": [{**reg["B"], "name": "B"}, {**reg["raw"], "name": "raw"}]}
                mid = {"kind": "listOf", "len_width": 1, "elem": inner} if listed else inner
                layout = {"kind": "nested", "fields": [{**reg["H"], "name": "H"}, mid, {**reg["B"], "name": "B"}]}
                body = [5, rbytes(rng, size - 1)]
                vals = [0xBEEF, [body, [6, b"x"]] if listed else body, 7]
                ctx.count("nested_body_size:" + ("32768-65535" if size >= 32768 else "below-32768"))
            self.build_class(rng, layout, compiled)
            ftok = fmt_token(layout)
            rep = {"section": S_ADHOC, "index": idx, "format": ftok, "values": short_repr(vals, 400), "compiled": compiled}
            ctx.count("adhoc_depth:%d" % depth_of(layout))
            ctx.count("adhoc_fields:%d" % len(layout["fields"]))
            how = rng.choice(["positional", "positional", "keyword", "mixed"])
            self._kw_split = None if how == "positional" else 0 if how == "keyword" else rng.randrange(0, 12)
            ctx.count(f"adhoc_construction:{'compiled' if compiled else 'interpreted'}:{how}")
            try:
                obj = self.instantiate(layout, vals)
            except Exception as e:
                ctx.oracle_fail("adhoc:construct-raises", f"constructing {ftok} ({how}, {'compiled' if compiled else 'interpreted'}) "
                                f"raises {type(e).__name__}: {e}", rep)
                continue
            finally:
                self._kw_split = None
            try:
                packed = self.ser.pack_serializable(obj)
            except Exception as e:
                ctx.oracle_fail("adhoc:pack-raises", f"packing legal values for {ftok} raises {type(e).__name__}: {e}", rep)
                continue
            wire_vals = self.apply_hooks(layout, vals)
            vtok = token(layout, wire_vals)
            self.model(f"packl {ftok} {vtok}", "ok " + hx(packed), rep)
            try:
                want = doc_encode_body(self.doc_view(layout), wire_vals)
            except (NotEncodable, OverflowError, struct.error, ValueError, TypeError, AttributeError) as e:
                want = None
                ctx.oracle_fail("adhoc:doc-bytes", f"{ftok}: values do not fit the documented formats ({type(e).__name__}: {e})", rep)
            if want is not None and want != packed:
                ctx.oracle_fail("adhoc:doc-bytes", f"{ftok}: encoded {packed.hex()[:120]}, documented {want.hex()[:120]}", rep)
            ends_raw = layout["fields"][-1]["kind"] == "raw"
            pre, post = self.embed(rng, packed, ends_raw)
            data, off = pre + packed + post, len(pre)
            rep = {**rep, "offset": off, "data": data.hex()[:800]}
            try:
                got, new = self.ser.unpack_serializable(layout["cls_obj"], data, off)
            except Exception as e:
                ctx.oracle_fail("adhoc:unpack-raises", f"decoding {ftok} at {off} raises {type(e).__name__}: {e}", rep)
                self.model(f"unpackl {ftok} {hx(data)} {off}", "err", rep)
                continue
            gvals = self.extract(layout, got)
            try:
                equal = same(self.norm(layout, vals), self.norm(layout, gvals))
            except Exception:
                equal = False
            if not equal:
                ctx.oracle_fail("adhoc:value", f"{ftok}: {short_repr(vals, 200)} decodes as {short_repr(gvals, 200)}", rep)
            if new != off + len(packed):
                ctx.oracle_fail("adhoc:offset", f"{ftok}: decoder stopped at {new}, bytes end at {off + len(packed)}", rep)
            try:
                if self.ser.pack_serializable(got) != packed:
                    ctx.oracle_fail("adhoc:reencode", f"{ftok}: re-encoding differs", rep)
            except Exception as e:
                ctx.oracle_fail("adhoc:reencode", f"{ftok}: re-encoding raises {type(e).__name__}", rep)
            try:
                gtok = token(layout, self.norm(layout, self.apply_hooks(layout, gvals)))
            except Exception as e:
                gtok = f"untokenizable:{type(e).__name__}"
            self.model(f"unpackl {ftok} {hx(data)} {off}", f"ok {gtok} {new}", rep)
            ctx.case((S_ADHOC, ftok, vtok, off), off > 0 or any(packed))

    # --- section: dataclass-defined payloads, inheritance chains and instantiation histories ---------------------------------
    DC_FMT_NAMES = ["H", "I", "Q", "B", "l", "q", "f", "d", "?", "c", "20s", "32s", "varlenH", "varlenI", "varlenBx2",
                    "varlenHutf8", "varlenH-list", "ip_address", "address", "ipv4", "arrayH-q"]

    SEQ_PY = {"list": list, "tuple": tuple, "set": set}

    def dc_field(self, rng, leafs, i):
        """-> (field name, annotation, documented layout, kind) for one random dataclass field"""
        from ipv8.messaging.payload_dataclass import type_from_format
        tm = self.spec["dataclass_type_map"]
        r = rng.random()
        py = {"bool": bool, "int": int, "float": float, "bytes": bytes, "str": str,
              "list[bool]": list[bool], "list[int]": list[int], "list[float]": list[float],
              "tuple[int]": tuple[int], "set[int]": set[int], "tuple[bool]": tuple[bool], "tuple[float]": tuple[float]}
        if r < 0.55 or not leafs and r >= 0.75:
            key = rng.choice(sorted(k for k in tm if k in py))
            return (f"f{i}", py[key], self.doc[tm[key]], "atom:" + key)
        if r < 0.75:
            name = rng.choice([n for n in self.DC_FMT_NAMES if n in self.doc and n in self.info["registry"]])
            return (f"f{i}", type_from_format(name), self.doc[name], "fmt:" + name)
        leaf = rng.choice(leafs)
        if r < 0.85:
            return (f"f{i}", leaf["cls"], leaf["layout"], "nested")
        lay = {"kind": "listOf", "len_width": 1, "elem": leaf["layout"]}
        if r < 0.93:
            return (f"f{i}", list[leaf["cls"]], lay, "nestedlist")
        return (f"f{i}", tuple[leaf["cls"]], lay, "nestedtuple")

    def dc_make(self, name, fields, base, msg_id):
        import dataclasses
        ns = {} if msg_id is None else {"msg_id": msg_id}
        return dataclasses.make_dataclass(name, [(f[0], f[1]) for f in fields], bases=(base,), namespace=ns, module=__name__)

    def dc_value(self, rng, f, build=True, force_n=None):
        """-> (constructor argument, value in layout shape, expected field value after decoding)"""
        kind = f[3]
        if kind in ("nested", "nestedlist", "nestedtuple"):
            leaf = f[4]
            n = 1 if kind == "nested" else rng.choice([0, 1, 2, 3]) if force_n is None else force_n
            subs = []
            for _ in range(n):
                vals = [gen_value(rng, lf[2], self.ctx, 1) for lf in leaf["fields"]]
                subs.append((leaf["cls"](*vals) if build else None, vals))
            if kind == "nested":
                return subs[0][0], subs[0][1], subs[0][1]
            seq = tuple if kind == "nestedtuple" else list
            return seq(o for o, _ in subs), [v for _, v in subs], seq(v for _, v in subs)
        v = gen_value(rng, f[2], self.ctx, 1)
        if kind.startswith("atom:tuple"):
            return tuple(v), list(v), tuple(v)
        if kind.startswith("atom:set"):
            sv = set(v)
            return sv, list(sv), sv
        return v, v, v

    def dc_extract(self, fields, obj):
        out = []
        for f in fields:
            v = getattr(obj, f[0], "<missing>")
            if f[3] == "nested":
                out.append([getattr(v, lf[0], "<missing>") for lf in f[4]["fields"]])
            elif f[3] in ("nestedlist", "nestedtuple"):
                out.append(type(v)([getattr(x, lf[0], "<missing>") for lf in f[4]["fields"]] for x in v)
                           if isinstance(v, (list, tuple)) else v)
            else:
                out.append(v)
        return out

    @staticmethod
    def listify(v):
        if isinstance(v, (tuple, set, frozenset)) and not (len(v) == 2 and isinstance(v, tuple) and type(v) is not tuple):
            return [Run.listify(x) for x in v]
        if isinstance(v, list):
            return [Run.listify(x) for x in v]
        return v

    KNOWN_RECV_FIRST = "DataClassPayload:decode-before-first-instance"

    def dataclass_histories(self, n: int):
        """random hierarchies of dataclass payloads (base, derived, derived-of-derived / sibling; nested member classes; sequence
        fields that a subclass annotates with another container) under random HISTORIES of two kinds of steps: `use`
        (instantiate, encode, decode) and `recv` (decode a datagram produced by a conforming peer WITHOUT instantiating the
        class or its members in this step).  Whatever happened before, every class must encode ALL its (inherited + own)
        fields in the documented formats and decode to an instance of itself with all fields in the annotated containers.
        The known finding (a class / member class that was never converted cannot be decoded) is filed only for exactly the
        behaviour it predicts; after every step `cls.names` of every class and the decode outcome are compared with `Dc`."""
        from ipv8.messaging.payload_dataclass import DataClassPayload
        ctx = self.ctx
        for idx in range(1, n + 1):
            if not self.want("dataclass", idx):
                continue
            rng = self.rng_for("dataclass", idx)
            leafs = []
            for j in range(2):
                lf = [self.dc_field(rng, [], 0) for _ in range(rng.choice([1, 2]))]
                lf = [(f"l{k}", f[1], f[2], f[3]) for k, f in enumerate(lf) if f[3].split(":")[0] in ("atom", "fmt")
                      and "tuple" not in f[3] and "set" not in f[3]] or [("l0", int, self.doc["q"], "atom:int")]
                cls = self.dc_make(f"Leaf{idx}_{j}", lf, DataClassPayload, None)
                leafs.append({"cls": cls, "fields": lf, "layout": {"kind": "nested", "fields": [f[2] for f in lf]}})
            with_id = rng.random() < 0.5
            counter = [0]

            def new_fields(k):
                out = []
                for _ in range(k):
                    counter[0] += 1
                    f = self.dc_field(rng, leafs, counter[0])
                    if f[3] in ("nested", "nestedlist", "nestedtuple"):
                        leaf = next(x for x in leafs if x["cls"] is f[1] or f[1] in (list[x["cls"]], tuple[x["cls"]]))
                        f = (*f, leaf)
                    out.append(f)
                return out

            def reannotate(fields):
                """a subclass may annotate an inherited sequence-of-scalars field with another container"""
                out, redeclared = [], []
                for f in fields:
                    if f[3].startswith("atom:") and "[" in f[3] and rng.random() < 0.35:
                        elem = f[3].split("[")[1].rstrip("]")
                        cont = rng.choice(["list", "tuple"] + (["set"] if elem == "int" else []))
                        elt = {"int": int, "bool": bool, "float": float}[elem]
                        f2 = (f[0], self.SEQ_PY[cont][elt], f[2], f"atom:{cont}[{elem}]")
                        out.append(f2)
                        if f2[3] != f[3]:
                            redeclared.append(f2)
                    else:
                        out.append(f)
                return out, redeclared
            bf = new_fields(rng.choice([1, 2, 3]))
            forced = idx <= 6     # deterministic scenarios: a converted message class meets a never-converted member class
            if forced:
                lay0 = {"kind": "listOf", "len_width": 1, "elem": leafs[0]["layout"]}
                seq = list if idx % 2 else tuple
                bf = [("f1", int, self.doc["q"], "atom:int"),
                      ("f2", seq[leafs[0]["cls"]], lay0, "nestedlist" if seq is list else "nestedtuple", leafs[0])]
                counter[0] = 2
            base = self.dc_make(f"DcBase{idx}", bf, DataClassPayload[rng.randrange(1, 200)] if with_id else DataClassPayload, None)
            chains = {f[0]: [f[3]] for f in bf}
            classes = [("base", bf, base, dict(chains))]
            parents = ["x"]
            shape = rng.choice(["chain2", "chain3", "siblings", "chain2"])

            def derive(role, pfields, pcls, pchains, pidx):
                inh, red = reannotate(pfields)
                own = new_fields(rng.choice([1, 2]))
                cls_ = self.dc_make(f"Dc{role}{idx}", red + own, pcls, rng.randrange(1, 200) if with_id else None)
                ch = {k: list(v) for k, v in pchains.items()}
                for f in inh:
                    ch[f[0]] = ch[f[0]] + [f[3]] if any(f is r for r in red) else ch[f[0]] + [ch[f[0]][-1]]
                for f in own:
                    ch[f[0]] = [f[3]]
                if red:
                    ctx.count("dc_reannotated_inherited_field", len(red))
                classes.append((role, inh + own, cls_, ch))
                parents.append(str(pidx))
            derive("derived", bf, base, chains, 0)
            if shape == "chain3":
                derive("derived2", classes[1][1], classes[1][2], classes[1][3], 1)
            elif shape == "siblings":
                derive("sibling", bf, base, chains, 0)
            nh = len(classes)
            leaf_id = {id(lf["cls"]): nh + j for j, lf in enumerate(leafs)}
            parents_tok = ",".join(parents + ["x"] * len(leafs))
            model_names = "/".join([".".join(f[0] for f in fields) for _, fields, _, _ in classes]
                                   + [".".join(f[0] for f in lf["fields"]) for lf in leafs])
            converted = set()            # what the known finding's mechanism predicts: classes converted so far
            ops = []
            for j, lf in enumerate(leafs):
                if rng.random() < 0.5 and not forced:
                    try:
                        lf["cls"](*[gen_value(rng, f[2], None, 1) for f in lf["fields"]])
                        converted.add(nh + j)
                        ops.append(f"i{nh + j}")
                    except Exception as e:
                        ctx.oracle_fail("dataclass.leaf:construct-raises", f"a leaf dataclass payload with {[f[3] for f in lf['fields']]} "
                                        f"cannot be constructed: {type(e).__name__}: {e}", {"section": "dataclass", "index": idx})
            order = list(range(nh))
            rng.shuffle(order)
            order += [rng.randrange(nh) for _ in range(rng.choice([1, 2, 3]))]
            steps = []
            for ci in order:
                if rng.random() < 0.3:
                    steps.append(("recv", ci))
                steps.append(("use", ci))
            if rng.random() < 0.5:
                steps.append(("recv", rng.randrange(nh)))
            steps = [(k, c, None) for k, c in steps]
            if forced:
                steps = [("use", 0, 0), ("recv", 0, 2), ("recv", 0, 1)] + steps
            ctx.count("dc_shape:" + shape)
            ctx.count("dc_first_step:" + steps[0][0] + "-" + classes[steps[0][1]][0])
            seen = []
            model_in_sync = True
            for step, (kind, ci, force_n) in enumerate(steps):
                role, fields, cls, chain = classes[ci]
                hist = ">".join(seen + [f"{kind}:{role}"])
                seen.append(f"{kind}:{role}")
                layout = {"kind": "nested", "fields": [f[2] for f in fields]}
                triples = [self.dc_value(rng, f, build=(kind == "use"), force_n=force_n) for f in fields]
                args, vals, expect = [t[0] for t in triples], [t[1] for t in triples], [t[2] for t in triples]
                rep = {"section": "dataclass", "index": idx, "step": step, "history": hist, "role": role, "kind": kind,
                       "fields": [(f[0], f[3]) for f in fields], "values": short_repr(vals, 300)}
                ctx.count("dc_field_kinds:" + ",".join(sorted({f[3].split(":")[0] for f in fields})))
                # member classes present in the datagram, per field
                fm = []
                for f, v in zip(fields, vals):
                    if f[3] == "nested" or (f[3] in ("nestedlist", "nestedtuple") and len(v) > 0):
                        fm.append(leaf_id[id(f[4]["cls"])])
                    else:
                        fm.append(None)
                fm_tok = ".".join("x" if m is None else str(m) for m in fm) or "-"
                site = f"dataclass.{role}"
                ftok, vtok = fmt_token(layout), token(layout, vals)
                try:
                    gold = doc_encode_body(layout, vals)
                except (NotEncodable, OverflowError, struct.error, ValueError, TypeError) as e:
                    ctx.oracle_fail(f"{site}:doc-bytes", f"history {hist}: values do not fit the documented formats ({e})", rep)
                    continue
                if kind == "use":
                    ops.append(f"i{ci}")
                    for f in fields:       # building the arguments instantiated the member classes that occur
                        pass
                    for m, v in zip(fm, vals):
                        if m is not None and m not in converted:
                            converted.add(m)
                            ops.insert(len(ops) - 1, f"i{m}")
                    converted.add(ci)
                    try:
                        obj = cls(*args)
                        packed = self.ser.pack_serializable(obj)
                    except Exception as e:
                        ctx.oracle_fail(f"{site}:pack-raises", f"history {hist}: constructing/packing a {role} dataclass payload "
                                        f"raises {type(e).__name__}: {e}", rep)
                        continue
                    self.model(f"packl {ftok} {vtok}", "ok " + hx(packed), rep)
                    if gold != packed:
                        ctx.oracle_fail(f"{site}:doc-bytes", f"history {hist}: a {role} dataclass payload with fields "
                                        f"{[f[3] for f in fields]} is encoded as {packed.hex()[:120]}, its annotated fields in the "
                                        f"documented formats give {gold.hex()[:120]}", {**rep, "bytes": packed.hex()[:400]})
                # --- what the known finding predicts for this reception (mechanism: a class is converted by its first
                #     instantiation or by the first failed attempt to decode it; an unconverted class reads its nearest converted
                #     ancestor's layout and `from_unpack_list`)
                predicted = None          # None: everything must be right
                if kind == "recv":
                    ops.append(f"r{ci}:{fm_tok}")
                    anc = ci
                    while anc is not None and anc not in converted:
                        anc = int(parents[anc]) if parents[anc] != "x" else None
                    eff_fields = classes[anc][1] if anc is not None else []
                    bad_member = next((m for m in fm[:len(eff_fields)] if m is not None and m not in converted), None) \
                        if anc is not None else None
                    if anc is None:
                        predicted = ("raise", None)
                        converted.add(ci)
                    elif bad_member is not None:
                        predicted = ("raise", None)
                        converted.add(bad_member)
                    elif anc != ci:
                        predicted = ("base", anc)
                    ctx.count("dc_recv:" + ("as-expected-by-property" if predicted is None else
                                            "known-finding:" + ("unconverted-member" if bad_member is not None else
                                                                "never-converted" if anc is None else "ancestor-converted")))
                pre, post = self.embed(rng, gold, False)
                data, off = pre + gold + post, len(pre)
                rep = {**rep, "offset": off, "data": data.hex()[:600]}
                outcome, got, new = "raise", None, None
                try:
                    got, new = self.ser.unpack_serializable(cls, data, off)
                    outcome = next((f"cls{k}" for k, (_, _, c, _) in enumerate(classes) if type(got) is c), "other")
                except Exception as e:
                    err = e
                # --- exactly the predicted defective behaviour → the known signature (a few per run); anything else is judged
                if predicted is not None:
                    exact = False
                    if predicted[0] == "raise":
                        exact = got is None and isinstance(err, TypeError)
                        what = f"raises {type(err).__name__}: {err}" if got is None else f"returns a {type(got).__name__}"
                    else:
                        anc_fields = classes[predicted[1]][1]
                        if got is not None and type(got) is classes[predicted[1]][2]:
                            alay = {"kind": "nested", "fields": [f[2] for f in anc_fields]}
                            try:
                                def bag(vs):     # scalar sequences as sets: the base class may annotate another container
                                    return [frozenset(repr(x) for x in v) if isinstance(v, (list, tuple, set, frozenset))
                                            and all(isinstance(x, (int, float, bool)) for x in v) else v for v in vs]
                                exact = (same(self.norm(alay, bag(self.listify(expect[:len(anc_fields)]))),
                                              self.norm(alay, bag(self.listify(self.dc_extract(anc_fields, got)))))
                                         and new == off + len(doc_encode_body(alay, vals[:len(anc_fields)])))
                            except Exception:
                                exact = False
                        what = (f"returns a {type(got).__name__} with only the base class's fields, stopping at {new} of {off + len(gold)}"
                                if got is not None else f"raises {type(err).__name__}: {err}")
                    if exact:
                        self.fail_limited(self.KNOWN_RECV_FIRST, f"history {hist}: decoding a conforming {role} datagram at offset {off} "
                                          f"{what} (mechanism: {'the class itself was never converted' if anc is None else 'nested member class never converted' if bad_member is not None else 'only a base class was converted'})", rep)
                    elif got is not None and type(got) is cls and new == off + len(gold):
                        # the implementation decoded correctly where the known finding predicts a failure: the finding no longer
                        # reproduces here; stop comparing the class-level state with the model that mirrors the defect
                        ctx.count("known_finding_not_reproduced")
                        model_in_sync = False
                        predicted = None
                    else:
                        ctx.oracle_fail(f"{site}:recv-{'raises' if got is None else 'wrong-result'}", f"history {hist}: decoding a conforming "
                                        f"{role} datagram {what}; not the behaviour of the known finding either", rep)
                if predicted is None:
                    if got is None:
                        ctx.oracle_fail(f"{site}:unpack-raises", f"history {hist}: decoding a {role} dataclass payload at offset {off} "
                                        f"raises {type(err).__name__}: {err}", rep)
                        if kind == "use":
                            self.model(f"unpackl {ftok} {hx(data)} {off}", "err", rep)
                    else:
                        if type(got) is not cls:
                            ctx.oracle_fail(f"{site}:type", f"history {hist}: decoded object is a {type(got).__name__}, expected "
                                            f"{cls.__name__}", rep)
                        gvals = self.dc_extract(fields, got)
                        try:
                            equal = same(self.norm(layout, expect), self.norm(layout, gvals))
                            loose = equal or same(self.norm(layout, self.listify(expect)), self.norm(layout, self.listify(gvals)))
                        except Exception:      # decoded object lacks fields / has fields of another shape
                            equal = loose = False
                        if equal and any(f[3] in ("nestedlist", "nestedtuple") and type(e) is not type(g)
                                         for f, e, g in zip(fields, expect, gvals)):
                            equal, loose = False, True       # `norm` compares lists of payloads element-wise; the container counts too
                        if not equal and loose and type(got) is cls:
                            bad = [(f[0], f[3].split(":")[-1], type(g).__name__) for f, e, g in zip(fields, expect, gvals)
                                   if type(e) is not type(g) and ("[" in f[3] or f[3] in ("nestedlist", "nestedtuple"))]
                            ctx.oracle_fail(f"{site}:container", f"history {hist}: sequence fields (name, annotation in this class, "
                                            f"decoded container) {bad} do not come back in the annotated container", rep)
                        elif not equal:
                            ctx.oracle_fail(f"{site}:value", f"history {hist}: fields {short_repr(expect, 160)} decode as "
                                            f"{short_repr(gvals, 160)}", rep)
                        if new != off + len(gold):
                            ctx.oracle_fail(f"{site}:offset", f"history {hist}: decoder stopped at {new}, message ends at {off + len(gold)}", rep)
                        has_set = any(isinstance(g, (set, frozenset)) for g in gvals)
                        if type(got) is cls:
                            try:
                                again = self.ser.pack_serializable(got)
                                if not has_set and again != gold:
                                    ctx.oracle_fail(f"{site}:reencode", f"history {hist}: re-encoding the decoded message differs", rep)
                                elif has_set:      # a set has no wire order of its own: the re-encoding must decode to the same fields
                                    g2, _ = self.ser.unpack_serializable(cls, again, 0)
                                    if len(again) != len(gold) or not same(self.norm(layout, self.dc_extract(fields, g2)), self.norm(layout, gvals)):
                                        ctx.oracle_fail(f"{site}:reencode", f"history {hist}: re-encoding the decoded message and "
                                                        f"decoding it again gives other fields", rep)
                            except Exception as e:
                                ctx.oracle_fail(f"{site}:reencode", f"history {hist}: re-encoding raises {type(e).__name__}", rep)
                            for f, g in zip(fields, gvals):
                                if f[3].startswith("atom:") and "[" in f[3] and model_in_sync:
                                    anns = ",".join(a.split(":")[1].split("[")[0] for a in chain[f[0]])
                                    self.model(f"dcrule {anns}", type(g).__name__, rep)
                                    if len(set(chain[f[0]])) > 1:
                                        ctx.count("dc_container_chain:" + anns.replace(",", ">"))
                        if not has_set:
                            try:
                                gtok = token(layout, self.norm(layout, self.listify(gvals)))
                            except Exception as e:
                                gtok = f"untokenizable:{type(e).__name__}"
                            self.model(f"unpackl {ftok} {hx(data)} {off}", f"ok {gtok} {new}", rep)
                # class-level state after the step vs the Dc model
                if model_in_sync:
                    allc = [c for _, _, c, _ in classes] + [lf["cls"] for lf in leafs]
                    impl_names = "|".join(".".join(c.names) if c.names else "-" for c in allc)
                    res = "inst" if kind == "use" else outcome
                    self.model(f"dc {parents_tok} {model_names} {','.join(ops)}", f"{res};{impl_names}", rep)
                ctx.case(("dataclass", idx, step, vtok, off), off > 0 or any(gold))
            import sys as _sys
            for _, _, c, _ in classes:
                _sys.modules[__name__].__dict__.pop(c.__name__, None)
            for lf in leafs:
                _sys.modules[__name__].__dict__.pop(lf["cls"].__name__, None)

    # --- section: histories of decodes on ONE long-lived serializer (decoding must be a function of the bytes alone) --------------
    def decode_histories(self, n: int):
        """per scenario a fresh serializer with every overlay's packers lives through 3..7 messages whose contents RECUR:
        public keys from a pool of two appear with addresses of different families, the same addresses with other keys, the
        same class several times.  Every decode must give the encoded values (and what a serializer without history gives),
        and results decoded earlier must not change afterwards."""
        ctx = self.ctx
        from ipv8.dht.routing import Node
        pls = [p for p in self.info["payloads"] if any(r == ("name", "node-list") for r in p["refs"])]
        others = [p for p in self.info["payloads"] if p["kind"] != "old" and p not in pls]
        if not pls:
            return
        for idx in range(1, n + 1):
            if not self.want("history", idx):
                continue
            rng = self.rng_for("history", idx)
            ser = self.make_serializer()
            keys = [b"LibNaCLPK:" + rbytes(rng, 64) for _ in range(2)]
            addrs = [(gen_ipv4(rng), gen_port(rng)), (gen_ipv6(rng), gen_port(rng)), (gen_ipv4(rng), gen_port(rng)),
                     (gen_ipv6(rng), gen_port(rng))]
            earlier = []      # (label, decoded object, snapshot of its node fields)
            trail = []
            for step in range(rng.choice([3, 4, 5, 7])):
                p = rng.choice(pls) if rng.random() < 0.8 else rng.choice(others)
                cls = self.load_class(p["name"])
                cn = p["name"].rpartition(".")[2]
                args = []
                for kind, ref in p["refs"]:
                    if kind == "name" and ref == "node-list":
                        args.append([Node(rng.choice(keys), address=rng.choice(addrs)) for _ in range(rng.choice([1, 1, 2, 3]))])
                    elif kind == "name":
                        d = self.info["registry"][ref]
                        v = gen_value(rng, d, None, 1)
                        args += list(v) if d["kind"] == "bits" else [v]
                    else:
                        args = None
                        break
                if args is None:
                    continue
                obj = cls(*args)
                nodes_here = [(hx(nd.public_key.key_to_bin())[:24], tuple(nd.address)) for a in args if isinstance(a, list)
                              for nd in a if hasattr(nd, "public_key")]
                trail.append(f"{cn}{nodes_here}")
                fam = {("v6" if ":" in a[0] else "v4") for _, a in nodes_here}
                rep = {"section": "history", "index": idx, "step": step, "class": p["name"], "history": trail[:]}
                for kb, a in nodes_here:
                    seen_fams = {f for (k2, f) in getattr(self, "_hist_seen", set()) if k2 == (idx, kb)}
                    f = "v6" if ":" in a[0] else "v4"
                    if seen_fams and f not in seen_fams:
                        ctx.count("history:key-seen-before-with-other-address-family")
                    elif seen_fams:
                        ctx.count("history:key-seen-before-same-family")
                    self._hist_seen = getattr(self, "_hist_seen", set()) | {((idx, kb), f)}
                del fam
                try:
                    packed = ser.pack_serializable(obj)
                    pre = rbytes(rng, rng.choice([0, 5, 23]))
                    got, new = ser.unpack_serializable(cls, pre + packed, len(pre))
                    ref_got, ref_new = self.make_serializer().unpack_serializable(cls, pre + packed, len(pre))
                except Exception as e:
                    ctx.oracle_fail(f"{cn}:history-raises", f"after {trail[:-1]}: encoding/decoding {trail[-1]} raises "
                                    f"{type(e).__name__}: {e}", rep)
                    continue
                names = list(p["names"])
                for f in names:
                    a, b, c = getattr(obj, f), getattr(got, f, "<missing>"), getattr(ref_got, f, "<missing>")
                    if not same_field(a, b):
                        ctx.oracle_fail(f"{cn}:history-dependent-decode", f"after decoding {trail[:-1]} on the same serializer, "
                                        f"{cn}.{f} = {self.show_nodes(a)} decodes as {self.show_nodes(b)}"
                                        + (f" (a serializer without history gives {self.show_nodes(c)})" if same_field(a, c) else ""), rep)
                    for msg in ([m for x in b for m in self.addr_class_errors({"kind": "node"}, x)]
                                if isinstance(b, list) and b and hasattr(b[0], "public_key") else [])[:1]:
                        ctx.oracle_fail(f"{cn}:history-dependent-decode", f"after {trail[:-1]}: {cn}.{f}: {msg}", rep)
                if new != len(pre) + len(packed) or new != ref_new:
                    ctx.oracle_fail(f"{cn}:history-dependent-decode", f"after {trail[:-1]}: decoder stopped at {new}, message ends "
                                    f"at {len(pre) + len(packed)}", rep)
                try:
                    if ser.pack_serializable(got) != packed:
                        ctx.oracle_fail(f"{cn}:history-dependent-decode", f"after {trail[:-1]}: re-encoding the decoded {cn} gives other "
                                        f"bytes", rep)
                except Exception as e:
                    ctx.oracle_fail(f"{cn}:history-dependent-decode", f"re-encoding raises {type(e).__name__}", rep)
                for label, old, snap in earlier:
                    if self.node_snapshot(old) != snap:
                        ctx.oracle_fail(f"{cn}:earlier-result-mutated", f"the {label} decoded earlier changed after decoding "
                                        f"{trail[-1]}: {snap} -> {self.node_snapshot(old)}", rep)
                earlier.append((trail[-1], got, self.node_snapshot(got)))
                try:
                    atok = self.attr_tokens(p, got, names)
                except Exception as e:
                    atok = f"untokenizable:{type(e).__name__}"
                self.model(f"decode {p['name']} {hx(pre + packed)} {len(pre)}", f"ok {atok} {new}", rep)
                ctx.case(("history", idx, step), True)
            ctx.count("history:scenarios")

    @staticmethod
    def show_nodes(v):
        if isinstance(v, list) and v and hasattr(v[0], "public_key"):
            return [(hx(x.public_key.key_to_bin())[:24], tuple(x.address)) for x in v]
        return short_repr(v, 80)

    @staticmethod
    def node_snapshot(obj):
        out = []
        for k, v in sorted(vars(obj).items()):
            if isinstance(v, list) and v and hasattr(v[0], "public_key"):
                out.append((k, [(x.public_key.key_to_bin(), tuple(x.address)) for x in v]))
            elif isinstance(v, (bytes, int, str, tuple)):
                out.append((k, v))
        return out

    # --- section: the datagram frame of an overlay (prefix, message id, [key], payloads, [signature]) -------------------------------
    def framed(self, n: int):
        """messages travel inside EZPackOverlay's frame: `_ez_pack` / `_ez_unpack_auth` / `_ez_unpack_noauth` / `lazy_wrapper`.
        Real overlays (sender, receiver); the key field carries every encoding of the sender's key that the key loader accepts
        (canonical, with trailing bytes); shipped classes with a message id; signed and unsigned.  Bytes before the signature =
        golden bytes; the decoded key field, global time and message fields = what was sent."""
        import asyncio
        ctx = self.ctx
        try:
            from ipv8.community import Community, CommunitySettings
            from ipv8.keyvault.crypto import default_eccrypto
            from ipv8.lazy_community import lazy_wrapper
            from ipv8.messaging.payload_headers import BinMemberAuthenticationPayload, GlobalTimeDistributionPayload
            from ipv8.peer import Peer
            from ipv8.peerdiscovery.network import Network
            from ipv8.test.mocking.endpoint import AutoMockEndpoint
        except Exception as e:
            ctx.count(f"framed:skipped:{type(e).__name__}")
            return
        pls = [p for p in self.info["payloads"] if p["msg_id"] is not None
               and not any(r[1] in ("node-list", "flags") for r in p["refs"])]

        async def body():
            try:
                Probe = type("FrameProbe", (Community,), {"community_id": b"\x42" * 20})

                def make(level):
                    ep = AutoMockEndpoint()
                    ep.open()
                    return Probe(CommunitySettings(endpoint=ep, network=Network(),
                                                   my_peer=Peer(default_eccrypto.generate_key(level), ep.wan_address)))
                pairs = {}
                for level in ("curve25519", "very-low"):
                    try:
                        pairs[level] = (make(level), make(level))
                    except Exception:
                        ctx.count("framed:key-level-unavailable:" + level)
            except Exception as e:
                ctx.count(f"framed:skipped:{type(e).__name__}")
                return
            if not pairs:
                ctx.count("framed:skipped:no-keys")
                return
            for idx in range(1, n + 1):
                if not self.want("framed", idx):
                    continue
                rng = self.rng_for("framed", idx)
                level = rng.choice(sorted(pairs))
                sender, receiver = pairs[level]
                pub = sender.my_peer.public_key
                canonical = pub.key_to_bin()
                tail = rng.choice([b"", b"", b"\x00", rbytes(rng, 4), rbytes(rng, 1)])
                key_bin = canonical + tail
                if not default_eccrypto.is_valid_public_bin(key_bin):
                    key_bin, tail = canonical, b""
                p = rng.choice(pls)
                obj, names = self.gen_instance(rng, p)
                if obj is None:
                    continue
                cls, cn = type(obj), p["name"].rpartition(".")[2]
                gt = gen_uint(rng, 8)
                signed = rng.random() < 0.7
                ctx.count(f"framed:{'signed' if signed else 'unsigned'}:key-{'canonical' if not tail else 'with-trailing-bytes'}:{level}")
                rep = {"section": "framed", "index": idx, "class": p["name"], "key_bin": key_bin.hex(), "global_time": gt,
                       "signed": signed, "fields": {f: short_repr(getattr(obj, f), 80) for f in self.field_names(p, obj, names)}}
                auth, dist = BinMemberAuthenticationPayload(key_bin), GlobalTimeDistributionPayload(gt)
                try:
                    gold_msg = self.golden(p["name"], obj)
                    packet = sender._ez_pack(sender._prefix, p["msg_id"], [auth, dist, obj] if signed else [dist, obj], signed)
                except Exception as e:
                    ctx.oracle_fail("EZPackOverlay._ez_pack:raises", f"packing a {cn} frame raises {type(e).__name__}: {e}", rep)
                    continue
                siglen = default_eccrypto.get_signature_length(pub) if signed else 0
                head = sender._prefix + bytes([p["msg_id"]])
                gold = head + ((len(key_bin).to_bytes(2, "big") + key_bin) if signed else b"") + gt.to_bytes(8, "big") + (gold_msg or b"")
                rep["packet"] = packet.hex()[:1200]
                if gold_msg is not None and packet[:len(packet) - siglen] != gold:
                    ctx.oracle_fail("EZPackOverlay._ez_pack:doc-bytes", f"the frame of a {cn} is {packet[:60].hex()}…, documented layout "
                                    f"gives {gold[:60].hex()}…", rep)
                if signed and not default_eccrypto.is_valid_signature(pub, packet[:-siglen], packet[-siglen:]):
                    ctx.oracle_fail("EZPackOverlay._ez_pack:signature", "the appended signature does not verify over the frame", rep)
                # decode: helper and decorator
                results = []
                try:
                    if signed:
                        r_auth, r_dist, r_msg = receiver._ez_unpack_auth(cls, packet)
                        results.append(("_ez_unpack_auth", r_auth.public_key_bin, r_dist.global_time, r_msg))
                        box = []
                        handler = lazy_wrapper(GlobalTimeDistributionPayload, cls)(lambda self_, peer, d_, m_: box.append((peer, d_, m_)))
                        handler(receiver, sender.my_peer.address, packet)
                        if len(box) != 1:
                            ctx.oracle_fail("lazy_wrapper:delivery", f"a signed {cn} frame was delivered {len(box)} times", rep)
                        else:
                            results.append(("lazy_wrapper", None, box[0][1].global_time, box[0][2]))
                    else:
                        r_dist, r_msg = receiver._ez_unpack_noauth(cls, packet)
                        results.append(("_ez_unpack_noauth", None, r_dist.global_time, r_msg))
                except Exception as e:
                    ctx.oracle_fail(f"EZPackOverlay.{'_ez_unpack_auth' if signed else '_ez_unpack_noauth'}:raises",
                                    f"decoding a {cn} frame (key field of {len(key_bin)} bytes, canonical {len(canonical)}) raises "
                                    f"{type(e).__name__}: {e}", rep)
                    self.model(f"ezunpack {siglen if signed else '-'} {hx(packet)} ipv8.messaging.payload_headers.GlobalTimeDistributionPayload "
                               f"{p['name']}", "err", rep)
                    continue
                for how, k, g, m in results:
                    if k is not None and k != key_bin:
                        ctx.oracle_fail(f"EZPackOverlay.{how}:field-public_key_bin", f"the key field {key_bin.hex()[:40]}… ({len(key_bin)} "
                                        f"bytes) decodes as {bytes(k).hex()[:40]}… ({len(k)} bytes)", rep)
                    if g != gt:
                        ctx.oracle_fail(f"EZPackOverlay.{how}:field-global_time", f"global time {gt} decodes as {g} in a {cn} frame", rep)
                    self.compare_fields(cn, p, obj, m, names, rep, "framed:" + how)
                try:
                    atok = self.attr_tokens(p, results[0][3], names)
                except Exception as e:
                    atok = f"untokenizable:{type(e).__name__}"
                self.model(f"ezunpack {siglen if signed else '-'} {hx(packet)} ipv8.messaging.payload_headers.GlobalTimeDistributionPayload "
                           f"{p['name']}", f"ok {hx(bytes(results[0][1])) if signed else '-'} L(R(n{results[0][2]}),{atok})", rep)
                # --- the public entry points: ezr_pack / _ez_senda / ez_send with sig=True|False must put exactly the frame of the
                #     requested kind on the wire (signed: own canonical key in front, signature behind; unsigned: neither)
                entry = rng.choice(["ezr_pack", "_ez_senda", "ez_send"])
                esig = rng.random() < 0.5
                ctx.count(f"framed_entry:{entry}:{'signed' if esig else 'unsigned'}")
                erep = {**rep, "entry_point": entry, "sig": esig}
                sent = []
                real_send = sender.endpoint.send
                sender.endpoint.send = lambda a_, d_: sent.append(d_)
                try:
                    if entry == "ezr_pack":
                        pkt = sender.ezr_pack(p["msg_id"], dist, obj, sig=esig)
                    elif entry == "_ez_senda":
                        sender._ez_senda(receiver.my_peer.address, dist, obj, sig=esig)
                        pkt = sent[-1]
                    else:
                        sender.ez_send(receiver.my_peer, dist, obj, sig=esig)
                        pkt = sent[-1]
                except Exception as e:
                    ctx.oracle_fail(f"EZPackOverlay.{entry}:raises", f"{entry}(…, sig={esig}) of a {cn} raises {type(e).__name__}: {e}", erep)
                    continue
                finally:
                    sender.endpoint.send = real_send
                esl = default_eccrypto.get_signature_length(pub) if esig else 0
                want = head + ((len(canonical).to_bytes(2, "big") + canonical) if esig else b"") + gt.to_bytes(8, "big") + (gold_msg or b"")
                erep["packet"] = pkt.hex()[:1200]
                if gold_msg is not None and (len(pkt) != len(want) + esl or pkt[:len(pkt) - esl] != want):
                    ctx.oracle_fail(f"EZPackOverlay.{entry}:doc-bytes", f"{entry}(…, sig={esig}) puts {len(pkt)} bytes {pkt[:40].hex()}… on the "
                                    f"wire; the {'signed' if esig else 'unsigned'} frame of this {cn} is {len(want) + esl} bytes "
                                    f"{want[:40].hex()}…" + (" + signature" if esig else ""), erep)
                try:
                    if esig:
                        _, d2, m2 = receiver._ez_unpack_auth(cls, pkt)
                    else:
                        from ipv8.lazy_community import lazy_wrapper_unsigned
                        box2 = []
                        lazy_wrapper_unsigned(GlobalTimeDistributionPayload, cls)(
                            lambda self_, addr_, d_, m_: box2.append((d_, m_)))(receiver, sender.my_peer.address, pkt)
                        d2, m2 = box2[0]
                    if d2.global_time != gt:
                        ctx.oracle_fail(f"EZPackOverlay.{entry}:field-global_time", f"global time {gt} sent with {entry}(sig={esig}) decodes "
                                        f"as {d2.global_time}", erep)
                    self.compare_fields(cn, p, obj, m2, names, erep, f"framed:{entry}:sig={esig}")
                    try:
                        atok2 = self.attr_tokens(p, m2, names)
                    except Exception as e:
                        atok2 = f"untokenizable:{type(e).__name__}"
                    self.model(f"ezunpack {esl if esig else '-'} {hx(pkt)} ipv8.messaging.payload_headers.GlobalTimeDistributionPayload "
                               f"{p['name']}", f"ok {hx(canonical) if esig else '-'} L(R(n{d2.global_time}),{atok2})", erep)
                except Exception as e:
                    ctx.oracle_fail(f"EZPackOverlay.{entry}:receiver-raises", f"what {entry}(…, sig={esig}) sent for a {cn} cannot be decoded by "
                                    f"the {'signed' if esig else 'unsigned'} receiver: {type(e).__name__}: {e}", erep)
                ctx.case(("framed", idx), True)
            for a, b in pairs.values():
                await a.unload()
                await b.unload()
        asyncio.run(body())

    # --- section: several overlays in one process, each with its own registrations -------------------------------------------
    ISO_FRESH = ["digest", "blob", "seq", "tag"]
    ISO_OVERRIDE = ["varlenH", "H", "20s", "varlenI", "Q", "varlenHx20"]

    def iso_desc(self, rng):
        r = rng.random()
        if r < 0.35:
            return {"kind": "struct", "fields": [["fixed", rng.choice([8, 20, 32, 64])]]}
        if r < 0.6:
            return {"kind": "struct", "fields": [["uint", rng.choice([1, 2, 4, 8])]]}
        return {"kind": "varlen", "len_width": rng.choice([1, 2, 4]), "unit": rng.choice([1, 1, 2, 20])}

    @staticmethod
    def iso_packer(d):
        from ipv8.messaging.serialization import DefaultStruct, VarLen
        if d["kind"] == "struct":
            k, w = d["fields"][0]
            return DefaultStruct(">" + (f"{w}s" if k == "fixed" else {1: "B", 2: "H", 4: "I", 8: "Q"}[w]))
        return VarLen({1: ">B", 2: ">H", 4: ">I"}[d["len_width"]], d["unit"])

    def overlay_isolation(self, n: int):
        """configurations: 2..5 overlays created in one process in random order; each `get_serializer` registers 0..3 packers
        on top of `super().get_serializer()` under fresh names, names other overlays also use, or default names it
        overrides; serializers of the shipped DHT / tunnel overlays are created in between.  Afterwards EVERY overlay's
        serializer must resolve every name to its own last registration, else to the default packer, must know no other
        names, and `default_serializer` must still be the documented table."""
        import asyncio
        ctx = self.ctx
        try:
            from ipv8.community import Community, CommunitySettings
            from ipv8.keyvault.crypto import default_eccrypto
            from ipv8.messaging.serialization import Serializer, default_serializer
            from ipv8.peer import Peer
            from ipv8.peerdiscovery.network import Network
            from ipv8.test.mocking.endpoint import AutoMockEndpoint
        except Exception as e:      # the scaffolding to run overlays in-process is not available: not a statement about C02
            ctx.count(f"overlay_isolation:skipped:{type(e).__name__}")
            return
        reg = self.info["registry"]
        origin = self.info.get("origin", {})
        extra_names = sorted(nm for nm in reg if origin.get(nm, "Serializer") != "Serializer")
        defaults = {nm: d for nm, d in reg.items() if nm not in extra_names}
        excl = ",".join(extra_names) or "-"
        shipped = []
        try:
            from ipv8.dht.community import DHTCommunity
            from ipv8.messaging.anonymization.community import TunnelCommunity
            shipped = [DHTCommunity, TunnelCommunity]
        except Exception:
            pass

        async def scenario(idx):
            rng = self.rng_for("overlays", idx)
            count = rng.choice([2, 2, 3, 4, 5])
            plans = []
            for k in range(count):
                r = rng.random()
                if shipped and r < 0.2:
                    plans.append(("shipped", rng.choice(shipped)))
                else:
                    regs = []
                    for _ in range(rng.choice([0, 1, 1, 2, 3])):
                        pool = self.ISO_FRESH if rng.random() < 0.6 else self.ISO_OVERRIDE
                        regs.append((rng.choice(pool), self.iso_desc(rng)))
                    plans.append(("adhoc", regs))
            my_peer = Peer(default_eccrypto.generate_key("curve25519"))
            overlays, sers, model_regs = [], [], []
            # control: an overlay without registrations of its own, created first; what IT knows is what every overlay starts from
            try:
                control = type(f"IsoCtl{idx}", (Community,), {"community_id": b"\xfe" * 20})(
                    CommunitySettings(my_peer=my_peer, endpoint=AutoMockEndpoint(), network=Network()))
            except Exception as e:
                ctx.count(f"overlay_isolation:skipped:{type(e).__name__}")
                return
            overlays.append(control)
            baseline = set(control.serializer.get_available_formats())
            for k, (kind, what) in enumerate(plans):
                if kind == "shipped":
                    ser = object.__new__(what).get_serializer()
                    own = {nm: gen_c02.packer_to_desc(ser.get_packer_for(nm), nm) for nm in extra_names
                           if origin.get(nm) == what.__qualname__}
                    ctx.count("iso_overlay:shipped")
                else:
                    regs = what

                    def get_serializer(self_, _regs=regs, _k=k):
                        ser_ = super(classes[_k], self_).get_serializer()
                        for nm, d in _regs:
                            ser_.add_packer(nm, Run.iso_packer(d))
                        return ser_
                    classes[k] = type(f"Iso{idx}_{k}", (Community,), {"community_id": bytes([k + 1]) * 20,
                                                                      "get_serializer": get_serializer})
                    ov = classes[k](CommunitySettings(my_peer=my_peer, endpoint=AutoMockEndpoint(), network=Network()))
                    overlays.append(ov)
                    ser = ov.serializer
                    own = {}
                    for nm, d in regs:
                        own[nm] = d
                    ctx.count("iso_overlay:adhoc:%d-registrations" % len(regs))
                    for nm, _ in regs:
                        ctx.count("iso_registration:" + ("override-default" if nm in defaults else "fresh-name"))
                sers.append(ser)
                model_regs.append("&".join(f"{nm}={fmt_token(d)}" for nm, d in (what if kind == "adhoc" else own.items())) or "-")
                plans[k] = (kind, what, own)
            names_used = sorted({nm for _, _, own in plans for nm in own})
            shared = sum(1 for nm in names_used if sum(1 for _, _, own in plans if nm in own) > 1)
            ctx.count("iso_scenario:" + ("name-shared-between-overlays" if shared else "distinct-names"))
            probe = names_used + rng.sample(sorted(defaults), 3) + extra_names
            model_overlays = "|".join(model_regs)
            targets = [(str(k), sers[k], plans[k][2]) for k in range(count)] + [("d", default_serializer, {}), ("f", Serializer(), {})]
            for kname, ser, own in targets:
                rep = {"section": "overlays", "index": idx, "overlay": kname,
                       "registrations": [[pl[0], pl[1] if pl[0] == "adhoc" else pl[1].__name__] for pl in plans]}
                expected_names = baseline | set(own)
                have = set(ser.get_available_formats())
                if have != expected_names:
                    ctx.oracle_fail("Overlay.get_serializer:isolation", f"the serializer of overlay {kname} knows the formats "
                                    f"{sorted(have ^ expected_names)} that are not its own / misses its own, after creating overlays with "
                                    f"{model_regs}", rep)
                for nm in probe:
                    want = own.get(nm, defaults.get(nm))
                    try:
                        got = gen_c02.packer_to_desc(ser.get_packer_for(nm), nm)
                    except KeyError:
                        got = None
                    except TranslatorError:
                        continue
                    if (got or {}).get("kind") in ("payload", "payloadList") or (want or {}).get("kind") in ("payload", "payloadList"):
                        continue
                    if kname != "f":
                        self.model(f"reg {excl} {model_overlays} {kname} {nm}", fmt_token(got) if got else "none", rep)
                    if got != want:
                        msg = f"overlay {kname} resolves {nm!r} to {fmt_token(got) if got else None}, its own registration / the default is " \
                              f"{fmt_token(want) if want else None}"
                        if got and want:
                            v = gen_value(rng, want, None)
                            try:
                                b = ser.pack(nm, v)
                                msg += f": {short_repr(v, 60)} is encoded as {b.hex()[:60]} instead of {doc_encode(want, v).hex()[:60]}"
                            except Exception as e:
                                msg += f": packing {short_repr(v, 60)} raises {type(e).__name__}"
                        ctx.oracle_fail("Overlay.get_serializer:isolation", msg + f" (overlays: {model_regs})", rep)
                    ctx.case(("overlays", idx, kname, nm), True)
            for ov in overlays:
                await ov.unload()

        async def body():
            for idx in range(1, n + 1):
                if self.want("overlays", idx):
                    classes.clear()
                    await scenario(idx)
        classes: dict = {}
        asyncio.run(body())

    # --- section: truncated / inflated encodings (decode side of the model only; the property itself is C03's) -----------
    def truncated(self, n: int):
        ctx, rng = self.ctx, self.rng_for("trunc")
        reg = self.info["registry"]
        names = [nm for nm, d in reg.items() if d["kind"] not in ("payload", "payloadList")]
        for idx in range(n):
            name = rng.choice(names)
            d = reg[name]
            v = gen_value(rng, d, None)
            try:
                packed = self.ser.get_packer_for(name).pack(*self.packer_args(d, v))
            except Exception:
                continue
            if len(packed) > 600:
                continue
            mode = rng.choice(["cut", "cut", "flip", "extend"])
            if mode == "flip" and '["float", 4]' in json.dumps(d):
                mode = "cut"     # a flipped bit can make a signalling NaN, which CPython quietens while converting (trusted base)
            pre = rbytes(rng, rng.choice([0, 1, 5]))
            if mode == "cut":
                data = pre + packed[:rng.randrange(0, len(packed) + 1)]
            elif mode == "flip" and packed:
                i = rng.randrange(len(packed))
                data = pre + packed[:i] + bytes([packed[i] ^ (1 << rng.randrange(8))]) + packed[i + 1:]
            else:
                data = pre + packed + rbytes(rng, 3)
            off = len(pre)
            rep = {"section": "trunc", "index": idx, "packer": name, "data": data.hex()[:600], "offset": off}
            if "node" in json.dumps(d):
                # the model cannot know whether damaged key bytes still parse as a public key (Node(...) may raise): an
                # implementation error where the model decodes is tolerated, everything else is compared
                rep["tolerate_impl_err"] = True
            try:
                got, new = self.unpack_packer(name, d, data, off)
                try:
                    impl = f"ok {token(d, got)} {new}"
                except Exception as e:      # e.g. a host name that is not text any more
                    impl = f"untokenizable:{type(e).__name__}"
            except Exception:
                impl = "err"
            ctx.count(f"malformed:{mode}:{impl[:3]}")
            if impl.startswith("untokenizable"):
                continue
            self.model(f"unpack @{name} {hx(data)} {off}", impl, rep)
            ctx.case(("trunc", name, data.hex(), off), off > 0 or any(data))

    # --- section: CellPayload ---------------------------------------------------------------------------------------------
    def cells(self, n: int):
        from ipv8.messaging.anonymization.payload import CellPayload
        ctx = self.ctx
        for idx in range(1, n + 1):
            rng = self.rng_for(S_CELL, idx)
            prefix = rbytes(rng, 22)
            cid = gen_uint(rng, 4)
            pt, re_ = rng.random() < 0.5, rng.random() < 0.5
            msg = rbytes(rng, rng.choice([0, 1, 2, 30, rng.randrange(0, 200)]))
            if not self.want(S_CELL, idx):
                continue
            rep = {"section": S_CELL, "index": idx, "circuit_id": cid, "plaintext": pt, "relay_early": re_, "message": msg.hex()}
            c = CellPayload(cid, msg, pt, re_)
            b = c.to_bin(prefix)
            want = prefix + b"\x00" + cid.to_bytes(4, "big") + bytes([pt, re_]) + msg
            if b != want:
                ctx.oracle_fail("CellPayload.to_bin:doc-bytes", f"cell encoded as {b.hex()[:100]}, expected {want.hex()[:100]}", rep)
            self.model(f"cell tobin {hx(prefix)} {cid} {int(pt)} {int(re_)} {hx(msg)}", "ok " + hx(b), rep)
            try:
                g = CellPayload.from_bin(b)
                impl = f"ok {g.circuit_id} {int(g.plaintext)} {int(g.relay_early)} {hx(g.message)}"
                if (g.circuit_id, g.plaintext, g.relay_early, g.message) != (cid, pt, re_, msg):
                    ctx.oracle_fail("CellPayload.from_bin:value", f"cell {rep} decodes as {impl}", rep)
                elif g.to_bin(prefix) != b:
                    ctx.oracle_fail("CellPayload.to_bin:reencode", "cell re-encodes differently", rep)
            except Exception as e:
                impl = "err"
                ctx.oracle_fail("CellPayload.from_bin:raises", f"from_bin(to_bin(cell)) raises {type(e).__name__}", rep)
            self.model(f"cell frombin {hx(b)}", impl, rep)
            try:
                u = c.unwrap(prefix)
                wantu = prefix + msg[0:1] + cid.to_bytes(4, "big") + msg[1:]
                if u != wantu:
                    ctx.oracle_fail("CellPayload.unwrap:doc-bytes", f"unwrap gives {u.hex()[:100]}, expected {wantu.hex()[:100]}", rep)
                self.model(f"cell unwrap {hx(prefix)} {cid} {hx(msg)}", "ok " + hx(u), rep)
            except Exception as e:
                ctx.oracle_fail("CellPayload.unwrap:raises", f"unwrap raises {type(e).__name__}: {e}", rep)
            ctx.case((S_CELL, cid, pt, re_, msg.hex()), bool(cid or pt or re_ or any(msg)))
        ctx.count("cells", n)

    # --- section: unpack_serializable_list ----------------------------------------------------------------------------------
    def ulists(self, n: int):
        ctx = self.ctx
        pls = self.info["payloads"]
        if not pls:
            return
        for idx in range(1, n + 1):
            rng = self.rng_for(S_ULIST, idx)
            k = rng.choice([1, 2, 2, 3])
            chosen = [rng.choice(pls) for _ in range(k)]
            # `raw`-terminated classes may only come last
            chosen = [p for p in chosen[:-1] if p["refs"][-1] != ("name", "raw")] + [chosen[-1]]
            objs = [self.gen_instance(rng, p) for p in chosen]
            if any(o is None for o, _ in objs):
                continue
            consume = rng.random() < 0.6
            extra = rbytes(rng, rng.choice([0, 0, 1, 4]))
            if chosen[-1]["refs"][-1] == ("name", "raw"):
                extra = b""
            if not self.want(S_ULIST, idx):
                continue
            rep = {"section": S_ULIST, "index": idx, "classes": [p["name"] for p in chosen], "consume_all": consume,
                   "extra": extra.hex()}
            try:
                body = self.ser.pack_serializable_list([o for o, _ in objs])
            except Exception as e:
                ctx.oracle_fail("Serializer.pack_serializable_list:raises", f"{type(e).__name__}: {e}", rep)
                continue
            pre = rbytes(rng, rng.choice([0, 23, 5]))
            data, off = pre + body + extra, len(pre)
            clss = [type(o) for o, _ in objs]
            try:
                out = self.ser.unpack_serializable_list(clss, data, off, consume_all=consume)
                decoded = out if consume else out[:-1]
                rem = b"" if consume else out[-1]
                toks = [self.attr_tokens(p, g, nm) for p, g, (_, nm) in zip(chosen, decoded, objs)]
                impl = "ok L(" + ",".join(toks) + ") " + hx(rem)
                for p, (o, nm), g in zip(chosen, objs, decoded):
                    self.compare_fields(p["name"].rpartition(".")[2], p, o, g, nm, rep, "list")
                if not consume and rem != extra:
                    ctx.oracle_fail("Serializer.unpack_serializable_list:remainder", f"remainder {rem.hex()} != appended {extra.hex()}", rep)
            except Exception as e:
                impl = "err"
                if not (consume and extra):
                    ctx.oracle_fail("Serializer.unpack_serializable_list:raises", f"{type(e).__name__}: {e}", rep)
            ctx.count(f"ulist:consume={int(consume)}:extra={int(bool(extra))}:{impl[:3]}")
            self.model("dlist %d %s %d %s" % (int(consume), hx(data), off, " ".join(p["name"] for p in chosen)), impl, rep)
            ctx.case((S_ULIST, idx, data.hex()[:80]), off > 0 or any(body))

    # --- section: frozen layouts / msg ids vs the live classes (implementation-level statement of the table theorems) -----
    def spec_oracle(self):
        ctx = self.ctx
        live = {p["name"]: p for p in self.info["payloads"]}
        for e in self.spec["layouts"]:
            p = live.get(e["name"])
            cn = e["name"].rpartition(".")[2]
            if p is None:
                ctx.oracle_fail(f"{cn}:layout", f"shipped class {e['name']} no longer exists", {"section": S_SPEC, "class": e["name"]})
                continue
            if [list(r) for r in p["refs"]] != e["refs"] or (p["kind"] != "old" and p["names"] != e["names"]):
                ctx.oracle_fail(f"{cn}:layout", f"{cn}: format_list/names {p['refs']}/{p['names']} differ from the frozen wire "
                                f"layout {e['refs']}/{e['names']}: a peer of the pinned version reads other fields",
                                {"section": S_SPEC, "class": e["name"], "live": p["refs"], "frozen": e["refs"]})
        for name, mid in self.spec["msg_ids"]:
            p = live.get(name)
            if p is not None and p["msg_id"] != mid:
                cn = name.rpartition(".")[2]
                ctx.oracle_fail(f"{cn}:msg_id", f"{cn}.msg_id is {p['msg_id']}, the pinned version uses {mid}",
                                {"section": S_SPEC, "class": name, "live": p["msg_id"], "frozen": mid})
        for p in live.values():
            if p["kind"] == "old" and p["name"] not in self.spec.get("old_wire", {}):
                ctx.count("old_style_class_without_golden_layout:" + p["name"].rpartition(".")[2])
        reg = self.info["registry"]
        for name, d in self.doc.items():
            if name in reg and reg[name] != d:
                ctx.count("registry_differs_from_doc")
        ctx.case((S_SPEC,), True)


HOOKS = {"xor1": lambda v: v ^ 1, "rev": lambda v: bytes(v)[::-1]}


def depth_of(layout) -> int:
    m = 0
    for f in layout["fields"]:
        if f["kind"] == "nested":
            m = max(m, 1 + depth_of(f))
        elif f["kind"] == "listOf" and f["elem"]["kind"] == "nested":
            m = max(m, 1 + depth_of(f["elem"]))
    return m


def same_field(a, b) -> bool:
    """field equality as the property means it: Python value equality, but a bytes field must stay bytes, a str a str, a list
    of addresses a list…  (True == 1 is accepted: flags are sent as bits)"""
    if isinstance(a, bool) or isinstance(b, bool):
        return isinstance(b, (bool, int)) and isinstance(a, (bool, int)) and int(a) == int(b)
    if isinstance(a, tuple) and isinstance(b, tuple):
        return len(a) == len(b) and all(same_field(x, y) for x, y in zip(a, b))
    if isinstance(a, list) and isinstance(b, list):
        return len(a) == len(b) and all(same_field(x, y) for x, y in zip(a, b))
    return same(a, b)


# =====================================================================================================================
# old-style (hand-written) payloads: constructor argument generators and attribute order of the Lean model
# =====================================================================================================================
def _conn(rng):
    return rng.choice(["unknown", "public", "symmetric-NAT"])


def _v4(rng):
    return (gen_ipv4(rng), gen_port(rng))


def _ident(rng):
    return rng.choice([0, 1, 65535, 65536, 70000, rng.randrange(65536), rng.randrange(2 ** 32)])


OLD = {
    "IntroductionRequestPayload": {
        "attrs": [("destination_address", "a4"), ("source_lan_address", "a4"), ("source_wan_address", "a4"), ("advice", "bit"),
                  ("connection_type", "str"), ("identifier", "nat"), ("extra_bytes", "bytes"), ("supports_new_style", "bit")],
        "gen": lambda rng: (_v4(rng), _v4(rng), _v4(rng), rng.random() < 0.5, _conn(rng), _ident(rng),
                            rbytes(rng, rng.choice([0, 1, 20, 40])), rng.random() < 0.5)},
    "DiscoveryIntroductionRequestPayload": {
        "attrs": [("introduce_to", "bytes"), ("destination_address", "a4"), ("source_lan_address", "a4"),
                  ("source_wan_address", "a4"), ("advice", "bit"), ("connection_type", "str"), ("identifier", "nat"),
                  ("extra_bytes", "bytes"), ("supports_new_style", "bit")],
        "gen": lambda rng: (gen_fixed(rng, 20), _v4(rng), _v4(rng), _v4(rng), rng.random() < 0.5, _conn(rng), _ident(rng),
                            rbytes(rng, rng.choice([0, 1, 20])))},
    "IntroductionResponsePayload": {
        "attrs": [("destination_address", "a4"), ("source_lan_address", "a4"), ("source_wan_address", "a4"),
                  ("lan_introduction_address", "a4"), ("wan_introduction_address", "a4"), ("connection_type", "str"),
                  ("identifier", "nat"), ("extra_bytes", "bytes"), ("supports_new_style", "bit"),
                  ("intro_supports_new_style", "bit"), ("peer_limit_reached", "bit")],
        "gen": lambda rng: (_v4(rng), _v4(rng), _v4(rng), _v4(rng), _v4(rng), _conn(rng), _ident(rng),
                            rbytes(rng, rng.choice([0, 3, 30])), rng.random() < 0.5, rng.random() < 0.5, rng.random() < 0.5)},
    "PunctureRequestPayload": {"attrs": [("lan_walker_address", "a4"), ("wan_walker_address", "a4"), ("identifier", "nat")],
                               "gen": lambda rng: (_v4(rng), _v4(rng), _ident(rng))},
    "PuncturePayload": {"attrs": [("source_lan_address", "a4"), ("source_wan_address", "a4"), ("identifier", "nat")],
                        "gen": lambda rng: (_v4(rng), _v4(rng), _ident(rng))},
    "BinMemberAuthenticationPayload": {"attrs": [("public_key_bin", "bytes")],
                                       "gen": lambda rng: (rbytes(rng, rng.choice([0, 1, 74, 300])),)},
    "GlobalTimeDistributionPayload": {"attrs": [("global_time", "nat")], "gen": lambda rng: (gen_uint(rng, 8),)},
    "SimilarityRequestPayload": {
        "attrs": [("identifier", "nat"), ("lan_address", "a4"), ("wan_address", "a4"), ("connection_type", "str"),
                  ("preference_list", "byteslist")],
        "gen": lambda rng: (_ident(rng), _v4(rng), _v4(rng), _conn(rng), [gen_fixed(rng, 20) for _ in range(rng.choice([0, 1, 3]))])},
    "SimilarityResponsePayload": {
        "attrs": [("identifier", "nat"), ("preference_list", "byteslist"), ("tb_overlap", "tblist")],
        "gen": lambda rng: (_ident(rng), [gen_fixed(rng, 20) for _ in range(rng.choice([0, 1, 3]))],
                            [(gen_fixed(rng, 20), gen_uint(rng, 4)) for _ in range(rng.choice([0, 1, 2]))])},
    "PingPayload": {"attrs": [("identifier", "nat")], "gen": lambda rng: (_ident(rng),)},
    "PongPayload": {"attrs": [("identifier", "nat")], "gen": lambda rng: (_ident(rng),)},
    "RequestAttestationPayload": {"attrs": [("metadata", "bytes")], "gen": lambda rng: (rbytes(rng, rng.choice([0, 5, 100])),)},
    "VerifyAttestationRequestPayload": {"attrs": [("attestation_hash", "bytes")], "gen": lambda rng: (gen_fixed(rng, 20),)},
    "AttestationChunkPayload": {"attrs": [("attestation_hash", "bytes"), ("sequence_number", "nat"), ("data", "bytes")],
                                "gen": lambda rng: (gen_fixed(rng, 20), gen_uint(rng, 2), rbytes(rng, rng.choice([0, 7, 800])))},
    "ChallengePayload": {"attrs": [("attestation_hash", "bytes"), ("challenge", "bytes")],
                         "gen": lambda rng: (gen_fixed(rng, 20), rbytes(rng, rng.choice([0, 7, 64])))},
    "ChallengeResponsePayload": {"attrs": [("challenge_hash", "bytes"), ("response", "bytes")],
                                 "gen": lambda rng: (gen_fixed(rng, 20), rbytes(rng, rng.choice([0, 7, 64])))},
}


def gen_old(rng, cls, ctx):
    spec = OLD.get(cls.__name__)
    if spec is None:
        return None, None        # a hand-written payload the harness has no constructor recipe for: counted, not judged
    args = spec["gen"](rng)
    obj = cls(*args)
    # what the caller asked for, per attribute (constructor arguments are in attribute order for every modelled class)
    obj.__dict__["_c02_intent"] = {a: v for (a, _), v in zip(spec["attrs"], args)}
    return obj, [a for a, _ in spec["attrs"]]


def old_attr_token(t, v) -> str:
    if t == "a4":
        return addr_token(v, v4_only=True)
    if t == "bit":
        return f"n{1 if v else 0}"
    if t == "nat":
        return f"n{int(v)}"
    if t == "bytes":
        if not isinstance(v, bytes):
            raise TypeError("not bytes")
        return "x" + hx(v)
    if t == "str":
        return "s" + hx(v.encode())
    if t == "byteslist":
        return "L(" + ",".join("x" + hx(x) for x in v) + ")"
    if t == "tblist":
        return "L(" + ",".join(f"T(x{hx(h)},n{k})" for h, k in v) + ")"
    raise ValueError(t)


# =====================================================================================================================
_CACHE: dict = {}


def generate(ctx: Ctx):
    files, info, spec = gen_c02.translate()
    _CACHE["info"], _CACHE["spec"] = info, spec
    return files


def live_info(ctx: Ctx):
    """translator output for the harness; when the translator itself failed, fall back to a tolerant re-read so that the
    implementation-level oracle can still look for a failing input"""
    if "info" in _CACHE:
        return _CACHE["info"], _CACHE["spec"], True
    spec = gen_c02.load_spec()
    saved = dict(gen_c02.LENW)
    try:
        gen_c02.LENW.update({"B": 1, "H": 2, "I": 4, "<B": 1, "<H": 2, "<I": 4, "=H": 2, "@H": 2})
        gen_c02.TOLERANT_CODE = True
        info = gen_c02.collect()
    except Exception:
        info = None
    finally:
        gen_c02.LENW.clear()
        gen_c02.LENW.update(saved)
        gen_c02.TOLERANT_CODE = False
    if info is None:
        # last resort: the registry as frozen in the spec
        info = {"registry": {e["name"]: e["layout"] for e in spec["documented"] + spec["frozen_undocumented"]},
                "payloads": [], "overlays": [], "origin": {}}
    return info, spec, False


def SCALE(ctx):
    return {"packers": ctx.scale(120, 800), "classes": ctx.scale(80, 600), "adhoc": ctx.scale(1500, 15000),
            "cells": ctx.scale(200, 2000), "ulists": ctx.scale(400, 4000), "trunc": ctx.scale(5000, 50000),
            "sweep": ctx.scale(12, 64), "dataclass": ctx.scale(300, 3000),
            "overlays": ctx.scale(80, 600), "history": ctx.scale(150, 1500), "framed": ctx.scale(300, 3000)}


SEARCH_SCALE = {"packers": 300, "classes": 200, "adhoc": 3000, "cells": 300, "ulists": 500, "trunc": 0, "sweep": 8, "dataclass": 600, "overlays": 150, "history": 300, "framed": 400}


def sections(r: Run, ctx: Ctx, scale):
    r.spec_oracle()
    r.bits_exhaustive()
    r.flags_exhaustive()
    r.old_exhaustive()
    r.offset_sweep(scale["sweep"])
    r.packers(scale["packers"])
    r.illegal()
    r.bad_decodes()
    r.loose()
    r.classes(scale["classes"])
    r.adhoc(scale["adhoc"])
    r.dataclass_histories(scale["dataclass"])
    r.overlay_isolation(scale["overlays"])
    r.decode_histories(scale["history"])
    r.framed(scale["framed"])
    r.cells(scale["cells"])
    r.ulists(scale["ulists"])
    r.truncated(scale["trunc"])
    r.flush()


def run(ctx: Ctx):
    info, spec, translated = live_info(ctx)
    use_model = ctx.model_ok and translated
    if ctx.replay_input is not None:
        return replay(ctx, info, spec)
    scale = SCALE(ctx)
    r = Run(ctx, info, spec, use_model)
    sections(r, ctx, scale)
    if use_model:
        missing = r.missing_required()
        ctx.extra["required_branch_classes"] = {"required": len(REQUIRED) + 2 * len(info["payloads"]), "missing": missing}
        if missing and not [f for f in ctx.failures if f["signature"] not in Run.LIMITED] and not ctx.disagreements:
            # a silent loss of coverage must not look like a pass
            from vlib import InfraError
            raise InfraError("coverage lost: branch classes the design lists were not reached in this run: " + ", ".join(missing[:12]))
    kinds = {}
    for p in info["payloads"]:
        kinds[p["kind"]] = kinds.get(p["kind"], 0) + 1
    ctx.extra["translator"] = {"packers": len(info["registry"]), "payload_classes": len(info["payloads"]),
                               "payload_classes_by_kind": kinds, "overlay_serializers": info.get("overlays", []),
                               "modules_not_imported": info.get("import_skipped", [])}
    ctx.extra["obligation_names"] = ("every theorem listed under `theorems`; generated file Ipv8/C02/Gen.lean regenerates and "
                                     "type-checks; generated file Ipv8/C02/GenSpec.lean regenerates and type-checks; "
                                     "model/implementation correspondence (driver drv_c02) shows no disagreement")


def search(ctx: Ctx, reason: str):
    info, spec, _ = live_info(ctx)
    r = Run(ctx, info, spec, False)
    sections(r, ctx, SEARCH_SCALE)


def replay(ctx: Ctx, info, spec):
    rec = ctx.replay_input
    rp = rec.get("replay", rec)
    seed, tier = rec.get("seed", ctx.seed), rec.get("tier", ctx.tier)
    ctx.seed, ctx.tier = seed, tier
    section, index = rp.get("section"), rp.get("index")
    print(f"replay: section={section} index={index} seed={seed} tier={tier}: {json.dumps(rp)[:600]}")
    r = Run(ctx, info, spec, False, only=(section, index))
    scale = SCALE(ctx)
    for searching in (False, True):
        ctx.searching = searching
        if searching:
            scale = SEARCH_SCALE
        if section == S_SPEC:
            r.spec_oracle()
        elif section == S_BITS:
            r.bits_exhaustive()
        elif section == S_PACKERS:
            r.packers(scale["packers"])
        elif section == S_CLASSES:
            r.classes(scale["classes"])
        elif section == S_ADHOC:
            r.adhoc(scale["adhoc"])
        elif section == S_CELL:
            r.cells(scale["cells"])
        elif section == S_ULIST:
            r.ulists(scale["ulists"])
        elif section == "sweep":
            r.offset_sweep(scale["sweep"])
        elif section == "flagsx":
            r.flags_exhaustive()
        elif section == "oldx":
            r.old_exhaustive()
        elif section == "dataclass":
            r.dataclass_histories(scale["dataclass"])
        elif section == "overlays":
            r.overlay_isolation(scale["overlays"])
        elif section == "history":
            r.decode_histories(scale["history"])
        elif section == "framed":
            r.framed(scale["framed"])
        if ctx.failures:
            break
    ctx.searching = False
    print("replay: property " + ("FAILS: " + ctx.failures[0]["what"][:300] if ctx.failures else "holds on this input"))
