"""
C05 — circuits are isolated from each other and from third parties.

Real side: 4..6 real TunnelCommunity nodes (MockIPv8, curve25519 keys, real Rust session crypto) plus one outsider
identity.  Every endpoint's `send` is replaced by a recorder that puts the datagram into a harness-owned in-flight
list, so the harness decides which datagram is delivered next (arbitrary interleaving of 1..6 concurrent circuits
that share relays).  A virtual-clock loop is drained after every action, so each action is one atomic model step.

Link to the model: every action is written as one protocol line; the Lean driver (drv_c05) keeps the same network
(node tables + in-flight list with *symbolic* cell contents) and answers with the sends, the acting node's tables and
the delivery-log entries of that step; the harness diffs that against what the real code did (datagram headers,
table contents up to a bijection of session keys, delivery logs).

Oracle (independent of the model), evaluated on the real nodes after every action:
  O1  tagged data leaves only through the transport of the exit socket keyed with its circuit's last-hop key (also
      when it was parked in a queue while several exit sockets of one node were opening their transports
      concurrently), replies arrive only at the originator that owns the circuit, labelled with its circuit id;
  O2  a forged cell (unknown id / known id without keys / spliced from another circuit / plaintext flag on a
      non-create message / CREATED with an identifier that is not outstanding) changes no table entry and causes no
      datagram, except the blind backward re-encryption a relay performs;
  O3  a CREATE for an id present in circuits/relays/exit_sockets (or the created-cache) is refused: no entry changes,
      no CREATED is sent;
  O4  a destroy removes entries only if its signature verifies and the signer is the adjacent peer of that entry;
  O5  after the history every surviving circuit still carries a round trip end to end;
  O7  a forged cell that is dropped before any handler runs leaves bytes_up/bytes_down/last_activity of every circuit and
      exit socket unchanged;   O8  an extension completes only on the exit entry that requested it (id re-use);
      identifiers guessed from public values must not be the pending identifier (3 hits per run = predictable);
  O6  a genuine cell handed over from a foreign source address is never delivered at an originator and never
      enables an exit socket (origin / neighbour check of on_data and exit_data).
"""
from __future__ import annotations

import asyncio
import random as _random
import re
import struct
import types

import gen_c05
from vlib import Ctx, InfraError

PROPERTY = "C05"
LEAN_TARGETS = ["Ipv8.C05.Props"]
PROPS_FILE = "Ipv8/C05/Props.lean"
DRIVER = "drv_c05"
RULE = ("history = 4..6 real TunnelCommunity nodes + 1 outsider, 1..6 circuits of 1..3 hops over the shared pool, "
        "40..70 actions drawn from {deliver any in-flight datagram, deliver a genuine cell from a foreign source address, send data, outside reply at an exit, ping, open "
        "another circuit, legitimate destroy, clock advance by 3..61 s (any subset of the created/create/retry caches "
        "expires; retries are followed), transport completion of an exit socket, forged cell/CREATE/CREATED/destroy "
        "with any id, sender and signature}; one case per action; distinct = (action kind, role of the addressed id "
        "at the target, outcome); non-trivial = the action addressed an id that is in use at the target or moved a "
        "cell of a live circuit")
TRUSTED_BASE = [
    "tools/gen_c05.py: AST translation of the handlers' guards (boolean expressions over a per-function vocabulary of atoms; "
    "what an atom MEANS - e.g. `peer == prev_relay.hop.peer` is 'the signer is the previous hop' - is fixed in the translator and "
    "in the model's call site, and tied to the code by the correspondence run)",
    "harness/c05.py: recorder endpoints; exit sockets are real except TunnelProtocol.open, which returns a recording "
    "transport once the harness completes it (enable, create_transports, queue, sendto, datagram_received, "
    "tunnel_data, is_allowed are the real code); on_raw_data subclass hook; virtual clock",
    "ipv8_rust_tunnels (X25519, HKDF, ChaCha20-Poly1305 SessionKeys, crypto_auth) and libsodium signatures: modelled "
    "symbolically (a cell is a list of (key, direction) layers around a message); the AEAD laws are hypotheses",
    "hand-written model Ipv8/C05/Model.lean of process_cell/relay_cell/send_cell/incoming_crypto/outgoing_crypto, "
    "on_create/join_circuit/on_created/on_extend/on_extended/on_data/exit_data/on_ping/on_destroy/remove_*, "
    "TunnelExitSocket.tunnel_data - tied by the correspondence run only",
]
ASSUMPTIONS = [
    "ids, identifiers and session keys drawn by the code are inputs of the model (read back from the run); that they "
    "are fresh / unpredictable is NOT proved - the oracle measures identifier predictability, `_generate_circuit_id` "
    "only avoids ids in `circuits` (on_created refuses a next-hop id that is in use, mirrored)",
    "AEAD: `AeadLaws` (dec/enc inverse, ciphertext determines key, direction and body) and distinct keys for distinct "
    "entries are explicit hypotheses of the path / other-circuit theorems; signatures: `sigok` is an input of on_destroy",
    "remove_tunnel_delay is 0 in 70 % and 5 s in 30 % of the histories (deferred pops are events of their own); request-cache time-outs are independent events (any subset may "
    "expire); do_remove sweeps, rendezvous relays and replays of genuine ciphertexts are not generated (C09/C04)",
]

ZERO = ("0.0.0.0", 0)


def generate(ctx: Ctx):
    """Translator: the guards of on_create / on_created / on_destroy / on_data / exit_data / process_cell / relay_cell /
    incoming_crypto / outgoing_crypto, message ids and constants are re-read from the working tree on every run."""
    src, _ = gen_c05.translate()
    return [("Ipv8/C05/GenGuards.lean", src)]

MAX_RE = 8


# ================================================================================================================
# real side
# ================================================================================================================
class Pkt:
    __slots__ = ("src", "dst", "data", "forged", "nested")

    def __init__(self, src, dst, data):
        self.src, self.dst, self.data = src, dst, data


class FakeTransport:
    def __init__(self, world, sock):
        self.world, self.sock, self.closed = world, sock, False
        world.transports.append(self)

    def sendto(self, data, dest):
        if not self.closed:
            self.world.on_exit_send(self.sock, data, dest)

    def close(self):
        self.closed = True


class World:
    """n real nodes (indices 1..n), outsider index n+1; address/peer index 0 is the zero address."""

    def __init__(self, n: int, rng: _random.Random, delay: float = 0, hidden: bool = False, dualstack=(),
                 gated: bool = False):
        import vclock
        self.delay = delay
        self.gated = gated
        self.join_gates: list[list] = []      # [node, circuit id, source address, future]
        self.hidden = hidden
        self.v6_of: dict[int, tuple] = {}
        from ipv8.messaging.anonymization import exit_socket as es_mod
        from ipv8.messaging.anonymization.community import TunnelCommunity, TunnelSettings
        from ipv8.messaging.anonymization.tunnel import (PEER_FLAG_EXIT_BT, PEER_FLAG_EXIT_IPV8, PEER_FLAG_RELAY,
                                                         PEER_FLAG_SPEED_TEST)
        from ipv8.test.mocking import endpoint as mep
        from ipv8.test.mocking.ipv8 import MockIPv8

        mep.AutoMockEndpoint.SEND_INET_EXCEPTION_TO_LOOP = False
        self.rng = rng
        self.n = n
        self.loop = vclock.new_loop()
        self.flight: list[Pkt] = []
        self.step_sends: list[Pkt] = []
        self.exit_log: list[tuple] = []      # (node, exit cid, key bytes, dest, data)
        self.orig_log: list[tuple] = []      # (node, cid label, origin, data)
        self.step_exit: list[tuple] = []
        self.step_orig: list[tuple] = []
        self.raised = 0
        world = self

        if hidden:
            from ipv8.messaging.anonymization.hidden_services import HiddenTunnelCommunity as Base
            from ipv8.messaging.anonymization.hidden_services import HiddenTunnelSettings as SettingsCls
        else:
            Base, SettingsCls = TunnelCommunity, TunnelSettings

        class Node(Base):
            def on_raw_data(self, circuit, origin, data):
                rec = (world.node_of[id(self)], circuit.circuit_id, origin, data)
                world.orig_log.append(rec)
                world.step_orig.append(rec)

            def on_probe_message(self, source_address, data, circuit_id):
                # on_data hands payloads that look like packets of this community to on_packet_from_circuit, which
                # dispatches message id 0x63 to this handler (registered below through add_cell_handler)
                if len(data) > 26 and data[23:26] == b"d5:":
                    rec = (world.node_of[id(self)], circuit_id, source_address, data)
                    world.orig_log.append(rec)
                    world.step_orig.append(rec)

        # TunnelExitSocket.enable / create_transports / sendto / queue stay REAL; only the opening of the two UDP
        # transports is replaced by an awaitable the harness completes when it chooses ("gate"), so that the phases
        # enable requested -> IPv4 open -> IPv6 open + queue flushed are separate, interleavable steps.
        self.gates: list[tuple] = []          # (exit socket, "4"|"6", future)
        self.transports: list[FakeTransport] = []

        async def fake_open(proto):
            sock = proto.received_cb.__self__
            fut = world.loop.create_future()
            world.gates.append((sock, "6" if ":" in proto.local_addr[0] else "4", fut))
            await fut
            return FakeTransport(world, sock)

        self._saved_open = es_mod.TunnelProtocol.open
        es_mod.TunnelProtocol.open = fake_open
        self._es_mod = es_mod

        self.nodes = [None]
        self.node_of = {}
        # every node is willing to exit BT and IPv8 traffic (so circuits match TunnelEndpoint's exit_flags filter)
        flags = {PEER_FLAG_RELAY, PEER_FLAG_SPEED_TEST, PEER_FLAG_EXIT_BT, PEER_FLAG_EXIT_IPV8}
        for i in range(1, n + 2):
            s = SettingsCls()
            s.min_circuits = 0
            s.max_circuits = 0
            s.remove_tunnel_delay = delay
            s.peer_flags = set(flags)
            if i in dualstack:
                node = self._dualstack_node(Node, s, i)
            else:
                node = MockIPv8("curve25519", Node, settings=s)
            node.overlay.cancel_all_pending_tasks()
            probe_cls = type("ProbePayload", (), {"msg_id": 0x63})
            import inspect
            if "from_exit" in inspect.signature(TunnelCommunity.add_cell_handler).parameters:
                # a tree that only lets explicitly registered messages come back through an exit node
                node.overlay.add_cell_handler(probe_cls, node.overlay.on_probe_message, from_exit=True)
            else:
                node.overlay.add_cell_handler(probe_cls, node.overlay.on_probe_message)
            def send(ep_self, addr, packet, _w=world):
                p = Pkt(ep_self.wan_address, tuple(addr), bytes(packet))
                _w.flight.append(p)
                _w.step_sends.append(p)

            for ep in (list(node.endpoint.interfaces.values()) if i in dualstack else [node.endpoint]):
                ep.send = types.MethodType(send, ep)
            if gated and i <= n:
                # the documented hook should_join_circuit, overridden by a policy that really suspends: the harness decides
                # when the decision is in (the stock check runs then)
                def make_hook(ov_, idx):
                    stock = ov_.should_join_circuit

                    async def hook(payload, addr):
                        fut = world.loop.create_future()
                        world.join_gates.append([idx, payload.circuit_id, tuple(addr), fut])
                        await fut
                        return await stock(payload, addr)
                    return hook
                node.overlay.should_join_circuit = make_hook(node.overlay, i)
            if i not in dualstack:
                node.wan = tuple(node.endpoint.wan_address)
            self.nodes.append(node)
            self.node_of[id(node.overlay)] = i
        self.addr_idx = {ZERO: 0}
        self.key_idx = {}
        for i, a6 in self.v6_of.items():
            self.addr_idx[tuple(a6)] = i
        for i in range(1, n + 2):
            self.addr_idx[tuple(self.nodes[i].wan)] = i
            self.key_idx[self.nodes[i].my_peer.public_key.key_to_bin()] = i
        for i in range(1, n + 1):
            for j in range(1, n + 1):
                if i != j:
                    a, b = self.nodes[i], self.nodes[j]
                    a.overlay.candidates[b.my_peer] = list(b.overlay.settings.peer_flags)
                    a.network.add_verified_peer(b.my_peer)
                    a.network.discover_services(b.my_peer, [a.overlay.community_id])
        self.prefix = self.nodes[1].overlay.get_prefix()
        IPV8_SHAPED["prefix"] = self.prefix

    def _dualstack_node(self, node_cls, settings, i: int):
        """A node on a real DispatcherEndpoint with an IPv4 and an IPv6 interface (the production layout when IPv6 is
        enabled); the two interfaces are in-memory endpoints."""
        from ipv8.keyvault.crypto import default_eccrypto
        from ipv8.messaging.interfaces.dispatcher import endpoint as dmod
        from ipv8.messaging.interfaces.udp.endpoint import UDPv4Address, UDPv6Address
        from ipv8.peer import Peer
        from ipv8.peerdiscovery.network import Network
        from ipv8.test.mocking.endpoint import MockEndpoint
        a4 = UDPv4Address("10.77.0.%d" % i, 7000 + i)
        a6 = UDPv6Address("fd00::%x" % i, 7000 + i)

        def mk(a):
            ep = MockEndpoint(a, a)
            ep.open()
            return ep
        saved = dict(dmod.INTERFACES)
        dmod.INTERFACES["UDPIPv4"] = lambda: mk(a4)
        dmod.INTERFACES["UDPIPv6"] = lambda: mk(a6)
        try:
            endpoint = dmod.DispatcherEndpoint(["UDPIPv4", "UDPIPv6"])
        finally:
            dmod.INTERFACES.clear()
            dmod.INTERFACES.update(saved)
        my_peer = Peer(default_eccrypto.generate_key("curve25519"), a4)
        fwd = node_cls.settings_class(my_peer=my_peer, endpoint=endpoint, network=Network())
        settings.__dict__.update(fwd.__dict__)
        overlay = node_cls(settings)
        overlay.my_estimated_wan = a4
        overlay.my_estimated_lan = a4
        self.v6_of[i] = tuple(a6)

        class Shim:
            pass
        sh = Shim()
        sh.endpoint, sh.overlay, sh.my_peer, sh.network, sh.wan = endpoint, overlay, my_peer, overlay.network, tuple(a4)

        async def stop():
            await overlay.unload()
        sh.stop = stop
        return sh

    # ---- plumbing --------------------------------------------------------------------------------------
    def ov(self, i):
        return self.nodes[i].overlay

    def aidx(self, addr) -> int:
        addr = tuple(addr)
        if addr not in self.addr_idx:
            self.addr_idx[addr] = 100 + len(self.addr_idx)
        return self.addr_idx[addr]

    def pidx(self, peer) -> int:
        kb = peer.public_key.key_to_bin()
        if kb not in self.key_idx:
            self.key_idx[kb] = 200 + len(self.key_idx)
        return self.key_idx[kb]

    def addr(self, i):
        return tuple(self.nodes[i].wan)

    async def _drain(self):
        for _ in range(400):
            await asyncio.sleep(0)
            if not self.loop._ready:
                return
        raise InfraError("event loop does not quiesce")

    def drain(self):
        self.loop.run_until_complete(self._drain())

    def begin(self):
        self.step_sends, self.step_exit, self.step_orig = [], [], []
        self.loop.advance(0.000001)       # every action happens at its own instant: beat_heart() becomes visible

    def accounting(self, i: int):
        """Traffic counters and heartbeat of the entries that hold keys (circuits, exit sockets).  Relay entries are
        left out: relays book every arriving cell before any check (and a backward relay cannot check anything)."""
        o = self.ov(i)
        d = {}
        for cid, c in o.circuits.items():
            d[("C", cid)] = (c.bytes_up, c.bytes_down, c.last_activity)
        for cid, e in o.exit_sockets.items():
            d[("E", cid)] = (e.bytes_up, e.bytes_down, e.last_activity)
        return d

    def inject(self, i: int, src, data: bytes, iface: str | None = None):
        try:
            ep = self.nodes[i].endpoint
            if i in self.v6_of:      # dual-stack node: the datagram arrives on one of the two interfaces
                ep = ep.interfaces[iface or ("UDPIPv6" if ":" in src[0] else "UDPIPv4")]
            ep.notify_listeners((src, data))
        except Exception:   # e.g. RuntimeError("Decryption failed") escaping process_cell: C03/C04 territory
            self.raised += 1
        self.drain()

    def call(self, fn, *a, **kw):
        async def go():
            r = fn(*a, **kw)
            if asyncio.iscoroutine(r):
                asyncio.ensure_future(r)
        self.loop.run_until_complete(go())
        self.drain()

    def on_exit_send(self, sock, data, dest):
        i = self.node_of[id(sock.overlay)]
        rec = (i, sock.circuit_id, sock.hop.keys.key_forward if sock.hop.keys else b"", tuple(dest), bytes(data))
        self.exit_log.append(rec)
        self.step_exit.append(rec)

    def close(self):
        import vclock

        async def stop():
            for _, _, fut in self.gates:
                if not fut.done():
                    fut.cancel()
            for g_ in self.join_gates:
                if not g_[3].done():
                    g_[3].cancel()
            for node in self.nodes[1:]:
                try:
                    await node.stop()
                except Exception:
                    pass
        try:
            self.loop.run_until_complete(stop())
            self.drain()
        except Exception:
            pass
        self._es_mod.TunnelProtocol.open = self._saved_open
        from ipv8.test.mocking.endpoint import internet
        internet.clear()
        vclock.uninstall()
        self.loop.close()

    # ---- observation -----------------------------------------------------------------------------------
    def snapshot(self, i: int):
        """Tables of node i as plain data; session keys appear as their forward key bytes."""
        o = self.ov(i)
        kb = lambda hop: (hop.keys.key_forward if hop.keys is not None else b"")   # noqa: E731
        circ = []
        for cid, c in o.circuits.items():
            retry = o.request_cache.get("retry", cid)
            circ.append((cid, c.goal_hops, tuple(kb(h) for h in c.hops),
                         self.aidx(c.hop.address) if (c.hops or c.unverified_hop) else 0,
                         self.pidx(c.unverified_hop.peer) if c.unverified_hop else 0,
                         (retry.packet_identifier + 1) if retry else 0,
                         c.relay_early_count, 1 if c.state == "CLOSING" else 0))
        rel = [(cid, r.circuit_id, self.aidx(r.hop.address), self.pidx(r.hop.peer), kb(r.hop), r.direction,
                r.relay_early_count) for cid, r in o.relay_from_to.items()]
        ex = [(cid, self.aidx(e.hop.address), self.pidx(e.hop.peer), kb(e.hop),
               0 if not e.enabled else 1 if e.transport_ipv4 is None else 2 if e.transport_ipv6 is None else 3,
               len(e.queue))
              for cid, e in o.exit_sockets.items()]
        created, creates = [], []
        for ident, cache in o.request_cache._identifiers.items():
            if ident.startswith("created:"):
                created.append(cache.circuit_id)
            elif ident.startswith("create:"):
                creates.append((cache.number + 1, cache.extend_identifier + 1, cache.to_circuit_id, cache.from_circuit_id,
                                self.pidx(cache.peer), self.aidx(cache.peer.address),
                                self.pidx(cache.to_peer), self.aidx(cache.to_peer.address)))
        return {"C": circ, "R": rel, "E": ex, "Q": created, "P": creates}

    def identity(self, i: int):
        """Object-identity view used by the no-change oracle (entries, their hop peers and key objects)."""
        o = self.ov(i)
        d = {}
        for cid, c in o.circuits.items():
            d[("C", cid)] = (id(c), tuple(id(h.keys) for h in c.hops), id(c.unverified_hop), c.state,
                             tuple(c.hop.address) if (c.hops or c.unverified_hop) else None)
        for cid, r in o.relay_from_to.items():
            d[("R", cid)] = (id(r), r.circuit_id, id(r.hop.keys), r.hop.peer.public_key.key_to_bin(),
                             tuple(r.hop.address), r.direction)
        for cid, e in o.exit_sockets.items():
            d[("E", cid)] = (id(e), id(e.hop.keys), e.hop.peer.public_key.key_to_bin(), tuple(e.hop.address))
        for k_, cache in o.request_cache._identifiers.items():
            if k_.startswith("create:"):       # a pending extension (its state is consumed by the matching CREATED only)
                d[("P", cache.number)] = (cache.to_circuit_id, cache.from_circuit_id, id(cache))
            elif k_.startswith("created:"):
                d[("Q", cache.circuit_id)] = (id(cache),)
        for pk, (sock, info_hash) in getattr(o, "intro_point_for", {}).items():
            d[("I", pk)] = (sock.circuit_id, id(sock), info_hash)
        for cookie, sock in getattr(o, "rendezvous_point_for", {}).items():
            d[("V", cookie)] = (sock.circuit_id, id(sock))
        return d

    def header(self, p: Pkt):
        """What an observer of the datagram can compare: (dst, kind, cid, plaintext, relay_early, msg id, ident)."""
        d = p.data
        dst = self.aidx(p.dst)
        if len(d) >= 29 and d[:22] == self.prefix and d[22] == 0:
            cid, pt, re_ = struct.unpack_from("!I??", d, 23)
            mid, ident = 0, 0
            if pt and len(d) >= 32:
                mid = d[29]
                ident = struct.unpack_from("!H", d, 30)[0] + 1
            return (dst, "cell", cid, int(pt), int(re_), mid, ident)
        if len(d) > 23 and d[:22] == self.prefix and d[22] == 8:
            from ipv8.messaging.anonymization.payload import DestroyPayload
            from ipv8.messaging.payload_headers import BinMemberAuthenticationPayload
            ser = self.ov(1).serializer
            auth, off = ser.unpack_serializable(BinMemberAuthenticationPayload, d, offset=23)
            pl, _ = ser.unpack_serializable(DestroyPayload, d, offset=off)
            return (dst, "destroy", pl.circuit_id, 0, 0, self.key_idx.get(auth.public_key_bin, 999), pl.reason)
        return (dst, "other", 0, 0, 0, 0, 0)


# ---- data tags ---------------------------------------------------------------------------------------------------
IPV8_SHAPED = {"prefix": None}


def mk_tag(direction: str, o: int, cid: int, seq: int, ipv8: bool = False) -> bytes:
    body = b"d5:" + f"{direction}:{o}:{cid}:{seq}".encode() + b":" + b"x" * 12 + b"e"
    if ipv8:      # looks like a packet of the tunnel community itself: the exit lets it pass, on_data dispatches it
        return IPV8_SHAPED["prefix"] + b"\x63" + body
    return body


def parse_tag(data: bytes):
    try:
        if data[23:26] == b"d5:":
            data = data[23:]
        parts = data.split(b":")
        return parts[1].decode(), int(parts[2]), int(parts[3]), int(parts[4])
    except Exception:
        return None


def tag_num(direction: str, o: int, cid: int, seq: int) -> int:
    return seq * 2 + (1 if direction == "B" else 0)


# ================================================================================================================
# one history
# ================================================================================================================
class History:
    def __init__(self, ctx: Ctx, sc_seed: int, stop_at: int | None = None, verbose: bool = False,
                 do_sweep: bool = False):
        self.ctx = ctx
        self.do_sweep = do_sweep
        self.sc_seed = sc_seed
        self.rng = _random.Random(sc_seed)
        self.stop_at = stop_at
        self.verbose = verbose
        self.lines: list[str] = []
        self.expect: list[dict] = []      # per line: what the real code did
        self.stepno = 0
        self.circs: dict[tuple[int, int], dict] = {}    # (originator, cid) -> bookkeeping
        self.seq = 0
        self.hist: list[Pkt] = []         # every datagram ever sent (for splicing)
        self.cut_keys: set[bytes] = set()  # keys of entries removed by a destroy the harness signed for a neighbour
        self.force: dict = {}             # exhaustive sweep: fixed kind / target / source / destroy mode
        self.known_ids: dict[int, set] = {}
        self.freed: list[tuple[int, int]] = []      # (node, id) that was in use there and has been removed
        self.ext_req: dict[int, dict] = {}
        self.twice_reported = False
        self.exit_objs: dict[int, dict] = {}
        self.stale: list = []             # exit socket objects that have left their table
        self.may_pop: set = set()         # (node, kind, id(entry)): a removal of this entry was legitimately requested
        self.failed = False

    # ---- helpers ---------------------------------------------------------------------------------------
    def replay(self, extra=None):
        d = {"sc_seed": self.sc_seed, "step": self.stepno, "lines": self.lines[-12:], "sweep": self.do_sweep}
        if getattr(self, "opening", None):
            d["opening"] = self.opening
        if getattr(self, "reuse", None):
            d["reuse"] = self.reuse
        if getattr(self, "expiry", None):
            d["expiry"] = self.expiry
        if getattr(self, "late", None):
            d["late"] = self.late
        if getattr(self, "search", None):
            d["search"] = self.search
        if getattr(self, "intro", None):
            d["intro"] = self.intro
        if getattr(self, "closing", None):
            d["closing"] = self.closing
        if getattr(self, "half", None):
            d["half"] = self.half
        if getattr(self, "epsend", None):
            d["epsend"] = self.epsend
        if getattr(self, "rdv", None):
            d["rdv"] = self.rdv
        if getattr(self, "dual", None):
            d["dual"] = True
        if extra:
            d.update(extra)
        return d

    def fail(self, sig, what, extra=None):
        self.failed = True
        self.ctx.oracle_fail(sig, what, self.replay(extra))
        if self.verbose:
            print("ORACLE-FAIL", sig, what)

    def record(self, line: str, node: int | None, kind: str, nontrivial: bool, casekey):
        """Store the protocol line with what the real code did in this step."""
        w = self.w
        sends = [w.header(p) for p in w.step_sends]
        self.hist.extend(w.step_sends)
        exp = {"sends": sends,
               "tables": w.snapshot(node) if node else None,
               "log": [("X", r[0], r[1], w.aidx(r[3]), r[4]) for r in w.step_exit]
                      + [("O", r[0], r[1], w.aidx(r[2]), r[3]) for r in w.step_orig],
               "step": self.stepno, "kind": kind}
        self.lines.append(line)
        self.expect.append(exp)
        self.ctx.case(casekey, nontrivial)
        self.ctx.count(f"action:{kind}")
        self.check_logs()
        for p_ in w.step_sends:
            m_ = re.search(rb"d5:[FB]:(\d+):(\d+):\d+:x", p_.data)
            if m_ and not self.circs.get((int(m_.group(1)), int(m_.group(2))), {}).get("abused"):
                # O10: every data payload of the harness carries the tag; it must never be readable on a link
                self.fail("PythonCryptoEndpoint.send_cell:payload-on-the-wire-unencrypted",
                          f"a datagram to {w.aidx(p_.dst)} carries a data payload in clear: {w.header(p_)}", {"node": node})
        if node:
            o_ = w.ov(node)
            twice = (set(o_.circuits) & set(o_.relay_from_to)) | (set(o_.circuits) & set(o_.exit_sockets)) \
                | (set(o_.relay_from_to) & set(o_.exit_sockets))
            if twice and not self.twice_reported:
                self.twice_reported = True
                self.fail("TunnelCommunity:circuit-id-in-use-twice",
                          f"node {node} uses circuit id(s) {sorted(twice)} in two of circuits / relay_from_to / exit_sockets",
                          {"node": node})
        if node:
            self.track_ids_and_extensions(node)
            for tr in w.transports:
                if not tr.closed and tr.sock.overlay.exit_sockets.get(tr.sock.circuit_id) is not tr.sock:
                    tr.closed = True
                    self.fail("TunnelCommunity.remove_exit_socket:transport-left-open",
                              f"exit socket {tr.sock.circuit_id} of node {w.node_of[id(tr.sock.overlay)]} left the table but "
                              f"its UDP transport is still open: it keeps receiving and would tunnel replies labelled "
                              f"{tr.sock.circuit_id} to its old hop", {"node": node})
        self.stepno += 1
        if self.verbose:
            print(f"[{self.stepno - 1}] {line}\n      sends={sends} log={exp['log']}")

    def track_ids_and_extensions(self, node: int):
        """(a) remember ids that were in use at a node and are gone (id re-use over time is generated from them);
        (b) O8: an extension (CreateRequestCache) may only complete on the exit entry that asked for it: the relay pair
        that appears when the cache is consumed must carry the session keys that entry had when the EXTEND came in."""
        w = self.w
        o = w.ov(node)
        for e_ in list(self.exit_objs.get(node, {}).values()):
            if o.exit_sockets.get(e_.circuit_id) is not e_ and not any(e_ is s_ for s_, _ in self.stale):
                self.stale.append((e_, node))
        self.exit_objs[node] = {id(e_): e_ for e_ in o.exit_sockets.values()} | \
            {k_: v_ for k_, v_ in self.exit_objs.get(node, {}).items()}
        now = set(o.circuits) | set(o.relay_from_to) | set(o.exit_sockets)
        was = self.known_ids.get(node, set())
        for cid in was - now:
            self.freed.append((node, cid))
        self.known_ids[node] = now
        pending = {}
        for k, cache in o.request_cache._identifiers.items():
            if k.startswith("create:"):
                pending[cache.number] = cache
        mine = self.ext_req.setdefault(node, {})
        for num, cache in pending.items():
            if num not in mine:
                ex = o.exit_sockets.get(cache.from_circuit_id)
                mine[num] = (cache.from_circuit_id, cache.to_circuit_id, ex.hop.keys if ex is not None else None,
                             ex.hop.peer.public_key.key_to_bin() if ex is not None else None)
        for num in [n_ for n_ in mine if n_ not in pending]:
            frm, to, keys, peer_kb = mine.pop(num)
            r = o.relay_from_to.get(frm)
            if r is not None and r.circuit_id == to and keys is not None:
                back = o.relay_from_to.get(to)
                if r.hop.keys is not keys or (back is not None and back.hop.peer.public_key.key_to_bin() != peer_kb):
                    self.fail("TunnelCommunity.on_created:extension-completed-on-another-circuits-exit-entry",
                              f"node {node}: the extension requested on exit entry {frm} (for peer "
                              f"{w.key_idx.get(peer_kb)}) was completed on a different exit entry under the same id: the "
                              f"new relay pair {frm}<->{to} uses the session keys of the later entry and routes back to peer "
                              f"{w.key_idx.get(back.hop.peer.public_key.key_to_bin()) if back else '?'}", {"node": node})
                else:
                    self.ctx.count("extension:completed-on-requesting-entry")

    def role(self, node: int, cid: int) -> str:
        o = self.w.ov(node)
        r = ""
        if cid in o.circuits:
            r += "C" if o.circuits[cid].hops else "C0"      # C0: no verified hop yet, hence no keys at all
        if cid in o.relay_from_to:
            r += "R" + str(o.relay_from_to[cid].direction)
        if cid in o.exit_sockets:
            r += "E"
        if o.request_cache.has("created", cid):
            r += "q"
        return r or "-"

    # ---- O1: delivery logs -------------------------------------------------------------------------------
    def check_logs(self):
        w = self.w
        for (i, ecid, kb, dest, data) in w.step_exit:
            t = parse_tag(data)
            if t is None:
                raise InfraError(f"node {i} exit {ecid} emitted data the harness never sent: {data[:40]!r}")
            d, o, cid, seq = t
            bk = self.circs.get((o, cid))
            ok = d == "F" and bk is not None and bk.get("exit_key") == kb and bk.get("exit_node") == i
            if not ok:
                self.fail("TunnelCommunity.exit_data:wrong-exit",
                          f"data sent into circuit {cid} of node {o} left through exit socket {ecid} of node {i}, which "
                          f"is not the socket keyed for that circuit (its exit is on node {bk and bk.get('exit_node')})",
                          {"tag": [d, o, cid, seq]})
            else:
                self.ctx.count("delivered:exit")
        for (i, cid_label, origin, data) in w.step_orig:
            t = parse_tag(data)
            if t is None:
                raise InfraError(f"node {i} got data the harness never sent on circuit {cid_label}")
            d, o, cid, seq = t
            if d == "B" and o == 0 and cid == 0:
                # the harness' own unencrypted DATA cell, injected at a backward relay, was accepted by an originator
                # whose circuit has exactly as many verified hops as relays added layers (circuit still extending)
                c_ = w.ov(i).circuits.get(cid_label)
                if self.circs.get((i, cid_label), {}).get("abused"):
                    self.ctx.count("delivered:on-a-circuit-its-owner-re-plumbed")
                    continue
                if c_ is None or len(c_.hops) >= c_.goal_hops or not c_.hops:
                    # NOT the known finding (which needs >= 1 verified hop that already relays): the circuit is complete -
                    # every layer of a genuine reply is checked - or has no verified hop at all, i.e. no keys
                    self.fail("TunnelCommunity.on_data:third-party-data-delivered",
                              f"an unencrypted DATA cell of a third party was delivered at node {i} as data of circuit "
                              f"{cid_label} ({'gone' if c_ is None else c_.state + ', ' + str(len(c_.hops)) + ' of ' + str(c_.goal_hops) + ' hops verified'})",
                              {"tag": [d, o, cid, seq]})
                    continue
                was_failed = self.failed
                self.fail("TunnelCommunity.on_data:third-party-data-delivered-while-extending",
                          f"an unencrypted DATA cell injected by a third party at a backward relay was delivered at node {i} "
                          f"as data of circuit {cid_label} ({len(c_.hops) if c_ else '?'} verified hops of "
                          f"{c_.goal_hops if c_ else '?'})", {"tag": [d, o, cid, seq]})
                self.failed = was_failed  # a recorded finding of its own; the history continues
                continue
            if not (d == "B" and o == i and cid == cid_label):
                self.fail("TunnelCommunity.on_data:wrong-originator",
                          f"reply for circuit {cid} of node {o} ({'forward data' if d == 'F' else 'reply'}) was delivered at "
                          f"node {i} labelled {cid_label}", {"tag": [d, o, cid, seq]})
            else:
                self.ctx.count("delivered:originator")

    # ---- actions ---------------------------------------------------------------------------------------
    def refresh_bk(self):
        """Update bookkeeping of circuits from the originators' own objects (exit key and node of READY circuits)."""
        w = self.w
        for (o, cid), bk in self.circs.items():
            c = w.ov(o).circuits.get(cid)
            bk["alive"] = c is not None
            if c is not None and c.state == "READY" and c.hops and c.hops[-1].keys is not None:
                bk["ready"] = True
                bk["exit_key"] = c.hops[-1].keys.key_forward
                bk["exit_node"] = w.key_idx.get(c.hops[-1].peer.public_key.key_to_bin(), 0)
            else:
                bk["ready"] = False

    def act_open(self, fixed=None):
        w, rng = self.w, self.rng
        o = rng.randint(1, w.n)
        goal = rng.choice([1, 2, 2, 3, 3])
        ex = rng.choice([j for j in range(1, w.n + 1) if j != o])
        used = [bk["want_exit"] for (o2, _), bk in self.circs.items() if bk["want_exit"] != o]
        if used and rng.random() < 0.6:
            ex = rng.choice(used)         # several circuits end at the same exit node
        if fixed is not None:
            o, goal, ex = fixed
        w.begin()
        c = w.ov(o).create_circuit(goal, required_exit=w.nodes[ex].my_peer)
        w.drain()
        if c is None:
            return None
        retry = w.ov(o).request_cache.get("retry", c.circuit_id)
        self.circs[(o, c.circuit_id)] = {"goal": goal, "alive": True, "ready": False, "destroyed": False, "want_exit": ex}
        hop = c.unverified_hop
        self.record(f"mk {o} {c.circuit_id} {goal} {w.pidx(hop.peer)} {w.aidx(hop.address)} "
                    f"{retry.packet_identifier + 1 if retry else 0} {ex}", o, "open", True, ("open", goal))
        self.ctx.count(f"circuit_hops:{goal}")
        self.ctx.count("exit_node_shared" if list(bk["want_exit"] for bk in self.circs.values()).count(ex) > 1 else "exit_node_single")
        return (o, c.circuit_id)

    def choices_for(self, node: int, cid_hint: int | None):
        """Values the code drew at random in this step, read back from what it sent / stored."""
        w = self.w
        toks = []
        for p in w.step_sends:
            h = w.header(p)
            if h[1] == "cell" and h[3] == 1 and h[5] == 2:     # a plaintext CREATE left this node: on_extend accepted
                dstpeer = 0
                cache = w.ov(node).request_cache.get("create", h[6] - 1)
                if cache is not None:
                    dstpeer = w.pidx(cache.to_peer)
                toks.append(f"new={h[2]},{h[6]},{h[0]},{dstpeer}")
                break
        if cid_hint is not None:
            c = w.ov(node).circuits.get(cid_hint)
            if c is not None and c.unverified_hop is not None:
                retry = w.ov(node).request_cache.get("retry", cid_hint)
                toks.append(f"ext={w.pidx(c.unverified_hop.peer)},{retry.packet_identifier + 1 if retry else 0}")
        return " ".join(toks)

    def act_deliver(self, idx: int | None = None):
        w = self.w
        if not w.flight:
            return
        if idx is None:
            # mostly oldest-first with frequent reordering
            idx = 0 if self.rng.random() < 0.5 else self.rng.randrange(len(w.flight))
        p = w.flight.pop(idx)
        node = w.addr_idx.get(p.dst)
        w.begin()
        if node is None or not (1 <= node <= w.n):
            self.record(f"dlv {idx}", None, "deliver-outside", False, None)
            return
        h = w.header(p)
        role = self.role(node, h[2])
        ex = w.ov(node).exit_sockets.get(h[2]) if h[1] == "cell" else None
        if ex is not None:
            ph = lambda e: 0 if not e.enabled else 1 if e.transport_ipv4 is None else 2 if e.transport_ipv6 is None else 3  # noqa: E731
            others = sum(1 for c2, e2 in w.ov(node).exit_sockets.items() if c2 != h[2] and ph(e2) in (1, 2))
            self.ctx.count(f"cell_at_exit:phase={ph(ex)}:other_sockets_opening={min(others, 2)}")
        if h[1] == "destroy":
            adj_ = self.adjacent_peer(node, h[2])
            if adj_ is not None and w.key_idx.get(adj_) == h[5]:
                self.allow_pop(node, h[2])
        routes = {c: r for c, r in w.ov(node).relay_from_to.items()}
        nested = getattr(p, "nested", False)
        ids_before = w.identity(node)
        allowed = {h[2]}
        if h[2] in routes:
            allowed.add(routes[h[2]].circuit_id)
        for k_, c_ in w.ov(node).request_cache._identifiers.items():
            if k_.startswith("create:") and c_.to_circuit_id == h[2]:
                allowed.add(c_.from_circuit_id)
        w.inject(node, p.src, p.data)
        # O11 (frame): a datagram naming circuit id X touches only X's entry, its relay pair and - for a CREATED - the exit
        # entry whose extension it answers; every entry, hop address and service registration of another circuit stays
        ids_after = w.identity(node)
        r_after = w.ov(node).relay_from_to.get(h[2])
        if r_after is not None:
            allowed.add(r_after.circuit_id)
        for k_, v_ in ids_before.items():
            if k_[0] not in "CREIV":
                continue
            owner = v_[0] if k_[0] in "IV" else k_[1]
            if owner not in allowed and ids_after.get(k_) != v_:
                self.fail("TunnelCommunity:cell-of-one-circuit-changed-another-circuits-entry",
                          f"node {node}: a {h[1]} naming circuit id {h[2]} (role {role}) changed the entry {k_[0]} "
                          f"{k_[1] if k_[0] in 'CRE' else k_[1].hex()[:12]} of circuit {owner}: {v_[1:]} -> "
                          f"{(ids_after.get(k_) or ('gone',))[1:]}", {"node": node})
                break
        if nested:
            for p_ in w.step_sends:
                p_.nested = True
            if "C" in role and (ids_after != ids_before or w.step_orig or w.step_exit or
                                (w.step_sends and "R" not in role)):
                self.fail("TunnelCommunity.on_data:nested-message-dispatched",
                          f"a datagram from outside that imitates a tunnel message (sender-chosen circuit id and source) came "
                          f"back on circuit {h[2]} and node {node} acted on it: sent {[w.header(q) for q in w.step_sends]}, "
                          f"delivered {len(w.step_orig) + len(w.step_exit)}, tables changed: {w.identity(node) != ids_before}",
                          {"node": node})
        for c, r in w.ov(node).relay_from_to.items():
            if c in routes and routes[c] is not r and (routes[c].circuit_id, tuple(routes[c].hop.address)) != \
                    (r.circuit_id, tuple(r.hop.address)):
                # O9: an established relay route is never re-assigned (it may only be removed)
                self.fail("TunnelCommunity.on_created:established-relay-route-overwritten",
                          f"node {node}: relay entry {c} (to {w.aidx(routes[c].hop.address)} as {routes[c].circuit_id}) was "
                          f"replaced by a route to {w.aidx(r.hop.address)} as {r.circuit_id} while it was in use",
                          {"node": node})
        self.refresh_bk()
        ch = self.choices_for(node, h[2] if h[1] == "cell" else None)
        self.record(f"dlv {idx} {ch}".rstrip(), node, "deliver-" + h[1], True,
                    ("dlv", h[1], role, len(w.step_sends), h[5]))
        self.ctx.count(f"deliver_role:{role}")

    def act_redirect(self):
        """A genuine encrypted cell is taken off the wire and delivered from a different source address
        (on-path attacker re-sending it from elsewhere): relays do not care, but an originator must only accept data
        from its first hop and a not-yet-enabled exit socket only from its hop's address."""
        w, rng = self.w, self.rng
        cands = [k for k, p in enumerate(w.flight)
                 if len(p.data) > 31 and p.data[22] == 0 and not p.data[27] and 1 <= w.addr_idx.get(p.dst, 0) <= w.n]
        if not cands:
            return
        idx = rng.choice(cands)
        p = w.flight.pop(idx)
        node = w.addr_idx[p.dst]
        src = self.pick_src(node)
        if tuple(src) == tuple(p.src):
            w.flight.insert(idx, p)
            return
        h = w.header(p)
        role = self.role(node, h[2])
        o = w.ov(node)
        circ = o.circuits.get(h[2])
        hop_addr = tuple(circ.hop.address) if circ is not None and (circ.hops or circ.unverified_hop) else None
        ex = o.exit_sockets.get(h[2])
        ex_state = (ex.enabled, ex.hop.address[0]) if ex is not None else None
        w.begin()
        w.inject(node, src, p.data)
        self.refresh_bk()
        if w.step_orig and hop_addr is not None and tuple(src) != hop_addr:
            self.fail("TunnelCommunity.on_data:data-accepted-from-non-neighbour",
                      f"node {node} delivered data on its circuit {h[2]} although the cell came from {src}, not from the "
                      f"circuit's first hop {hop_addr}", {"node": node})
        ex_after = o.exit_sockets.get(h[2])
        if ex_state is not None and not ex_state[0] and src[0] != ex_state[1] and ex_after is ex and ex.enabled:
            self.fail("TunnelCommunity.exit_data:enabled-from-foreign-address",
                      f"node {node} enabled exit socket {h[2]} for a cell from {src} (hop is at {ex_state[1]})",
                      {"node": node})
        ch = self.choices_for(node, h[2])
        self.record(f"dlvs {idx} {w.aidx(src)} {ch}".rstrip(), node, "redirect", True,
                    ("dlvs", role, len(w.step_sends), bool(w.step_orig), bool(w.step_exit)))
        self.ctx.count(f"redirect_role:{role}")

    def act_join_gate(self, k: int | None = None):
        """The suspended should_join_circuit hook of one waiting CREATE returns: join_circuit runs now, WITHOUT on_create's
        guards being evaluated again.  Whatever happened meanwhile, no existing entry may be replaced."""
        w = self.w
        live = [g for g in w.join_gates if not g[3].done()]
        if not live:
            return
        g = live[self.rng.randrange(len(live)) if k is None else k]
        node, cid = g[0], g[1]
        mine = [x for x in w.join_gates if x[0] == node]
        idx = [x for x in mine if not x[3].done()].index(g)
        before = w.identity(node)
        role = self.role(node, cid)
        w.begin()
        g[3].set_result(None)
        w.drain()
        after = w.identity(node)
        for k_, v_ in before.items():
            if k_[0] in "CREIV" and after.get(k_) != v_:
                self.fail("TunnelCommunity.join_circuit:existing-entry-replaced-by-a-concurrent-create",
                          f"node {node}: a CREATE for id {cid} from {g[2]} passed on_create's guards while another one was still "
                          f"waiting in should_join_circuit; when its turn came the entry {k_[0]} {k_[1]} "
                          f"{'was replaced' if k_ in after else 'disappeared'}", {"node": node})
                break
        self.refresh_bk()
        self.record(f"jg {node} {idx}", node, "join-hook-returns", True, ("jg", role, len(w.step_sends)))
        self.ctx.count(f"join_gate:id_role_at_release={role}")

    def live_gates(self):
        w = self.w
        w.gates = [g for g in w.gates if not g[2].done()]
        return w.gates

    def act_gate(self, k: int | None = None):
        """One await of some exit socket's create_transports completes (IPv4 transport, then IPv6 transport + flush)."""
        w = self.w
        gates = self.live_gates()
        if not gates:
            return
        sock, fam, fut = gates.pop(self.rng.randrange(len(gates)) if k is None else k)
        node = w.node_of[id(sock.overlay)]
        before = len(sock.queue)
        parked_elsewhere = sum(1 for c2, e2 in sock.overlay.exit_sockets.items() if e2 is not sock and len(e2.queue))
        self.ctx.count(f"gate_while_other_sockets_of_node_hold_packets:{min(parked_elsewhere, 2)}")
        w.begin()
        fut.set_result(None)
        w.drain()
        self.record(f"og {node} {sock.circuit_id}", node, "open-transport-" + fam, True,
                    ("og", fam, min(before, 3), len(w.step_exit)))
        self.ctx.count(f"gate:{fam}:queued={min(before, 4)}:flushed={min(len(w.step_exit), 4)}")

    def ready_circuits(self):
        self.refresh_bk()
        return [(k, bk) for k, bk in self.circs.items() if bk.get("alive") and bk.get("ready") and not bk.get("abused")]

    def act_send_data(self, which=None):
        rc = self.ready_circuits()
        if not rc:
            return None
        (o, cid), bk = which or self.rng.choice(rc)
        w = self.w
        c = w.ov(o).circuits[cid]
        self.seq += 1
        seq = self.seq
        dest = ("10.0.0.%d" % (1 + seq % 200), 2000 + seq % 1000)
        w.begin()
        shaped = self.rng.random() < 0.3
        self.ctx.count("payload:ipv8-shaped" if shaped else "payload:bt-shaped")
        w.ov(o).send_data(c.hop.address, cid, dest, ZERO, mk_tag("F", o, cid, seq, shaped))
        w.drain()
        self.record(f"sd {o} {cid} {w.aidx(dest)} {tag_num('F', o, cid, seq)}", o, "send-data", True,
                    ("sd", bk["goal"]))
        return seq

    def exit_entry_of(self, key):
        """(node, exit cid) of the exit socket keyed with a circuit's last-hop key, if any."""
        o, cid = key
        bk = self.circs[key]
        w = self.w
        for i in range(1, w.n + 1):
            for ecid, e in w.ov(i).exit_sockets.items():
                if e.hop.keys is not None and e.hop.keys.key_forward == bk.get("exit_key"):
                    return i, ecid
        return None

    def act_reply(self, which=None):
        w = self.w
        # any enabled exit socket may receive a datagram from outside
        cands = []
        for i in range(1, w.n + 1):
            for ecid, e in w.ov(i).exit_sockets.items():
                if e.enabled:
                    cands.append((i, ecid))
        if which is not None:
            cands = [which] if which in cands else []
        if not cands:
            return None
        i, ecid = self.rng.choice(cands)
        e = w.ov(i).exit_sockets[ecid]
        kb = e.hop.keys.key_forward
        owner = next(((k, bk) for k, bk in self.circs.items() if bk.get("exit_key") == kb), None)
        (o, cid) = owner[0] if owner else (0, 0)
        self.seq += 1
        seq = self.seq
        src = ("10.1.0.%d" % (1 + seq % 200), 3000 + seq % 1000)
        w.begin()
        shaped = self.rng.random() < 0.3
        self.ctx.count("payload:ipv8-shaped" if shaped else "payload:bt-shaped")
        e.datagram_received_ipv4(mk_tag("B", o, cid, seq, shaped), src)
        w.drain()
        self.record(f"rp {i} {ecid} {w.aidx(src)} {tag_num('B', o, cid, seq)}", i, "outside-reply", True, ("rp",))
        return seq

    def act_reply_stale(self):
        """A datagram from outside reaches an exit socket OBJECT that has already left the table (its transport may
        still deliver something that was in flight): tunnel_data looks the id up again."""
        w = self.w
        # only through a transport that is still open: a closed UDP transport delivers nothing any more
        live = [(s_, i) for (s_, i) in self.stale
                if any(tr.sock is s_ and not tr.closed for tr in w.transports)]
        if not live:
            return
        sock, i = self.rng.choice(live)
        self.seq += 1
        src = ("10.2.0.%d" % (1 + self.seq % 200), 4000 + self.seq % 1000)
        w.begin()
        try:
            sock.datagram_received_ipv4(mk_tag("B", 0, 1, self.seq), src)
        except Exception:
            w.raised += 1
        w.drain()
        self.record(f"rps {i} {sock.circuit_id} {w.aidx(sock.hop.address)} {w.aidx(src)} {tag_num('B', 0, 1, self.seq)}", i,
                    "outside-reply-stale-socket", True, ("rps", len(w.step_sends)))

    def act_reply_nested(self):
        """A datagram from outside that looks like a message of the tunnel community itself (prefix + DATA / CREATE /
        EXTEND / PING with sender-chosen circuit id and addresses) arrives at an enabled exit socket."""
        from ipv8.messaging.anonymization.payload import CreatePayload, DataPayload, ExtendPayload, PingPayload
        w, rng = self.w, self.rng
        cands = [(i, ecid) for i in range(1, w.n + 1) for ecid, e in w.ov(i).exit_sockets.items() if e.enabled]
        if not cands:
            return
        i, ecid = rng.choice(cands)
        e = w.ov(i).exit_sockets[ecid]
        # the message will be handled (if at all) by the originator of the circuit this exit socket serves: name ids of THAT node
        kb = e.hop.keys.key_forward if e.hop.keys is not None else None
        owner = next((k for k, bk in self.circs.items() if bk.get("exit_key") == kb), None)
        ids = []
        if owner is not None:
            oo = w.ov(owner[0])
            ids = [c for c, x in oo.exit_sockets.items() if x.enabled] or \
                (list(oo.exit_sockets) + list(oo.relay_from_to) + list(oo.circuits))
        victim = rng.choice(ids) if ids and rng.random() < 0.8 else rng.getrandbits(32)
        att = w.n + 1
        pk = w.nodes[att].my_peer.public_key.key_to_bin()
        pl = rng.choice([DataPayload(victim, ("10.6.6.6", 666), ZERO, mk_tag("F", 0, 2, 0)),
                         PingPayload(victim, 7), CreatePayload(rng.getrandbits(32), 7, pk, w.ov(att).crypto.generate_diffie_secret()[1]),
                         ExtendPayload(victim, 7, pk, b"\x01" * 32, w.addr(att))])
        data = w.prefix + bytes([pl.msg_id]) + w.ov(att).serializer.pack_serializable(pl)      # incl. the circuit id field
        w.begin()
        e.datagram_received_ipv4(data, ("10.3.0.1", 5000))
        w.drain()
        for p_ in w.step_sends:
            p_.nested = True
        self.record(f"rpn {i} {ecid} {pl.msg_id}", i, "outside-reply-nested-message", True, ("rpn", pl.msg_id))
        self.ctx.count(f"nested:{pl.msg_id}")

    def act_send_unfinished(self):
        """send_data on an own circuit that has no verified hop yet, i.e. no keys at all: nothing may leave.
        (With >= 1 verified hop an EXTENDING circuit is not offered to applications - find_circuits / TunnelEndpoint use READY
        circuits only; data sent on it anyway would be peeled by the last verified hop, which may already relay.)"""
        w = self.w
        cands = [(o, cid) for o in range(1, w.n + 1) for cid, c in w.ov(o).circuits.items()
                 if c.state == "EXTENDING" and not c.hops and c.unverified_hop]
        if not cands:
            return
        o, cid = self.rng.choice(cands)
        c = w.ov(o).circuits[cid]
        self.seq += 1
        dest = ("10.0.1.%d" % (1 + self.seq % 200), 2500)
        w.begin()
        w.ov(o).send_data(c.hop.address, cid, dest, ZERO, mk_tag("F", o, cid, self.seq))
        w.drain()
        self.record(f"sd {o} {cid} {w.aidx(dest)} {tag_num('F', o, cid, self.seq)}", o, "send-data-unfinished-circuit", True,
                    ("sdu", len(c.hops), len(w.step_sends)))

    def act_adversarial_extend(self):
        """The owner of a circuit is not bound to send_extend: it sends an EXTEND of its own making over its circuit,
        naming the public key of ANY node together with an address of its choice (as an originator does for a required
        exit), or with no address."""
        from ipv8.messaging.anonymization.payload import ExtendPayload
        w, rng = self.w, self.rng
        cands = [(o, cid) for o in range(1, w.n + 1) for cid, c in w.ov(o).circuits.items()
                 if c.hops and c.state != "CLOSING"]
        if not cands:
            return
        o, cid = rng.choice(cands)
        c = w.ov(o).circuits[cid]
        target = rng.randint(1, w.n)
        addr_kind = rng.choice(["null", "true", "outsider", "other-node", "random"])
        addr = {"null": ZERO, "true": w.addr(target), "outsider": w.addr(w.n + 1),
                "other-node": w.addr(rng.randint(1, w.n)),
                "random": ("9.8.%d.%d" % (rng.randrange(256), rng.randrange(256)), 1 + rng.randrange(65000))}[addr_kind]
        ident = rng.getrandbits(16)
        _, dh = w.ov(o).crypto.generate_diffie_secret()
        w.begin()
        w.ov(o).send_cell(c.hop.address, ExtendPayload(cid, ident, w.nodes[target].my_peer.public_key.key_to_bin(), dh, addr))
        w.drain()
        if (o, cid) in self.circs:
            # the owner re-plumbs its own circuit behind its own back: whatever happens to ITS traffic now is its own doing
            self.circs[(o, cid)]["abused"] = True
        self.record(f"sx {o} {cid} {ident + 1} {target}", o, "adversarial-extend", True, ("sx", addr_kind, len(c.hops)))
        self.ctx.count(f"adversarial_extend:addr={addr_kind}")

    def act_ping(self):
        w = self.w
        o = self.rng.randint(1, w.n)
        if not w.ov(o).circuits:
            return
        w.begin()
        w.ov(o).do_ping()
        w.drain()
        self.record(f"png {o}", o, "ping", True, ("png", len(w.step_sends)))

    def act_legit_destroy(self):
        w, rng = self.w, self.rng
        kind = rng.choice(["C", "E", "R"])
        nodes = list(range(1, w.n + 1))
        rng.shuffle(nodes)
        for i in nodes:
            o = w.ov(i)
            table = {"C": o.circuits, "E": o.exit_sockets, "R": o.relay_from_to}[kind]
            if table:
                cid = rng.choice(list(table.keys()))
                self.allow_pop(i, cid)
                w.begin()
                if kind == "C":
                    if (i, cid) in self.circs:
                        self.circs[(i, cid)]["destroyed"] = True
                    w.call(o.remove_circuit, cid, "harness", destroy=1)
                elif kind == "E":
                    if table[cid].hop.keys is not None:     # a CREATED may still be in flight: that circuit is dead
                        self.cut_keys.add(table[cid].hop.keys.key_forward)
                    w.call(o.remove_exit_socket, cid, "harness", destroy=1)
                elif rng.random() < 0.4:
                    self.act_remove_half(i, cid, rng.random() < 0.5)
                    return
                else:
                    if table[cid].hop.keys is not None:
                        self.cut_keys.add(table[cid].hop.keys.key_forward)
                    other = o.relay_from_to[cid].circuit_id      # both directions, as the unit test does
                    w.call(o.remove_relay, cid, "harness", destroy=1)
                    w.call(o.remove_relay, other, "harness", destroy=1)
                self.refresh_bk()
                self.record(f"rm{kind} {i} {cid}", i, "legit-remove-" + kind, True, ("rm", kind))
                return

    def act_remove_half(self, i: int, cid: int, destroy: bool):
        """do_remove's sweep drops the two directions of a relay route independently (idle for max_time_inactive ->
        remove_relay(id, "no activity"); over max_traffic -> destroy=True): one direction goes, the other stays behind."""
        w = self.w
        o = w.ov(i)
        r = o.relay_from_to.get(cid)
        if r is None:
            return
        for c in (cid, r.circuit_id):                       # that circuit is dead in one direction
            e = o.relay_from_to.get(c)
            if e is not None and e.hop.keys is not None:
                self.cut_keys.add(e.hop.keys.key_forward)
        self.may_pop.add((i, "R", id(r)))
        w.begin()
        w.call(o.remove_relay, cid, "harness: one direction (do_remove)", destroy=1 if destroy else False)
        self.refresh_bk()
        self.ctx.count(f"half_closed_relay:destroy={int(destroy)}")
        self.record(f"rmH {i} {cid} {int(destroy)}", i, "legit-remove-one-relay-direction", True, ("rmH", int(destroy)))

    def act_endpoint_send(self, o: int | None = None):
        """An anonymized overlay at node o sends a packet through its TunnelEndpoint (the entry point applications use):
        it may enter only a circuit of the configured length that is READY - the exit of a circuit that is still being
        extended does not exist yet, its last built hop (which still holds an exit socket for the id) would let it out."""
        from ipv8.messaging.anonymization.endpoint import TunnelEndpoint
        from ipv8.messaging.anonymization.tunnel import PEER_FLAG_EXIT_IPV8
        w, rng = self.w, self.rng
        cands = []
        for i in ([o] if o is not None else range(1, w.n + 1)):
            for hops in (1, 2, 3):
                cs = w.ov(i).find_circuits(exit_flags=[PEER_FLAG_EXIT_IPV8], hops=hops, state=None)
                if cs:                                   # otherwise the endpoint would start a circuit of its own
                    cands.append((i, hops, cs))
        if not cands:
            return
        unfinished = [x for x in cands if any(c.state == "EXTENDING" for c in x[2])]
        o, hops, cs = rng.choice(unfinished if unfinished and rng.random() < 0.7 else cands)
        exp = next((c for c in cs if c.state == "READY"), None)
        ready = {k for k, _ in self.ready_circuits()}
        if exp is not None and (o, exp.circuit_id) not in ready:
            return                                       # re-plumbed by its owner / already cut: not a well-formed circuit
        self.seq += 1
        named = exp if exp is not None else cs[0]
        dest = ("10.0.2.%d" % (1 + self.seq % 200), 2600 + self.seq % 100)
        packet = mk_tag("F", o, named.circuit_id, self.seq)
        te = TunnelEndpoint(w.nodes[o].endpoint)
        te.set_tunnel_community(w.ov(o), hops=hops)
        te.set_anonymity(packet[:22], True)
        w.begin()
        te.send(dest, packet)
        sent = [w.header(p) for p in w.step_sends]
        w.drain()
        states = sorted(c.state for c in cs)
        self.ctx.count("endpoint_send:" + ("ready" if exp is not None else "no-ready-circuit:" + "+".join(sorted(set(states)))))
        if exp is None and sent:
            self.fail("TunnelEndpoint.send:data-entered-circuit-that-is-not-ready",
                      f"node {o}: TunnelEndpoint(hops={hops}).send put an anonymized packet into circuit {sent[0][2]} although "
                      f"no circuit of that length is READY (states {states}): the last hop built so far lets it out",
                      {"node": o})
        elif exp is not None and (len(sent) != 1 or sent[0][2] != exp.circuit_id):
            self.fail("TunnelEndpoint.send:not-the-first-ready-circuit",
                      f"node {o}: TunnelEndpoint(hops={hops}).send used {[x[2] for x in sent]} where the first READY circuit "
                      f"{exp.circuit_id} was expected", {"node": o})
        self.record(f"ts {o} {hops} {w.aidx(dest)} {tag_num('F', o, named.circuit_id, self.seq)}", o, "endpoint-send", True,
                    ("ts", hops, exp is not None))

    def run_half_relay(self, side: int, destroy: bool, delay: float):
        """A two hop circuit whose relay lost one direction of its route (do_remove); then every kind of destroy naming the
        remaining direction's id arrives - nobody is adjacent to it any more - and data is still sent both ways."""
        _random.seed(self.sc_seed ^ 0x5DEECE66D)
        self.w = World(4, self.rng, delay)
        w = self.w
        try:
            self.lines.append("reset 4" + (" defer" if delay else ""))
            self.expect.append({"sends": [], "tables": None, "log": [], "step": -1, "kind": "reset"})
            key = self.act_open((1, 2, 3))
            if key is None:
                return
            self.flush()
            self.act_send_data()
            self.flush()
            rel = next((i for i in range(1, w.n + 1) if w.ov(i).relay_from_to), None)
            if rel is None:
                return
            ids = sorted(w.ov(rel).relay_from_to, key=lambda c: w.ov(rel).relay_from_to[c].direction)
            cid, rest = ids[side], ids[1 - side]
            self.act_remove_half(rel, cid, destroy)
            if delay:
                self.act_advance(6)
            self.ctx.count("half_closed_relay:present" if (rest in w.ov(rel).relay_from_to
                                                           and cid not in w.ov(rel).relay_from_to) else "half_closed_relay:absent")
            for mode in ("outsider", "other-node", "wrong-side", "adjacent-badsig", "adjacent"):
                for target in (rest, cid):
                    if self.failed:
                        break
                    self.force = {"kind": "destroy", "target": (rel, target), "src": w.addr(w.n + 1), "mode": mode}
                    self.act_forge()
            self.force = {}
            if not self.failed:
                self.flush()
                self.act_send_data()
                self.flush()
                self.act_reply()
                self.flush()
                self.act_advance(6)
                self.final_probe()
            self.ctx.count(f"half_closed_relay:histories:delay={delay}")
        finally:
            w.close()

    def run_endpoint_send(self, hops: int, built: int):
        """An anonymized overlay sends through the TunnelEndpoint while its only circuit of the wanted length has `built`
        of `hops` hops, and again when it is complete."""
        _random.seed(self.sc_seed ^ 0x5DEECE66D)
        self.w = World(5, self.rng, 0)
        w = self.w
        try:
            self.lines.append("reset 5")
            self.expect.append({"sends": [], "tables": None, "log": [], "step": -1, "kind": "reset"})
            key = self.act_open((1, hops, 3))
            if key is None:
                return
            c = w.ov(1).circuits[key[1]]
            n = 0
            while w.flight and len(c.hops) < built and n < 200 and not self.failed:
                self.act_deliver(0)
                n += 1
            self.ctx.count(f"endpoint_send:scripted:built={len(c.hops)}/{hops}")
            self.act_endpoint_send(1)
            self.flush()
            if not self.failed:
                self.act_endpoint_send(1)
                self.flush()
                self.final_probe()
        finally:
            w.close()

    def timers_state(self, i: int):
        o = self.w.ov(i)
        created, creates, retry = set(), set(), {}
        for k, cache in o.request_cache._identifiers.items():
            if k.startswith("created:"):
                created.add(cache.circuit_id)
            elif k.startswith("create:"):
                creates.add(cache.number)
            elif k.startswith("retry:"):
                retry[cache.circuit.circuit_id] = (cache.packet_identifier, id(cache))
        return created, creates, retry

    def act_advance(self, dt: float | None = None):
        """The clock moves by dt seconds; every request-cache entry has its own timer (created 60 s, create 10 s, retry
        10 s), so any subset may expire.  Each expiry becomes one protocol line (xq / xp / xr)."""
        w = self.w
        dt = dt if dt is not None else self.rng.choice([3, 7, 11, 25, 45, 52, 55, 58, 61])
        before = {i: self.timers_state(i) for i in range(1, w.n + 1)}
        tables0 = {i: w.identity(i) for i in range(1, w.n + 1)}
        w.begin()
        w.loop.advance(float(dt))
        w.drain()
        w.drain()
        self.refresh_bk()
        self.ctx.count(f"advance:{dt}s")
        ordered: list[Pkt] = []
        for i in range(1, w.n + 1):
            c0, p0, r0 = before[i]
            c1, p1, r1 = self.timers_state(i)
            lines = [f"xq {i} {cid}" for cid in sorted(c0 - c1)] + [f"xp {i} {num + 1}" for num in sorted(p0 - p1)]
            if w.delay:
                # remove_* tasks whose sleep(remove_tunnel_delay) ended: the entry is popped by id
                gone = [k for k in tables0[i] if k[0] in "CRE" and k not in w.identity(i)]
                lines += [f"rx{kind} {i} {cid}" for (kind, cid) in sorted(gone)]
                for (kind, cid) in gone:
                    if kind in "RE" and (i, kind, tables0[i][(kind, cid)][0]) not in self.may_pop:
                        # O4 for remove_tunnel_delay > 0: nothing is visible when the destroy is accepted, the entry goes later
                        self.fail("TunnelCommunity.on_destroy:delayed-removal-without-authorised-destroy",
                                  f"node {i}: {'relay' if kind == 'R' else 'exit'} entry {cid} was popped after "
                                  f"remove_tunnel_delay although no destroy signed by its adjacent peer (and no local removal) "
                                  f"had named it", {"node": i})
                    elif kind in "RE":
                        self.ctx.count("delayed-pop:authorised")
                self.ctx.count("delayed-pop", len(gone))
            for cid, ident in r0.items():
                circ = w.ov(i).circuits.get(cid)
                if circ is None or (circ.state == "CLOSING" and cid not in r1):
                    lines.insert(len([l_ for l_ in lines if not l_.startswith("rx")]), f"xr {i} {cid}")
                    self.ctx.count("retry-timeout:circuit-removed")
                elif r1.get(cid) != ident or cid not in r1:      # another cache object: the old one timed out
                    if circ.unverified_hop is not None and cid in r1:
                        lines.append(f"xr {i} {cid} ext={w.pidx(circ.unverified_hop.peer)},{r1[cid][0] + 1}")
                        self.ctx.count("retry-timeout:retried")
            mine = [p for p in w.step_sends if w.addr_idx.get(p.src) == i]
            for k, line in enumerate(lines):
                cid = int(line.split()[2])
                pk = [p for p in mine if line.startswith("xr") and w.header(p)[2] == cid]
                ordered.extend(pk)
                sends = [w.header(p) for p in pk]
                self.lines.append(line)
                self.expect.append({"sends": sends, "tables": w.snapshot(i) if k == len(lines) - 1 else None,
                                    "log": [], "step": self.stepno, "kind": "expire"})
                self.ctx.case(("expire", line.split()[0], len(sends)), True)
                self.ctx.count("action:expire-" + line.split()[0])
                if len(c0 - c1) and (p0 & p1):
                    self.ctx.count("expiry:created-gone-while-extension-pending")
            if lines:
                self.track_ids_and_extensions(i)
        # keep the in-flight list in the order in which the lines (and hence the model) produced the datagrams
        rest = [p for p in w.step_sends if not any(p is q for q in ordered)]
        w.flight = [p for p in w.flight if not any(p is q for q in w.step_sends)] + ordered + rest
        self.hist.extend(ordered + rest)
        if rest:
            raise InfraError(f"time advance produced datagrams no expiry explains: {[w.header(p) for p in rest]}")
        self.stepno += 1

    # ---- forged events -----------------------------------------------------------------------------------
    def pick_target(self, want_roles: str | None = None):
        """(node, cid) — mostly an id in use at that node, sometimes an unknown id."""
        w, rng = self.w, self.rng
        if "target" in self.force:
            return self.force["target"]
        pool = []
        for i in range(1, w.n + 1):
            o = w.ov(i)
            for cid in o.circuits:
                pool.append((i, cid, "C"))
            for cid in o.relay_from_to:
                pool.append((i, cid, "R"))
            for cid in o.exit_sockets:
                pool.append((i, cid, "E"))
        if want_roles:
            pool = [x for x in pool if x[2] in want_roles]
        waiting = [(g[0], g[1]) for g in w.join_gates if not g[3].done()]
        if waiting and not want_roles and rng.random() < 0.3:
            self.ctx.count("target:id-of-a-create-waiting-in-the-join-hook")
            return rng.choice(waiting)
        pend_to = [(i, c.to_circuit_id) for i in range(1, w.n + 1)
                   for k, c in w.ov(i).request_cache._identifiers.items() if k.startswith("create:")]
        if pend_to and not want_roles and rng.random() < 0.08:
            self.ctx.count("target:id-reserved-for-a-pending-extension")
            return rng.choice(pend_to)
        if self.freed and not want_roles and rng.random() < 0.12:
            self.ctx.count("target:recently-freed-id")
            return rng.choice(self.freed)
        if pool and rng.random() < 0.85:
            i, cid, _ = rng.choice(pool)
            return i, cid
        return rng.randint(1, w.n), rng.getrandbits(32)

    def pick_src(self, node: int):
        """Source address of an injected datagram, as the UDP endpoint reports it (a UDPv4Address / UDPv6Address)."""
        from ipv8.messaging.interfaces.udp.endpoint import UDPv4Address, UDPv6Address
        a = self._pick_src(node)
        return (UDPv6Address if ":" in a[0] else UDPv4Address)(*a)

    def _pick_src(self, node: int):
        w, rng = self.w, self.rng
        if "src" in self.force:
            return self.force["src"]
        r = rng.random()
        if r < 0.4:
            return w.addr(w.n + 1)                                   # the outsider's own address
        if r < 0.9:
            return w.addr(rng.choice([j for j in range(1, w.n + 1) if j != node]))   # spoofed node address
        return ("9.9.%d.%d" % (rng.randrange(256), rng.randrange(256)), rng.randrange(1, 65535))

    def in_use(self, node, cid):
        o = self.w.ov(node)
        return cid in o.circuits or cid in o.relay_from_to or cid in o.exit_sockets

    def forged_noop_check(self, sig, what, node, before_ids, before_snap, allow_backward_relay_cid=None,
                          allow_new_entries=False, unkeyed=False):
        """O2/O3: no existing entry changed; no datagram left (except blind backward relaying)."""
        w = self.w
        for j in range(1, w.n + 1):
            after = w.identity(j)
            b = before_ids[j]
            for k, v in b.items():
                if after.get(k) != v:
                    self.fail(sig, f"{what}: entry {k} of node {j} changed or disappeared", {"node": node})
                    return False
            if not allow_new_entries and set(after) != set(b):
                self.fail(sig, f"{what}: new table entries {sorted(set(after) - set(b))} at node {j}", {"node": node})
                return False
        if w.step_sends:
            ok = False
            if allow_backward_relay_cid is not None:
                r = before_snap["R"]
                ent = next((x for x in r if x[0] == allow_backward_relay_cid), None)
                ok = ent is not None and ent[5] == 1 and len(w.step_sends) == 1
                if ok:
                    h = w.header(w.step_sends[0])
                    ok = h[0] == ent[2] and h[2] == ent[1] and h[1] == "cell" and h[3] == 0
                    if not ok:
                        self.fail("PythonCryptoEndpoint.relay_cell:misrouted",
                                  f"{what}: relayed to {h[0]} labelled {h[2]} but the relay entry says {ent[2]}/{ent[1]}")
                        return False
                    self.ctx.count("forged:blind-backward-relay")
            if not ok and not allow_new_entries:
                self.fail(sig, f"{what}: node {node} answered with {[w.header(p) for p in w.step_sends]}", {"node": node})
                return False
        return True

    def act_forge(self):
        w, rng = self.w, self.rng
        from ipv8.messaging.anonymization.payload import (CellPayload, CreatedPayload, CreatePayload, DataPayload,
                                                          DestroyPayload, ExtendPayload, PingPayload)
        kind = rng.choice(["junk", "junk", "splice", "splice", "pt_create", "pt_create", "pt_create", "pt_created",
                           "pt_created_guess", "pt_other", "clear", "destroy", "destroy", "destroy"])
        kind = self.force.get("kind", kind)
        att = w.n + 1
        before_ids = {j: w.identity(j) for j in range(1, w.n + 1)}
        hit, guess_how = False, ""
        if kind in ("junk", "splice", "pt_other", "pt_created", "pt_created_guess", "clear"):
            node, cid = self.pick_target()
            if kind == "clear" and "target" not in self.force:
                hopless = [(i, c) for i in range(1, w.n + 1) for c, x in w.ov(i).circuits.items()
                           if not x.hops and x.unverified_hop is not None]
                if hopless and rng.random() < 0.3:
                    node, cid = rng.choice(hopless)
                    self.force_src = tuple(w.ov(node).circuits[cid].unverified_hop.address)
                    self.ctx.count("clear:at-hopless-circuit-from-its-pending-hop:"
                                   + w.ov(node).circuits[cid].state)
            if kind == "pt_created_guess" and "target" not in self.force:
                pend = [(i, c) for i in range(1, w.n + 1) for c in w.ov(i).circuits
                        if w.ov(i).request_cache.has("retry", c)]
                pend += [(i, cache.from_circuit_id) for i in range(1, w.n + 1)
                         for k, cache in w.ov(i).request_cache._identifiers.items() if k.startswith("create:")]
                if pend and rng.random() < 0.8:
                    node, cid = rng.choice(pend)
            src = self.pick_src(node)
            if getattr(self, "force_src", None):
                src, self.force_src = self.force_src, None
            role = self.role(node, cid)
            before = w.snapshot(node)
            re_ = rng.random() < 0.5
            if kind == "junk":
                # first byte: no handler has this id, so a hop-less circuit (which decrypts nothing) ignores it as well
                body = bytes([rng.choice([150, 200, 255])]) + bytes(rng.getrandbits(8) for _ in range(rng.choice([5, 30, 60])))
                cell = CellPayload(cid, body, False, re_)
                line = f"fc {node} {w.aidx(src)} {cid} 0 {int(re_)} [] junk"
            elif kind == "splice":
                cells = [p for p in self.hist if len(p.data) > 31 and p.data[22] == 0 and not p.data[27]]
                if not cells:
                    return
                k = rng.randrange(len(cells))
                donor = cells[k]
                hi = self.hist.index(donor)
                cell = CellPayload(cid, donor.data[29:], False, re_)
                dcid = struct.unpack_from("!I", donor.data, 23)[0]
                if dcid == cid:
                    return        # same label: possibly a genuine cell of this very circuit (e.g. a PONG that on_ping sent
                                  # to a spoofed source address), i.e. a replay, not a forgery (C04)
                line = f"spl {node} {w.aidx(src)} {hi} {cid} {int(re_)}"
            elif kind == "clear":
                # a well-formed PING or DATA that is neither encrypted nor flagged plaintext
                if rng.random() < 0.5:
                    pl = PingPayload(cid, 7)
                else:
                    to_exit = self.role(node, cid).startswith("E")
                    pl = DataPayload(cid, ("10.6.6.6", 666) if to_exit else ZERO, ZERO if to_exit else ("10.6.6.6", 666),
                                     mk_tag("F" if to_exit else "B", 0, 0, 0))
                body = bytes([pl.msg_id]) + w.ov(att).serializer.pack_serializable(pl)[4:]
                cell = CellPayload(cid, body, False, re_)
                spec = "other:6" if pl.msg_id == 6 else (
                    f"data:{w.aidx(('10.6.6.6', 666))}:0:{tag_num('F', 0, 0, 0)}" if pl.dest_address != ZERO else
                    f"data:0:{w.aidx(('10.6.6.6', 666))}:{tag_num('B', 0, 0, 0)}")
                line = f"fc {node} {w.aidx(src)} {cid} 0 {int(re_)} [] {spec}"
            elif kind == "pt_other":
                ser = w.ov(att).serializer
                pl = rng.choice([DataPayload(cid, ("10.6.6.6", 666), ZERO, mk_tag("F", 0, 0, 0)),
                                 PingPayload(cid, 7),
                                 ExtendPayload(cid, 7, w.nodes[att].my_peer.public_key.key_to_bin(), b"\x01" * 32,
                                               w.addr(att))])
                body = bytes([pl.msg_id]) + ser.pack_serializable(pl)[4:]
                cell = CellPayload(cid, body, True, re_)
                line = f"fc {node} {w.aidx(src)} {cid} 1 {int(re_)} [] other:{pl.msg_id}"
            elif kind == "pt_created_guess":
                # an off-path third party knows circuit ids (cell headers) and what went over the wire in plaintext; it
                # derives the identifier from those and may send a DH half of the wrong length
                seen = [struct.unpack_from("!H", p.data, 30)[0] for p in self.hist
                        if len(p.data) >= 32 and p.data[22] == 0 and p.data[27] and p.data[29] == 2]
                cands = [("cid&0xffff", cid & 0xFFFF), ("cid>>16", (cid >> 16) & 0xFFFF), ("zero", 0)]
                if seen:
                    cands += [("last-seen", seen[-1]), ("last-seen+1", (seen[-1] + 1) & 0xFFFF)]
                guess_how, ident = rng.choice(cands)
                o = w.ov(node)
                retry = o.request_cache.get("retry", cid)
                # "last-seen" may be this very circuit's CREATE sniffed on the wire: that is the on-path case (C08), skip
                mine = [struct.unpack_from("!H", p.data, 30)[0] for p in self.hist
                        if len(p.data) >= 32 and p.data[22] == 0 and p.data[27] and p.data[29] == 2
                        and struct.unpack_from("!I", p.data, 23)[0] in
                        ([cid] + [c.to_circuit_id for k, c in o.request_cache._identifiers.items() if k.startswith("create:")])]
                if guess_how.startswith("last-seen") and ident in mine:
                    return
                hit = bool(o.request_cache.has("create", ident) or (retry and retry.packet_identifier == ident))
                malformed = rng.random() < 0.5
                key = b"\x01" * rng.choice([0, 16, 31, 33]) if malformed else bytes(rng.getrandbits(8) for _ in range(32))
                pl = CreatedPayload(cid, ident, key, b"\x07" * 32, b"")
                body = bytes([pl.msg_id]) + w.ov(att).serializer.pack_serializable(pl)[4:]
                cell = CellPayload(cid, body, True, re_)
                line = f"fc {node} {w.aidx(src)} {cid} 1 {int(re_)} [] created:{ident + 1}:{0 if malformed else 1}:{att}:0"
                self.ctx.count(f"identifier_guess:{guess_how}:{'pending' if retry else 'idle'}")
            else:
                ident = rng.getrandbits(16)
                o = w.ov(node)
                retry = o.request_cache.get("retry", cid)
                if o.request_cache.has("create", ident) or (retry and retry.packet_identifier == ident):
                    return
                pl = CreatedPayload(cid, ident, bytes(rng.getrandbits(8) for _ in range(32)), b"\x07" * 32, b"")
                body = bytes([pl.msg_id]) + w.ov(att).serializer.pack_serializable(pl)[4:]
                cell = CellPayload(cid, body, True, re_)
                line = f"fc {node} {w.aidx(src)} {cid} 1 {int(re_)} [] created:{ident + 1}:1:{att}:0"
            acct = w.accounting(node)
            w.begin()
            w.inject(node, src, cell.to_bin(w.prefix), self.force.get("iface"))
            if kind in ("junk", "splice", "clear", "pt_other") and not hit and (w.step_exit or w.step_orig):
                self.fail("PythonCryptoEndpoint.process_cell:forged-cell-delivered",
                          f"forged {kind} cell for id {cid} (role {role}) from {src} at node {node} was delivered: "
                          f"{len(w.step_exit)} datagram(s) left an exit socket, {len(w.step_orig)} handed to the application",
                          {"node": node})
            if kind in ("junk", "splice", "clear", "pt_other") and not hit:
                # O7: a cell that is dropped before it reaches any handler must not move the traffic counters or the
                # heartbeat of a circuit / exit socket (they decide about inactivity and traffic-limit removal)
                after_acct = w.accounting(node)
                moved = sorted(k for k in acct if k in after_acct and after_acct[k] != acct[k])
                if moved and (w.step_exit or w.step_orig or (w.step_sends and "R" not in role)):
                    self.fail("PythonCryptoEndpoint.process_cell:forged-cell-accepted",
                              f"forged {kind} cell for id {cid} (role {role}) from {src} at node {node}"
                              f"{' on interface ' + self.force['iface'] if self.force.get('iface') else ''} was handled as if it "
                              f"carried the circuit's keys: {len(w.step_exit)} datagram(s) left an exit socket, "
                              f"{len(w.step_orig)} delivered to the application, answered with "
                              f"{[w.header(q)[:3] for q in w.step_sends]}", {"node": node})
                elif moved:
                    self.fail("PythonCryptoEndpoint.process_cell:accounting-moved-by-dropped-cell",
                              f"forged {kind} cell for id {cid} (role {role}) from {src} at node {node} was dropped but moved "
                              f"bytes/last_activity of {moved}: {[(acct[k], after_acct[k]) for k in moved]}",
                              {"node": node})
                else:
                    self.ctx.count("accounting:unchanged-after-dropped-cell")
            if hit:
                hits = self.ctx.extra.setdefault("identifier_guess_hits", [])
                hits.append({"sc_seed": self.sc_seed, "step": self.stepno, "node": node, "cid": cid, "guess": guess_how,
                             "circuit_removed": cid not in w.ov(node).circuits and "C" in role})
                self.ctx.count("identifier_guess:hit:" + guess_how)
                if len(hits) >= 3:
                    self.fail("RequestCache.identifier:predictable-from-public-values",
                              f"{len(hits)} of the identifiers guessed from public values ({guess_how}: circuit id bits / "
                              f"identifiers seen in plaintext on the wire) were the pending identifier; a third-party "
                              f"plaintext CREATED for circuit {cid} at node {node} passed the identifier check"
                              + (" and, carrying a malformed key, removed the circuit" if hits[-1]["circuit_removed"] else ""),
                              {"node": node, "hits": hits[-3:]})
                self.refresh_bk()
            else:
              self.forged_noop_check(f"PythonCryptoEndpoint.process_cell:forged-{kind}",
                                   f"forged {kind} cell for id {cid} (role {role}) from {src} at node {node}",
                                   node, before_ids, before, allow_backward_relay_cid=cid,
                                   unkeyed=(role == "C0" and kind in ("junk", "splice", "clear")))
            self.record(line, node, "forge-" + kind, role != "-", ("forge", kind, role, len(w.step_sends)))
            self.ctx.count(f"forge_role:{kind}:{role}")
        elif kind == "pt_create":
            node, cid = self.pick_target()
            src = w.addr(att) if rng.random() < 0.7 else self.pick_src(node)
            role = self.role(node, cid)
            before = w.snapshot(node)
            _, dh = w.ov(att).crypto.generate_diffie_secret()
            ident = rng.getrandbits(16)
            # node_public_key is self-declared: the sender may claim its own key or any public key it knows
            claim = self.force.get("claim_pk", att if rng.random() < 0.7 else rng.randint(1, w.n))
            self.ctx.count("create_claims:own-key" if claim == att else "create_claims:another-peers-key")
            pl = CreatePayload(cid, ident, w.nodes[claim].my_peer.public_key.key_to_bin(), dh)
            body = bytes([pl.msg_id]) + w.ov(att).serializer.pack_serializable(pl)[4:]
            cell = CellPayload(cid, body, True, rng.random() < 0.5)
            w.begin()
            w.inject(node, src, cell.to_bin(w.prefix), self.force.get("iface"))
            busy = "C" in role or "R" in role or "E" in role or "q" in role
            if busy:
                self.forged_noop_check("TunnelCommunity.on_create:id-in-use-accepted",
                                       f"CREATE from a third party ({src}) for circuit id {cid}, which node {node} already "
                                       f"uses as {role}", node, before_ids, before)
            else:
                self.forged_noop_check("TunnelCommunity.on_create:foreign-create-disturbs",
                                       f"CREATE for the unused id {cid} at node {node}", node, before_ids, before,
                                       allow_new_entries=True)
            self.record(f"fc {node} {w.aidx(src)} {cid} 1 {int(cell.relay_early)} [] create:{ident + 1}:{claim}:0",
                        node, "forge-pt_create", busy, ("forge", "pt_create", role, len(w.step_sends)))
            self.ctx.count(f"forge_role:pt_create:{role}")
        else:
            self.forge_destroy(before_ids)

    def allow_pop(self, node: int, cid: int):
        """A removal of the entries named `cid` at `node` (and, for a relay, of its pair) was legitimately requested."""
        o = self.w.ov(node)
        r = o.relay_from_to.get(cid)
        for kind, tab, c in (("R", o.relay_from_to, cid), ("E", o.exit_sockets, cid),
                             ("R", o.relay_from_to, r.circuit_id if r is not None else None)):
            if c is not None and c in tab:
                self.may_pop.add((node, kind, id(tab[c])))

    def adjacent_peer(self, node, cid):
        """Public key of the peer whose destroy for `cid` node must honour (None if the id is unused)."""
        o = self.w.ov(node)
        nxt = o.relay_from_to.get(cid)
        if nxt is not None:
            prev = o.relay_from_to.get(nxt.circuit_id)
            return prev.hop.peer.public_key.key_to_bin() if prev is not None else None
        if cid in o.exit_sockets:
            return o.exit_sockets[cid].hop.peer.public_key.key_to_bin()
        if cid in o.circuits and (o.circuits[cid].hops or o.circuits[cid].unverified_hop):
            return o.circuits[cid].hop.peer.public_key.key_to_bin()
        return None

    def forge_destroy(self, before_ids):
        w, rng = self.w, self.rng
        from ipv8.messaging.anonymization.payload import DestroyPayload
        node, cid = self.pick_target()
        role = self.role(node, cid)
        adj = self.adjacent_peer(node, cid)
        adj_idx = w.key_idx.get(adj) if adj else None
        mode = rng.choice(["outsider", "other-node", "adjacent-badsig", "adjacent", "adjacent-tampered-id",
                           "wrong-side"])
        mode = self.force.get("mode", mode)
        signer = None
        if mode == "outsider" or adj_idx is None:
            signer, mode = w.n + 1, ("outsider" if mode == "outsider" or adj_idx is None else mode)
            if adj_idx is None and mode != "outsider":
                mode = "outsider"
        elif mode == "other-node":
            others = [j for j in range(1, w.n + 1) if j not in (node, adj_idx)]
            signer = self.force.get("signer", rng.choice(others))
            if signer == adj_idx:
                mode = "adjacent"
        elif mode == "wrong-side":
            # the neighbour on the *other* side of a relay pair signs a destroy naming this side's id
            r = w.ov(node).relay_from_to.get(cid)
            if r is None:
                signer, mode = w.n + 1, "outsider"
            else:
                signer = w.key_idx.get(r.hop.peer.public_key.key_to_bin(), w.n + 1)
                if signer == adj_idx:
                    mode = "adjacent"
        else:
            signer = adj_idx
        signed_cid = cid
        if mode == "adjacent-tampered-id":
            # the neighbour signs a destroy for a different id; the id field is altered in flight
            signed_cid = cid ^ 1
        reason = rng.choice([0, 1, 2, 4])
        pkt = bytearray(w.ov(signer).ezr_pack(DestroyPayload.msg_id, DestroyPayload(signed_cid, reason)))
        sigok = True
        if mode == "adjacent-badsig":
            pkt[-1 - rng.randrange(60)] ^= 1 << rng.randrange(8)
            sigok = False
        if mode == "adjacent-tampered-id":
            i = bytes(pkt).rindex(struct.pack("!I", signed_cid), 0, len(pkt) - 64)
            pkt[i:i + 4] = struct.pack("!I", cid)
            sigok = False
        from ipv8.messaging.interfaces.udp.endpoint import UDPv4Address
        if sigok:
            src = UDPv4Address(*w.addr(signer))      # the harness signs for that peer: as sent by the peer itself
        else:
            src = self.pick_src(node) if (rng.random() < 0.8 or "src" in self.force) else UDPv4Address(*w.addr(signer))
        before = w.identity(node)
        snap = w.snapshot(node)
        if sigok and adj is not None and w.key_idx.get(adj) == signer:
            self.allow_pop(node, cid)
        w.begin()
        w.inject(node, src, bytes(pkt))
        after = w.identity(node)
        removed = sorted(k for k in before if k[0] in "CRE" and k not in after)
        changed = sorted(k for k in before if k in after and after[k] != before[k])
        authorised = sigok and adj is not None and w.key_idx.get(adj) == signer
        what = (f"destroy for id {cid} (role {role}) at node {node} signed by peer {signer} "
                f"({mode}, signature {'valid' if sigok else 'invalid'}); adjacent peer is {adj_idx}")
        if (removed or changed) and not authorised:
            self.fail("TunnelCommunity.on_destroy:unauthorised-destroy-honoured",
                      f"{what}: removed {removed} changed {changed}", {"node": node})
        if not authorised and w.step_sends:
            self.fail("TunnelCommunity.on_destroy:unauthorised-destroy-forwarded",
                      f"{what}: node sent {[w.header(p) for p in w.step_sends]}", {"node": node})
        if authorised:
            # entries that may go: the id itself and, for a relay, its pair
            allowed = {("E", cid), ("C", cid), ("R", cid)}
            nxt = [v for k, v in before.items() if k == ("R", cid)]
            if nxt:
                allowed.add(("R", nxt[0][1]))
            if not set(removed) <= allowed:
                self.fail("TunnelCommunity.on_destroy:destroy-removed-other-circuit",
                          f"{what}: removed {removed}", {"node": node})
            self.ctx.count("destroy:honoured" if removed else "destroy:authorised-but-kept")
            # the harness signed on behalf of the neighbour, which itself keeps its entries: that circuit is cut
            # (with remove_tunnel_delay > 0 the entries are only scheduled for removal: take the named ones)
            named = set(removed) | {(k_, cid) for k_ in "CRE"}
            for kind_, cid_ in named:
                for row in snap[kind_]:
                    if row[0] == cid_:
                        self.cut_keys.update(row[2] if kind_ == "C" else [row[4] if kind_ == "R" else row[3]])
        for j in range(1, w.n + 1):
            if j != node and w.identity(j) != before_ids[j]:
                self.fail("TunnelCommunity.on_destroy:remote-change", f"{what}: tables of node {j} changed")
        self.refresh_bk()
        if authorised:
            for (o, c2), bk in self.circs.items():
                if not bk["alive"]:
                    bk["destroyed"] = True
        self.record(f"fd {node} {w.aidx(src)} {signer} {cid} {int(sigok)} {reason}", node, "forge-destroy",
                    role != "-", ("fd", mode, role, bool(removed)))
        self.ctx.count(f"destroy_mode:{mode}:{role}:{'removed' if removed else 'kept'}")
        self.ctx.count(f"destroy_reason:{reason}")

    # ---- driver ------------------------------------------------------------------------------------------
    def flush(self, limit=600, gates=True):
        n = 0
        def waiting():
            return [g for g in self.w.join_gates if not g[3].done()]
        while (self.w.flight or waiting() or (gates and self.live_gates())) and n < limit and not self.failed:
            if self.w.flight:
                self.act_deliver(0)
            elif waiting():
                self.act_join_gate(0)
            else:
                self.act_gate(0)
            n += 1

    def deliver_where(self, pred) -> bool:
        w = self.w
        for k, p in enumerate(w.flight):
            if pred(w.header(p), p):
                self.act_deliver(k)
                return True
        return False

    def run_reuse(self, order: str, second: str):
        """Small-scope scenario family "an id is used again while an extension of its previous owner is pending":
        circuit X of node 1 runs 1 -> E(3) -> 4; E's CREATE to node 4 is held back; then, in the given order,
          X  node 1 removes X and its destroy reaches E,
          R  a second party asks E for a circuit under the SAME id (second = a real originator, node 2, or the outsider),
          F  the held CREATE reaches node 4,   B  node 4's CREATED comes back to E (and what follows is delivered).
        Afterwards every circuit that is READY must still work; O8 watches which exit entry the extension lands on."""
        _random.seed(self.sc_seed ^ 0x5DEECE66D)      # not the stream of self.rng: ids drawn by the code must not repeat ids the harness forges
        self.w = World(4, self.rng)
        w = self.w
        try:
            self.lines.append("reset 4")
            self.expect.append({"sends": [], "tables": None, "log": [], "step": -1, "kind": "reset"})
            peer2 = w.nodes[2].my_peer
            flags2 = w.ov(1).candidates.pop(peer2, None)          # first hop of node 1 can only be node 3
            key = self.act_open((1, 2, 4))
            if flags2 is not None:
                w.ov(1).candidates[peer2] = flags2
            if key is None:
                return
            xid = key[1]
            is_held = lambda h, p: h[1] == "cell" and h[3] == 1 and h[5] == 2 and w.addr_idx.get(p.dst) == 4   # noqa: E731
            for _ in range(30):
                if any(is_held(w.header(p), p) for p in w.flight):
                    break
                if not self.deliver_where(lambda h, p: not is_held(h, p)):
                    break
            if not any(is_held(w.header(p), p) for p in w.flight):
                self.ctx.count("reuse:setup-incomplete")
                return
            for ev in order:
                if self.failed:
                    break
                if ev == "X":
                    if xid in w.ov(1).circuits:
                        w.begin()
                        self.circs[key]["destroyed"] = True
                        w.call(w.ov(1).remove_circuit, xid, "harness", destroy=1)
                        self.refresh_bk()
                        self.record(f"rmC 1 {xid}", 1, "legit-remove-C", True, ("rm", "C"))
                    self.deliver_where(lambda h, p: h[1] == "destroy" and w.addr_idx.get(p.dst) == 3)
                elif ev == "R":
                    if second == "originator":
                        w.ov(2)._generate_circuit_id = lambda: xid          # harness-side: node 2 happens to draw X
                        k2 = self.act_open((2, 1, 3))
                        del w.ov(2)._generate_circuit_id
                        self.deliver_where(lambda h, p: h[1] == "cell" and h[2] == xid and h[5] == 2
                                           and w.addr_idx.get(p.dst) == 3 and w.addr_idx.get(p.src) == 2)
                        self.deliver_where(lambda h, p: h[1] == "cell" and h[2] == xid and h[5] == 3
                                           and w.addr_idx.get(p.dst) == 2)
                        _ = k2
                    else:
                        self.force = {"kind": "pt_create", "target": (3, xid), "src": w.addr(w.n + 1)}
                        self.act_forge()
                        self.force = {}
                elif ev == "F":
                    self.deliver_where(is_held)
                elif ev == "B":
                    self.deliver_where(lambda h, p: h[1] == "cell" and h[3] == 1 and h[5] == 3 and w.addr_idx.get(p.dst) == 3)
                    self.deliver_where(lambda h, p: h[1] == "cell" and h[3] == 0 and w.addr_idx.get(p.dst) in (1, 2))
            if not self.failed:
                self.final_probe()
            self.ctx.count(f"reuse:histories:{second}")
        finally:
            w.close()

    def run_expiry(self, late: int, rest: int, second: str, destroy_first: bool):
        """Small-scope family "the created-cache (60 s) dies before the create-cache (10 s) of a late extension":
        circuit X of node 1 is accepted by E(3) at T0; the EXTEND towards node 4 is held back and reaches E at T0+late;
        at T0+late+rest the id's created-cache entry has expired while the extension is still pending; X's exit entry
        is destroyed by its owner; a second party asks E for id X; then node 4's CREATED comes back."""
        _random.seed(self.sc_seed ^ 0x5DEECE66D)      # not the stream of self.rng: ids drawn by the code must not repeat ids the harness forges
        self.w = World(4, self.rng)
        w = self.w
        try:
            self.lines.append("reset 4")
            self.expect.append({"sends": [], "tables": None, "log": [], "step": -1, "kind": "reset"})
            peer2 = w.nodes[2].my_peer
            flags2 = w.ov(1).candidates.pop(peer2, None)
            key = self.act_open((1, 2, 4))
            if flags2 is not None:
                w.ov(1).candidates[peer2] = flags2
            if key is None:
                return
            xid = key[1]
            to3 = lambda h, p: w.addr_idx.get(p.dst) == 3     # noqa: E731
            self.deliver_where(lambda h, p: to3(h, p) and h[3] == 1 and h[5] == 2)           # CREATE X at E  (T0)
            self.deliver_where(lambda h, p: w.addr_idx.get(p.dst) == 1 and h[5] == 3)        # CREATED back: EXTEND is sent
            held = lambda h, p: to3(h, p) and h[1] == "cell" and h[3] == 0 and h[2] == xid    # noqa: E731
            if not any(held(w.header(p), p) for p in w.flight):
                self.ctx.count("expiry-scenario:setup-incomplete")
                return
            self.act_advance(late)                     # the originator's retry cache times out meanwhile
            self.deliver_where(held)                   # late EXTEND: E asks node 4 (create-cache starts now)
            self.act_advance(rest)
            if destroy_first:
                self.force = {"kind": "destroy", "target": (3, xid), "src": w.addr(1), "mode": "adjacent"}
                self.act_forge()                       # X's owner (node 1) destroys its exit entry at E
                self.force = {}
            if second == "originator":
                w.ov(2)._generate_circuit_id = lambda: xid
                self.act_open((2, 1, 3))
                del w.ov(2)._generate_circuit_id
                self.deliver_where(lambda h, p: to3(h, p) and h[3] == 1 and h[5] == 2 and w.addr_idx.get(p.src) == 2)
                self.deliver_where(lambda h, p: w.addr_idx.get(p.dst) == 2 and h[3] == 1 and h[5] == 3)
            else:
                self.force = {"kind": "pt_create", "target": (3, xid), "src": w.addr(w.n + 1)}
                if second == "impostor":          # the outsider claims the old owner's public key in its CREATE
                    self.force["claim_pk"] = 1
                self.act_forge()
                self.force = {}
            self.deliver_where(lambda h, p: w.addr_idx.get(p.dst) == 4 and h[3] == 1 and h[5] == 2)   # E's CREATE at node 4
            self.deliver_where(lambda h, p: to3(h, p) and h[3] == 1 and h[5] == 3)                     # late CREATED at E
            if not self.failed:
                self.final_probe()
            self.ctx.count(f"expiry-scenario:histories:{second}")
        finally:
            w.close()

    def act_resend_extend(self, o: int, cid: int, other: int):
        """The originator gives up on the pending next hop and asks its last hop to extend to `other` instead (what the
        retry time-out does; the unit tests call send_extend the same way)."""
        w = self.w
        c = w.ov(o).circuits[cid]
        w.begin()
        w.ov(o).send_extend(c, [w.nodes[other].my_peer.public_key.key_to_bin()], 1)
        w.drain()
        retry = w.ov(o).request_cache.get("retry", cid)
        c2 = w.ov(o).circuits.get(cid)
        if c2 is not None and c2.unverified_hop is not None and retry is not None:
            line = f"xr {o} {cid} ext={w.pidx(c2.unverified_hop.peer)},{retry.packet_identifier + 1}"
        else:
            line = f"xr {o} {cid}"
        self.record(line, o, "resend-extend", True, ("resend-extend", len(w.step_sends)))

    def run_late_created(self, delay: float, when: str, wait: float):
        """Small-scope family "a late answer to an EARLIER extend request of the same circuit": circuit X of node 1 goes
        1 -> R(3) -> ? -> 5.  R's CREATE to the first candidate is held back; node 1 asks R to extend to the other
        candidate instead, which succeeds (R pairs X with it); then, `wait` seconds later and either before or after the
        circuit is complete (`when`), the first candidate's CREATED arrives at R.  Run with remove_tunnel_delay 0 and 5."""
        _random.seed(self.sc_seed ^ 0x5DEECE66D)      # not the stream of self.rng: ids drawn by the code must not repeat ids the harness forges
        self.w = World(5, self.rng, delay)
        w = self.w
        try:
            self.lines.append("reset 5" + (" defer" if delay else ""))
            self.expect.append({"sends": [], "tables": None, "log": [], "step": -1, "kind": "reset"})
            saved = {}
            for j in (2, 4):
                saved[j] = w.ov(1).candidates.pop(w.nodes[j].my_peer, None)
            key = self.act_open((1, 3, 5))
            for j, fl in saved.items():
                if fl is not None:
                    w.ov(1).candidates[w.nodes[j].my_peer] = fl
            if key is None:
                return
            xid = key[1]
            dst = lambda p: w.addr_idx.get(p.dst)      # noqa: E731
            self.deliver_where(lambda h, p: dst(p) == 3 and h[3] == 1 and h[5] == 2)            # CREATE X at R
            self.deliver_where(lambda h, p: dst(p) == 1 and h[5] == 3)                          # CREATED: EXTEND#1 leaves
            self.deliver_where(lambda h, p: dst(p) == 3 and h[1] == "cell" and h[3] == 0)       # EXTEND#1 at R
            held = [p for p in w.flight if w.header(p)[3] == 1 and w.header(p)[5] == 2 and dst(p) in (2, 4)]
            if not held or xid not in w.ov(1).circuits:
                self.ctx.count("late-created:setup-incomplete")
                return
            first = dst(held[0])
            other = 2 if first == 4 else 4
            is_held = lambda h, p: p is held[0]        # noqa: E731
            self.act_resend_extend(1, xid, other)                                              # EXTEND#2
            self.deliver_where(lambda h, p: dst(p) == 3 and h[1] == "cell" and h[3] == 0)       # ... at R
            self.deliver_where(lambda h, p: dst(p) == other and h[3] == 1 and h[5] == 2)        # R's CREATE at `other`
            self.deliver_where(lambda h, p: dst(p) == 3 and h[3] == 1 and h[5] == 3)            # CREATED: R pairs X
            if when == "after-ready":
                for _ in range(40):
                    if not self.deliver_where(lambda h, p: not is_held(h, p)):
                        break
            if wait:
                self.act_advance(wait)
            self.deliver_where(is_held)                                                        # late CREATE at `first`
            self.deliver_where(lambda h, p: dst(p) == 3 and h[3] == 1 and h[5] == 3)            # late CREATED at R
            if not self.failed:
                self.final_probe()
            self.ctx.count(f"late-created:histories:delay={delay}")
        finally:
            w.close()

    def run_identifier_search(self, unknown_cid: int):
        """An off-path party that knows nothing (no key, no identifier, not even a circuit id in use) sends a plaintext
        CREATED for every 16-bit identifier to a relay that has an extension pending.  Nothing may change."""
        from ipv8.messaging.anonymization.payload import CellPayload, CreatedPayload
        _random.seed(self.sc_seed ^ 0x5DEECE66D)      # not the stream of self.rng: ids drawn by the code must not repeat ids the harness forges
        self.w = World(4, self.rng)
        w = self.w
        try:
            self.lines.append("reset 4")
            self.expect.append({"sends": [], "tables": None, "log": [], "step": -1, "kind": "reset"})
            saved = {j: w.ov(1).candidates.pop(w.nodes[j].my_peer, None) for j in (2, 4)}
            key = self.act_open((1, 2, 4))
            for j, fl in saved.items():
                if fl is not None:
                    w.ov(1).candidates[w.nodes[j].my_peer] = fl
            if key is None:
                return
            dst = lambda p: w.addr_idx.get(p.dst)      # noqa: E731
            self.deliver_where(lambda h, p: dst(p) == 3 and h[3] == 1 and h[5] == 2)
            self.deliver_where(lambda h, p: dst(p) == 1 and h[5] == 3)
            self.deliver_where(lambda h, p: dst(p) == 3 and h[1] == "cell" and h[3] == 0)
            if not any(k.startswith("create:") for k in w.ov(3).request_cache._identifiers):
                self.ctx.count("identifier-search:setup-incomplete")
                return
            att = w.n + 1
            ser = w.ov(att).serializer
            before = w.identity(3)
            snap_before = w.snapshot(3)
            src = w.addr(att)
            w.begin()
            hit = None
            for ident in range(65536):
                pl = CreatedPayload(unknown_cid, ident, b"\x01" * 32, b"\x07" * 32, b"")
                cell = CellPayload(unknown_cid, bytes([pl.msg_id]) + ser.pack_serializable(pl)[4:], True, False)
                try:
                    w.nodes[3].endpoint.notify_listeners((src, cell.to_bin(w.prefix)))
                except Exception:
                    w.raised += 1
                if w.ov(3).relay_from_to or len(w.ov(3).request_cache._identifiers) != len(snap_before["Q"]) + len(snap_before["P"]):
                    hit = ident
                    break
            w.drain()
            self.ctx.count("identifier-search:cells", (hit + 1) if hit is not None else 65536)
            after = w.identity(3)
            lost = [k_ for k_ in before if k_[0] == "P" and after.get(k_) != before[k_]]
            if lost and not w.step_sends:
                self.fail("TunnelCommunity.on_created:extension-state-consumed-by-identifier-search",
                          f"a plaintext CREATED naming the unknown circuit id {unknown_cid}, sent by an outsider without any key, "
                          f"hit the pending 16-bit identifier after {(hit if hit is not None else 65535) + 1} cells and node 3 "
                          f"dropped the pending extension {lost} of circuit {key[1]}: the genuine CREATED of the next hop will be "
                          f"rejected and the circuit never gets its hop", {"unknown_cid": unknown_cid, "ident": hit})
            changed = {k_: v_ for k_, v_ in after.items() if k_[0] in "CRE"} != \
                {k_: v_ for k_, v_ in before.items() if k_[0] in "CRE"} or w.step_sends
            if changed:
                self.fail("TunnelCommunity.on_created:extension-completed-by-identifier-search",
                          f"a plaintext CREATED naming the unknown circuit id {unknown_cid}, sent by an outsider without any key, "
                          f"hit the pending 16-bit identifier after {(hit if hit is not None else 65535) + 1} cells: node 3 turned "
                          f"the exit entry of circuit {key[1]} into a relay pair and sent {[w.header(p)[:3] for p in w.step_sends]}",
                          {"unknown_cid": unknown_cid, "ident": hit})
            # the model sees only the cell that hit (every other one is `created_not_outstanding_noop` on both sides)
            if hit is not None:
                self.record(f"fc 3 {w.aidx(src)} {unknown_cid} 1 0 [] created:{hit + 1}:1:{att}:0", 3, "forge-created-search",
                            True, ("search", bool(changed)))
            if not self.failed:
                self.flush()
                c1 = w.ov(1).circuits.get(key[1])
                if c1 is None or c1.state != "READY":
                    self.fail("history:extension-never-completed",
                              f"circuit {key[1]} of node 1 did not complete after the identifier search at its relay "
                              f"({'gone' if c1 is None else c1.state})", {"unknown_cid": unknown_cid})
            if not self.failed:
                self.observed_identifier_at_originator()
            if not self.failed:
                self.final_probe()
            self.ctx.count("identifier-search:histories")
        finally:
            w.close()

    def run_intro_points(self, same_key: bool, same_hash: bool, via: str):
        """Hidden services: two circuits X (node 1) and W (node 2) end in node 3.  X registers as introduction point for
        seeder key K / info hash H; then an establish-intro arrives over W (same or another key, same or another hash),
        either from W's owner or - `via` = "nested" - as an outside datagram imitating one.  X's registration must stay."""
        from ipv8.messaging.anonymization.payload import EstablishIntroPayload
        _random.seed(self.sc_seed ^ 0x5DEECE66D)      # not the stream of self.rng: ids drawn by the code must not repeat ids the harness forges
        self.w = World(4, self.rng, hidden=True)
        w = self.w
        try:
            kx, kw = self.act_open((1, 1, 3)), self.act_open((2, 1, 3))
            self.flush()
            self.refresh_bk()
            if kx is None or kw is None or not all(self.circs[k].get("ready") for k in (kx, kw)):
                self.ctx.count("intro-points:setup-incomplete")
                return
            key_k, key_l = b"K" * 32, b"L" * 32
            h1, h2 = b"\x11" * 20, b"\x22" * 20

            def establish(key, pk, ih):
                o, cid = key
                c = w.ov(o).circuits[cid]
                w.begin()
                w.ov(o).send_cell(c.hop.address, EstablishIntroPayload(cid, 7, ih, pk))
                w.drain()
                self.hist.extend(w.step_sends)
                self.stepno += 1
                self.flush()
            establish(kx, key_k, h1)
            reg = dict(w.ov(3).intro_point_for)
            if key_k not in reg:
                self.ctx.count("intro-points:not-registered")
                return
            before = w.identity(3)
            establish(kw, key_k if same_key else key_l, h1 if same_hash else h2)
            after = w.identity(3)
            if after.get(("I", key_k)) != before[("I", key_k)]:
                self.fail("HiddenTunnelCommunity.on_establish_intro:registration-of-another-circuit-replaced",
                          f"node 3: circuit {kx[1]} was the introduction point for seeder key K (info hash H1); an "
                          f"establish-intro over circuit {kw[1]} ({'same' if same_key else 'other'} key, "
                          f"{'same' if same_hash else 'other'} info hash) changed that registration to "
                          f"{after.get(('I', key_k))}", {"node": 3})
            self.dangling_registrations(3)
            self.ctx.count(f"intro-points:histories:key={'same' if same_key else 'other'}:hash={'same' if same_hash else 'other'}")
            _ = via
            if not self.failed:
                self.final_probe()
        finally:
            w.close()

    def dangling_registrations(self, node: int):
        """Service state of HiddenTunnelCommunity must not outlive the exit socket it belongs to."""
        o = self.w.ov(node)
        bad = []
        for pk, (sock, _) in getattr(o, "intro_point_for", {}).items():
            if o.exit_sockets.get(sock.circuit_id) is not sock:
                bad.append(("introduction point", pk.hex()[:12], sock.circuit_id))
        for cookie, sock in getattr(o, "rendezvous_point_for", {}).items():
            if o.exit_sockets.get(sock.circuit_id) is not sock:
                bad.append(("rendezvous cookie", cookie.hex()[:12], sock.circuit_id))
        if bad:
            self.fail("HiddenTunnelCommunity.remove_exit_socket:registration-outlives-its-exit-socket",
                      f"node {node}: {bad} still registered although that exit socket has left the table: the next circuit "
                      f"that gets this id inherits the registration (link-e2e / create-e2e resolve it by id)", {"node": node})
        return not bad

    def run_rendezvous(self, cookies: int, intros: int, how: str):
        """Hidden services: circuit X (node 1) ends in node 3 and registers `cookies` rendezvous cookies and `intros`
        introduction points on it; then X's exit socket is removed (destroy from the owner / removal at the exit).
        No registration may survive; a second circuit W with registrations of its own must keep them."""
        from ipv8.messaging.anonymization.payload import EstablishIntroPayload, EstablishRendezvousPayload
        _random.seed(self.sc_seed ^ 0x5DEECE66D)      # not the stream of self.rng: ids drawn by the code must not repeat ids the harness forges
        self.w = World(4, self.rng, hidden=True)
        w = self.w
        try:
            kx, kw = self.act_open((1, 1, 3)), self.act_open((2, 1, 3))
            self.flush()
            self.refresh_bk()
            if kx is None or kw is None or not all(self.circs[k].get("ready") for k in (kx, kw)):
                self.ctx.count("rendezvous:setup-incomplete")
                return

            def send(key, pl):
                o, cid = key
                c = w.ov(o).circuits[cid]
                w.begin()
                w.ov(o).send_cell(c.hop.address, pl)
                w.drain()
                self.hist.extend(w.step_sends)
                self.stepno += 1
                self.flush()
            for k in range(cookies):
                send(kx, EstablishRendezvousPayload(kx[1], 7 + k, bytes([0x40 + k]) * 20))
            for k in range(intros):
                send(kx, EstablishIntroPayload(kx[1], 17 + k, bytes([0x50 + k]) * 20, bytes([0x60 + k]) * 32))
            send(kw, EstablishRendezvousPayload(kw[1], 9, b"\x7e" * 20))
            o3 = w.ov(3)
            have = (sum(1 for s_ in o3.rendezvous_point_for.values() if s_.circuit_id == kx[1]),
                    sum(1 for s_, _ in o3.intro_point_for.values() if s_.circuit_id == kx[1]))
            self.ctx.count(f"rendezvous:registered:cookies={have[0]}:intros={have[1]}")
            w.begin()
            if how == "owner-destroys":
                w.call(w.ov(1).remove_circuit, kx[1], "harness", destroy=1)
            else:
                w.call(o3.remove_exit_socket, kx[1], "harness", destroy=1)
            self.stepno += 1
            self.flush()
            self.dangling_registrations(3)
            if not self.failed and not any(s_.circuit_id == kw[1] for s_ in o3.rendezvous_point_for.values()):
                self.fail("HiddenTunnelCommunity.remove_exit_socket:registration-of-another-circuit-dropped",
                          f"node 3: removing circuit {kx[1]} dropped the rendezvous cookie of circuit {kw[1]}", {"node": 3})
            self.ctx.count(f"rendezvous:histories:{how}")
        finally:
            w.close()

    def run_dualstack(self):
        """Configuration class: the exit node runs on a DispatcherEndpoint with an IPv4 and an IPv6 interface.  Two circuits
        end there; after legitimate traffic every kind of forged cell is delivered on EACH interface."""
        _random.seed(self.sc_seed ^ 0x5DEECE66D)      # not the stream of self.rng: ids drawn by the code must not repeat ids the harness forges
        self.w = World(4, self.rng, dualstack=(3,))
        w = self.w
        try:
            self.lines.append("reset 4")
            self.expect.append({"sends": [], "tables": None, "log": [], "step": -1, "kind": "reset"})
            ka, kb = self.act_open((1, 1, 3)), self.act_open((2, 2, 3))
            self.flush()
            self.refresh_bk()
            for k in (ka, kb):
                if k is not None and self.circs[k].get("ready"):
                    self.act_send_data((k, self.circs[k]))
            self.flush()
            ids = list(w.ov(3).exit_sockets) + list(w.ov(3).relay_from_to) + [0xC0500003]
            v6src = ("fd00::66", 6666)
            for cid in ids:
                for iface, src in (("UDPIPv6", v6src), ("UDPIPv4", w.addr(w.n + 1))):
                    for kind in ("clear", "junk", "pt_other", "pt_create", "pt_created", "splice"):
                        if self.failed:
                            return
                        self.force = {"kind": kind, "target": (3, cid), "src": src, "iface": iface}
                        self.act_forge()
                        self.ctx.count(f"dualstack:{iface}:{kind}")
            self.force = {}
            if not self.failed:
                self.final_probe()
            self.ctx.count("dualstack:histories")
        finally:
            w.close()

    def run_closing_hopless(self, delay: float, wait: float):
        """A circuit whose first hop never answered is given up (retry time-out) and, with remove_tunnel_delay > 0, stays
        in the table for a while although it never had any key: every kind of forged cell from its pending hop's address
        (and from elsewhere) must still be dropped."""
        _random.seed(self.sc_seed ^ 0x5DEECE66D)      # not the stream of self.rng: ids drawn by the code must not repeat ids the harness forges
        self.w = World(4, self.rng, delay)
        w = self.w
        try:
            self.lines.append("reset 4" + (" defer" if delay else ""))
            self.expect.append({"sends": [], "tables": None, "log": [], "step": -1, "kind": "reset"})
            key = self.act_open((1, 1, 3))
            if key is None:
                return
            self.act_advance(wait)              # CREATE never delivered: the retry cache times out, no alternative hop
            c = w.ov(1).circuits.get(key[1])
            self.ctx.count("closing-hopless:state:" + (c.state if c is not None else "gone"))
            for src in (w.addr(3), w.addr(w.n + 1)):
                for kind in ("clear", "junk", "pt_other", "splice"):
                    for _ in range(2):
                        if self.failed or key[1] not in w.ov(1).circuits:
                            break
                        self.force = {"kind": kind, "target": (1, key[1]), "src": src}
                        self.act_forge()
            self.force = {}
            if not self.failed:
                self.act_advance(6)
                self.final_probe()
            self.ctx.count(f"closing-hopless:histories:delay={delay}")
        finally:
            w.close()

    def observed_identifier_at_originator(self):
        """The identifier of a CREATE travels in clear.  A third party that saw it answers with a plaintext CREATED naming
        the circuit, a WELL-FORMED key and a wrong authentication tag, before the real first hop does: the circuit under
        construction must stay as it is (the handshake simply does not verify)."""
        from ipv8.messaging.anonymization.payload import CellPayload, CreatedPayload
        w = self.w
        key = self.act_open((2, 1, 4))
        if key is None:
            return
        retry = w.ov(2).request_cache.get("retry", key[1])
        if retry is None:
            return
        att = w.n + 1
        before = w.identity(2)
        pl = CreatedPayload(key[1], retry.packet_identifier, bytes(range(32)), b"\x07" * 32, b"")
        cell = CellPayload(key[1], bytes([pl.msg_id]) + w.ov(att).serializer.pack_serializable(pl)[4:], True, False)
        src = self.pick_src(2)
        w.begin()
        w.inject(2, src, cell.to_bin(w.prefix))
        after = w.identity(2)
        if {k_: v_ for k_, v_ in after.items() if k_[0] == "C"} != {k_: v_ for k_, v_ in before.items() if k_[0] == "C"}:
            self.fail("TunnelCommunity._ours_on_created_extended:circuit-changed-by-unauthenticated-created",
                      f"a plaintext CREATED for circuit {key[1]} of node 2 with the identifier seen in its CREATE, a well-formed "
                      f"key and a wrong authentication tag changed the circuit under construction: "
                      f"{before.get(('C', key[1]))} -> {after.get(('C', key[1]), 'removed')}", {"node": 2})
        self.record(f"fc 2 {w.aidx(src)} {key[1]} 1 0 [] created:{retry.packet_identifier + 1}:1:{att}:0", 2,
                    "forge-created-observed-identifier", True, ("observed-ident",))
        self.flush()

    def run_opening(self, seq, hops: int):
        """Small-scope exhaustive scenario: two circuits of different originators end at the SAME exit node; `seq`
        interleaves, per circuit, two first data cells (D) with the completion of its exit socket's IPv4 (4) and
        IPv6 (6) transport, i.e. cells of one circuit arrive at every point of the other socket's opening phase."""
        _random.seed(self.sc_seed ^ 0x5DEECE66D)      # not the stream of self.rng: ids drawn by the code must not repeat ids the harness forges
        self.w = World(4, self.rng)
        w = self.w
        try:
            self.lines.append("reset 4")
            self.expect.append({"sends": [], "tables": None, "log": [], "step": -1, "kind": "reset"})
            keys = {"A": self.act_open((1, hops, 3)), "B": self.act_open((2, hops, 3))}
            self.flush()
            self.refresh_bk()
            if any(k is None or not self.circs[k].get("ready") for k in keys.values()):
                self.ctx.count("opening:setup-incomplete")
                return
            for which, ev in seq:
                if self.failed:
                    break
                key = keys[which]
                bk = self.circs[key]
                if ev == "D":
                    self.act_send_data((key, bk))
                    self.flush(gates=False)
                else:
                    gs = self.live_gates()
                    k = next((i for i, (sock, fam, _) in enumerate(gs)
                              if fam == ev and sock.hop.keys is not None and sock.hop.keys.key_forward == bk["exit_key"]),
                             None)
                    if k is None:
                        self.ctx.count("opening:gate-not-pending")
                        continue
                    self.act_gate(k)
            if not self.failed:
                self.final_probe()
            # every data packet of the scenario must have left, each through its own circuit's socket (O1 checked that)
            if not self.failed:
                sent = sum(1 for (_, e) in seq if e == "D") + 2
                if len(w.exit_log) != sent:
                    self.fail("TunnelExitSocket.sendto:parked-packet-lost-or-duplicated",
                              f"{sent} data cells reached exit node 3 while its sockets were opening, {len(w.exit_log)} "
                              f"datagrams left", {"seq": seq, "hops": hops})
            self.ctx.count("opening:histories")
        finally:
            w.close()

    def final_probe(self):
        """O5: every circuit that is still READY at its originator carries a round trip."""
        w = self.w
        self.flush()
        for key, bk in self.ready_circuits():
            if self.failed:
                return
            o, cid = key
            if any(h.keys is not None and h.keys.key_forward in self.cut_keys for h in w.ov(o).circuits[cid].hops):
                self.ctx.count("probe:skipped-cut-circuit")
                continue
            seq = self.act_send_data((key, bk))
            self.flush()
            got = [r for r in w.exit_log if parse_tag(r[4]) == ("F", o, cid, seq)]
            if len(got) != 1:
                self.fail("history:circuit-broken", f"circuit {cid} of node {o} is READY but its data did not leave an exit "
                          f"({len(got)} deliveries)", {"circuit": [o, cid]})
                return
            ent = self.exit_entry_of(key)
            if ent is None:
                self.fail("history:circuit-broken", f"exit entry of circuit {cid} of node {o} vanished")
                return
            seq2 = self.act_reply(ent)
            self.flush()
            got = [r for r in w.orig_log if parse_tag(r[3]) == ("B", o, cid, seq2)]
            if len(got) != 1:
                self.fail("history:circuit-broken", f"reply on circuit {cid} of node {o} did not reach its originator "
                          f"({len(got)} deliveries)", {"circuit": [o, cid]})
                return
            self.ctx.count("probe:roundtrip-ok")

    def sweep(self):
        """Thorough tier: every id in use at every node (plus one unknown id per node) x every forged kind x
        every sender class x every destroy mode / signer, on the network as it stands."""
        w = self.w
        self.flush()
        targets = []
        for i in range(1, w.n + 1):
            o = w.ov(i)
            for cid in list(o.circuits) + list(o.relay_from_to) + list(o.exit_sockets):
                targets.append((i, cid))
            targets.append((i, 0xC0500000 + i))
        for (i, cid) in targets:
            srcs = [w.addr(w.n + 1), ("9.9.9.9", 99)] + [w.addr(j) for j in range(1, w.n + 1) if j != i]
            for kind in ("junk", "splice", "pt_create", "pt_created", "pt_other", "clear"):
                for src in srcs:
                    if self.failed:
                        return
                    if not (self.in_use(i, cid) or cid >> 20 == 0xC05):
                        continue
                    self.force = {"kind": kind, "target": (i, cid), "src": src}
                    self.act_forge()
                    self.ctx.count("sweep:" + kind)
            for mode in ("outsider", "adjacent-badsig", "adjacent-tampered-id", "wrong-side"):
                if self.failed:
                    return
                if self.in_use(i, cid) or cid >> 20 == 0xC05:
                    self.force = {"kind": "destroy", "target": (i, cid), "src": srcs[0], "mode": mode}
                    self.act_forge()
                    self.ctx.count("sweep:destroy-" + mode)
            for signer in range(1, w.n + 1):
                if self.failed:
                    return
                # every node as signer, valid signature; the adjacent one goes last so the entry survives the others
                if signer != i and (self.in_use(i, cid)):
                    adj = self.adjacent_peer(i, cid)
                    if adj is not None and w.key_idx.get(adj) == signer:
                        continue
                    self.force = {"kind": "destroy", "target": (i, cid), "src": srcs[1], "mode": "other-node",
                                  "signer": signer}
                    self.act_forge()
                    self.ctx.count("sweep:destroy-signer")
        self.force = {}

    def run(self):
        ctx, rng = self.ctx, self.rng
        _random.seed(self.sc_seed ^ 0x5DEECE66D)      # not the stream of self.rng: ids drawn by the code must not repeat ids the harness forges
        n = rng.randint(4, 6)
        delay = 5 if rng.random() < 0.3 else 0          # production default vs. the unit tests' setting
        gated = rng.random() < 0.25                     # should_join_circuit overridden by a suspending policy hook
        ctx.count(f"remove_tunnel_delay:{delay}")
        ctx.count(f"should_join_circuit:{'suspending-hook' if gated else 'stock'}")
        self.w = World(n, rng, delay, gated=gated)
        try:
            self.lines.append(f"reset {n}" + (" defer" if delay else "") + (" gated" if gated else ""))
            self.expect.append({"sends": [], "tables": None, "log": [], "step": -1, "kind": "reset"})
            ncirc = rng.randint(1, 6)
            ctx.count(f"nodes:{n}")
            ctx.count(f"circuits:{ncirc}")
            for _ in range(rng.randint(1, ncirc)):
                self.act_open()
            opened = len(self.circs)
            steps = rng.randint(40, 70)
            # a build phase with interleaved deliveries, then the mixed phase
            for t in range(steps):
                if self.failed or (self.stop_at is not None and self.stepno >= self.stop_at):
                    break
                r = rng.random()
                if self.w.gated and rng.random() < 0.35:
                    self.act_join_gate()
                early = t < steps // 3
                if opened < ncirc and r < 0.08:
                    self.act_open()
                    opened = len(self.circs)
                elif r < (0.75 if early else 0.42):
                    self.act_deliver()
                elif r < 0.56:
                    self.act_send_data()
                elif r < 0.63:
                    self.act_reply()
                elif r < 0.66:
                    self.act_ping()
                elif r < 0.69:
                    self.act_legit_destroy()
                elif r < 0.72:
                    self.act_advance()
                elif r < 0.76:
                    self.act_redirect()
                elif r < 0.83:
                    self.act_gate()
                elif r < 0.85:
                    self.act_reply_stale()
                elif r < 0.88:
                    self.act_reply_nested()
                elif r < 0.89:
                    self.act_send_unfinished()
                elif r < 0.90:
                    self.act_endpoint_send()
                elif r < 0.93:
                    self.act_adversarial_extend()
                elif r < 0.97 and self.w.gated:
                    self.act_join_gate()
                else:
                    self.act_forge()
            if not self.failed and self.stop_at is None and self.do_sweep:
                self.sweep()
            if not self.failed and self.stop_at is None:
                self.final_probe()
            ctx.count("exceptions_escaping_notify_listeners", self.w.raised)
        finally:
            self.w.close()


# ================================================================================================================
# model side: parse replies and diff
# ================================================================================================================
def parse_reply(r: str):
    """`S=a,b,..;a,b,.. T=C:..|R:..|E:..|Q:..|P:.. L=..`  ->  dict"""
    out = {"sends": [], "tables": None, "log": []}
    for tok in r.split(" "):
        if tok.startswith("S="):
            body = tok[2:]
            for s in filter(None, body.split(";")):
                f = s.split(",")
                out["sends"].append((int(f[0]), f[1], int(f[2]), int(f[3]), int(f[4]), int(f[5]), int(f[6])))
        elif tok.startswith("L="):
            for s in filter(None, tok[2:].split(";")):
                f = s.split(",")
                out["log"].append((f[0], int(f[1]), int(f[2]), int(f[3]), int(f[4])))
        elif tok.startswith("T="):
            if tok == "T=-":
                continue
            t = {}
            for part in tok[2:].split("|"):
                name, _, body = part.partition(":")
                rows = []
                for row in filter(None, body.split(";")):
                    rows.append(row.split(","))
                t[name] = rows
            out["tables"] = t
    return out


class KeyMap:
    """bijection real key bytes <-> model key id, grown on first sight"""

    def __init__(self):
        self.fwd, self.bwd = {b"": 0}, {0: b""}

    def match(self, real: bytes, model: int) -> bool:
        if real in self.fwd:
            return self.fwd[real] == model
        if model in self.bwd:
            return False
        self.fwd[real] = model
        self.bwd[model] = real
        return True


def tables_equal(real: dict, model: dict, km: KeyMap) -> str | None:
    def ints(row):
        return [int(x) for x in row]
    # rows are compared as sets keyed by circuit id (dict insertion order is an implementation detail)
    real = {k: (sorted(v, key=lambda r: r[0]) if k in "CRE" else v) for k, v in real.items()}
    model = {k: (sorted(v, key=lambda r: int(r[0])) if k in "CRE" else v) for k, v in model.items()}
    rc, mc = real["C"], model.get("C", [])
    if len(rc) != len(mc):
        return f"circuits: {len(rc)} real vs {len(mc)} model"
    for a, b in zip(rc, mc):
        keys = [int(x) for x in b[2].split("/") if x != ""] if len(b) > 2 else []
        if [a[0], a[1]] != [int(b[0]), int(b[1])] or len(keys) != len(a[2]) \
                or not all(km.match(x, y) for x, y in zip(a[2], keys)) or list(a[3:]) != ints(b[3:]):
            return f"circuit entry real {a[:2] + (len(a[2]),) + a[3:]} vs model {b}"
    rr, mr = real["R"], model.get("R", [])
    if len(rr) != len(mr):
        return f"relays: {len(rr)} real vs {len(mr)} model"
    for a, b in zip(rr, mr):
        bi = ints(b)
        if list(a[:4]) != bi[:4] or not km.match(a[4], bi[4]) or list(a[5:]) != bi[5:]:
            return f"relay entry real {a[:4] + a[5:]} vs model {b}"
    re_, me = real["E"], model.get("E", [])
    if len(re_) != len(me):
        return f"exit sockets: {len(re_)} real vs {len(me)} model"
    for a, b in zip(re_, me):
        bi = ints(b)
        if list(a[:3]) != bi[:3] or not km.match(a[3], bi[3]) or list(a[4:]) != bi[4:]:
            return f"exit entry real {a[:3] + a[4:]} vs model {b}"
    if sorted(real["Q"]) != sorted(int(x[0]) for x in model.get("Q", [])):
        return f"created-cache real {sorted(real['Q'])} vs model {model.get('Q')}"
    rp = sorted(tuple(x) for x in real["P"])
    mp = sorted(tuple(ints(x)) for x in model.get("P", []))
    if rp != mp:
        return f"create-cache real {rp} vs model {mp}"
    return None


def compare(ctx: Ctx, h: History, replies: list[str]):
    km = KeyMap()
    for line, exp, rep in zip(h.lines, h.expect, replies):
        if exp["kind"] in ("reset",):
            if rep != "ok":
                ctx.disagree(f"model answered {rep!r} to `{line}`", {"sc_seed": h.sc_seed, "step": exp["step"]})
                return
            continue
        m = parse_reply(rep)
        why = None
        # sends: destination, kind, circuit id, plaintext flag, relay_early flag, and for plaintext cells msg id + identifier
        rs = [(s[0], s[1], s[2], s[3], s[4], s[5] if s[1] == "destroy" or s[3] else 0,
               s[6] if s[1] == "destroy" or s[3] else 0) for s in exp["sends"]]
        ms = [(s[0], s[1], s[2], s[3], s[4], s[5] if s[1] == "destroy" or s[3] else 0,
               s[6] if s[1] == "destroy" or s[3] else 0) for s in m["sends"]]
        if rs != ms:
            why = f"datagrams sent: real {rs} vs model {ms}"
        elif exp["tables"] is not None and m["tables"] is None:
            why = "model reported no tables"
        elif exp["tables"] is not None:
            why = tables_equal(exp["tables"], m["tables"], km)
        if why is None:
            rl = [(k, a, b, c, (lambda t: tag_num(t[0], t[1], t[2], t[3]) if t else -1)(parse_tag(d)))
                  for (k, a, b, c, d) in exp["log"]]
            if rl != m["log"]:
                why = f"delivery log: real {rl} vs model {m['log']}"
        if why:
            ctx.disagree(f"history {h.sc_seed} step {exp['step']} `{line}`: {why}",
                         {"sc_seed": h.sc_seed, "step": exp["step"], "line": line, "model_reply": rep,
                          "lines": h.lines[:exp['step'] + 2][-15:]})
            return


# ================================================================================================================
def run_histories(ctx: Ctx, count: int, use_model: bool, sweeps: int = 0):
    for k in range(count):
        sc_seed = ctx.rng.getrandbits(48)
        h = History(ctx, sc_seed, do_sweep=k < sweeps)
        h.run()
        if k < 2:
            ctx.sample({"sc_seed": sc_seed, "lines": h.lines[:14]})
        if use_model and not h.failed:
            replies = ctx.driver().batch(h.lines)
            compare(ctx, h, replies)
        fresh = [f for f in ctx.failures if not f["signature"].endswith("third-party-data-delivered-while-extending")]
        if len(fresh) >= 3 or len(ctx.disagreements) >= 12:
            break


def opening_sequences():
    """All interleavings of two circuits' [first data, second data, IPv4 transport open, IPv6 transport open + flush]
    with D first, 4 before 6 (3 orders per circuit, C(8,4) merges: 630 sequences)."""
    from itertools import combinations
    per = [["D", "D", "4", "6"], ["D", "4", "D", "6"], ["D", "4", "6", "D"]]
    for a in per:
        for b in per:
            for pos in combinations(range(8), 4):
                seq, ia, ib = [], 0, 0
                for k in range(8):
                    if k in pos:
                        seq.append(("A", a[ia]))
                        ia += 1
                    else:
                        seq.append(("B", b[ib]))
                        ib += 1
                yield seq


def run_openings(ctx: Ctx, use_model: bool):
    seqs = list(opening_sequences())
    if not ctx.thorough():
        seqs = ctx.rng.sample(seqs, 40)
    for k, seq in enumerate(seqs):
        sc_seed = ctx.rng.getrandbits(48)
        h = History(ctx, sc_seed)
        h.opening = {"seq": seq, "hops": 1 + k % 2}
        h.run_opening(seq, 1 + k % 2)
        if use_model and not h.failed:
            compare(ctx, h, ctx.driver().batch(h.lines))
        fresh = [f for f in ctx.failures if not f["signature"].endswith("third-party-data-delivered-while-extending")]
        if len(fresh) >= 3 or len(ctx.disagreements) >= 12:
            break
    ctx.extra["opening_phase_enumeration"] = {"sequences_run": len(seqs), "of": 630,
                                              "exhaustive": ctx.thorough()}


def reuse_orders():
    from itertools import permutations
    return ["".join(p) for p in permutations("XRFB") if p.index("F") < p.index("B")]


def run_reuses(ctx: Ctx, use_model: bool):
    n = 0
    for second in ("originator", "outsider"):
        for order in reuse_orders():
            h = History(ctx, ctx.rng.getrandbits(48))
            h.reuse = {"order": order, "second": second}
            h.run_reuse(order, second)
            n += 1
            if use_model and not h.failed:
                compare(ctx, h, ctx.driver().batch(h.lines))
            fresh = [f for f in ctx.failures if not f["signature"].endswith("third-party-data-delivered-while-extending")]
            if len(fresh) >= 3 or len(ctx.disagreements) >= 12:
                return
    m = 0
    for late, rest in ((55, 6), (52, 9), (51, 58), (30, 8)):
        for second in ("originator", "outsider", "impostor"):
            for destroy_first in (True, False):
                h = History(ctx, ctx.rng.getrandbits(48))
                h.expiry = {"late": late, "rest": rest, "second": second, "destroy_first": destroy_first}
                h.run_expiry(late, rest, second, destroy_first)
                m += 1
                if use_model and not h.failed:
                    compare(ctx, h, ctx.driver().batch(h.lines))
                fresh = [f for f in ctx.failures if not f["signature"].endswith("third-party-data-delivered-while-extending")]
                if len(fresh) >= 3 or len(ctx.disagreements) >= 12:
                    return
    for _ in range(ctx.scale(1, 3)):
        h = History(ctx, ctx.rng.getrandbits(48))
        h.search = {"unknown_cid": 0xDEAD0000 + ctx.rng.getrandbits(12)}
        h.run_identifier_search(h.search["unknown_cid"])
        if use_model and not h.failed:
            compare(ctx, h, ctx.driver().batch(h.lines))
        fresh = [f for f in ctx.failures if not f["signature"].endswith("third-party-data-delivered-while-extending")]
        if len(fresh) >= 3 or len(ctx.disagreements) >= 12:
            return
    for delay, wait in ((5, 10.5), (5, 3), (0, 10.5)):
        h = History(ctx, ctx.rng.getrandbits(48))
        h.closing = {"delay": delay, "wait": wait}
        h.run_closing_hopless(delay, wait)
        if use_model and not h.failed:
            compare(ctx, h, ctx.driver().batch(h.lines))
    for side, destroy, delay in ((0, False, 0), (1, False, 0), (0, True, 0), (1, True, 5), (0, False, 5)):
        h = History(ctx, ctx.rng.getrandbits(48))
        h.half = {"side": side, "destroy": destroy, "delay": delay}
        h.run_half_relay(side, destroy, delay)
        if use_model and not h.failed:
            compare(ctx, h, ctx.driver().batch(h.lines))
    for hops, built in ((2, 1), (3, 1), (3, 2), (2, 0), (1, 1)):
        h = History(ctx, ctx.rng.getrandbits(48))
        h.epsend = {"hops": hops, "built": built}
        h.run_endpoint_send(hops, built)
        if use_model and not h.failed:
            compare(ctx, h, ctx.driver().batch(h.lines))
    h = History(ctx, ctx.rng.getrandbits(48))
    h.dual = True
    h.run_dualstack()
    if use_model and not h.failed:
        compare(ctx, h, ctx.driver().batch(h.lines))
    for same_key in (True, False):
        for same_hash in (True, False):
            h = History(ctx, ctx.rng.getrandbits(48))
            h.intro = {"same_key": same_key, "same_hash": same_hash, "via": "owner"}
            h.run_intro_points(same_key, same_hash, "owner")      # oracle only: hidden services are not in the driver
    for cookies, intros, how in ((1, 1, "owner-destroys"), (2, 0, "owner-destroys"), (3, 2, "exit-removes"), (2, 1, "exit-removes")):
        h = History(ctx, ctx.rng.getrandbits(48))
        h.rdv = {"cookies": cookies, "intros": intros, "how": how}
        h.run_rendezvous(cookies, intros, how)                     # oracle only, like the introduction-point family
    if len([f for f in ctx.failures if not f["signature"].endswith("third-party-data-delivered-while-extending")]) >= 3:
        return
    k = 0
    for delay in (0, 5):
        for when in ("at-once", "after-ready"):
            for wait in (0, 2, 6):
                h = History(ctx, ctx.rng.getrandbits(48))
                h.late = {"delay": delay, "when": when, "wait": wait}
                h.run_late_created(delay, when, wait)
                k += 1
                if use_model and not h.failed:
                    compare(ctx, h, ctx.driver().batch(h.lines))
                fresh = [f for f in ctx.failures if not f["signature"].endswith("third-party-data-delivered-while-extending")]
                if len(fresh) >= 3 or len(ctx.disagreements) >= 12:
                    return
    ctx.extra["id_reuse_enumeration"] = {"orders": len(reuse_orders()), "second_party": 2, "histories": n,
                                         "partial_expiry_histories": m, "late_created_histories": k}


def run(ctx: Ctx):
    import logging
    logging.disable(logging.CRITICAL)
    if ctx.replay_input is not None:
        return replay(ctx, ctx.replay_input)
    run_reuses(ctx, ctx.model_ok)
    run_openings(ctx, ctx.model_ok)
    run_histories(ctx, ctx.scale(300, 4000), ctx.model_ok, sweeps=ctx.scale(2, 60))


def search(ctx: Ctx, reason: str):
    run_reuses(ctx, False)
    run_openings(ctx, False)
    run_histories(ctx, 300, False)


def replay(ctx: Ctx, rec: dict):
    r = rec.get("replay", rec)
    h = History(ctx, r["sc_seed"], stop_at=None, verbose=True, do_sweep=bool(r.get("sweep")))
    if r.get("rdv"):
        h.rdv = r["rdv"]
        h.run_rendezvous(**r["rdv"])
    elif r.get("half"):
        h.half = r["half"]
        h.run_half_relay(**r["half"])
    elif r.get("epsend"):
        h.epsend = r["epsend"]
        h.run_endpoint_send(**r["epsend"])
    elif r.get("closing"):
        h.closing = r["closing"]
        h.run_closing_hopless(**r["closing"])
    elif r.get("intro"):
        h.intro = r["intro"]
        h.run_intro_points(**r["intro"])
    elif r.get("dual"):
        h.dual = True
        h.run_dualstack()
    elif r.get("search"):
        h.search = r["search"]
        h.run_identifier_search(r["search"]["unknown_cid"])
    elif r.get("late"):
        h.late = r["late"]
        h.run_late_created(**r["late"])
    elif r.get("expiry"):
        h.expiry = r["expiry"]
        h.run_expiry(**r["expiry"])
    elif r.get("reuse"):
        h.reuse = r["reuse"]
        h.run_reuse(r["reuse"]["order"], r["reuse"]["second"])
    elif r.get("opening"):
        h.opening = r["opening"]
        h.run_opening([tuple(x) for x in r["opening"]["seq"]], r["opening"]["hops"])
    else:
        h.run()
    print("replay:", "property FAILS" if h.failed else "no oracle failure")
