"""
C11 — an unloaded overlay is silent and holds no resources.

Link to the code (all three are re-run on every check):
  * translator tools/gen_c11.py regenerates lean/Ipv8/C11/GenOverlays.lean from the working tree: the list of shipped
    overlay classes, the flattened statement sequence of their `unload` chain, what their constructors install, and
    whether TunnelEndpoint forwards remove_listener.  The script theorems in Props.lean are proved over that table.
  * correspondence (driver drv_c11): random op sequences against
      - the real listener registry (Endpoint / TunnelEndpoint / PythonCryptoEndpoint proxies) vs the registry model,
      - the real TaskManager under the virtual clock vs the scheduler model (register / cancel / replace / settle /
        advance / shutdown, with stubborn tasks that take time to die),
      - the real RequestCache vs the cache model,
      - every shipped overlay class loaded and unloaded on both endpoint stacks vs the interpreted generated script.
  * oracle (implementation only): scripted protocol runs of every shipped overlay class with DEFAULT settings on the
    repo's mock network under the virtual clock; unload is requested at a chosen packet index or virtual time; then late
    datagrams (replays of everything the node ever received + every message id) and two virtual hours; monitors: sends,
    handler entries, task bodies, pending futures, probes of register_task/replace_task/RequestCache.add, open exit
    transports.
"""
from __future__ import annotations

import asyncio
import logging
import os
import random
import socket
import sys

from vlib import Ctx, InfraError, TranslatorError  # noqa: F401

PROPERTY = "C11"
LEAN_TARGETS = ["Ipv8.C11.Props"]
PROPS_FILE = "Ipv8/C11/Props.lean"
DRIVER = "drv_c11"
RULE = ("registry/taskmanager/requestcache: random op sequences (lengths 4-40) over small name/prefix alphabets, distinct = "
        "distinct op sequence, non-trivial = contains the op under test after at least 3 other ops; "
        "scenarios: (overlay class, endpoint stack, scenario family, target role, unload trigger) with the trigger either "
        "a packet index of the run or a virtual time; distinct = distinct tuple; non-trivial = the unloaded overlay had "
        "sent or received at least one datagram, or owned at least one unfinished task, when unload was requested")
TRUSTED_BASE = [
    "tools/gen_c11.py: AST translation of the unload() chain of every shipped overlay class into a small op vocabulary (unknown statements are rejected)",
    "hand-written Lean models of the listener registry, TaskManager/asyncio cancellation rules and RequestCache (Ipv8/C11/Model.lean), tied by the correspondence run",
    "asyncio's scheduling rules as encoded in the scheduler model (cancellation is delivered on a later loop iteration; done callbacks run after completion); tools/vclock.py ties virtual time to CPython's loop",
    "the repo's mock network (ipv8/test/mocking) as the transport in scenario runs; the Rust extension ipv8_rust_tunnels for the real tunnel crypto (not modelled: C11 needs no crypto law)",
]
ASSUMPTIONS = [
    "an overlay's tasks are only created through its TaskManager API (register_task/replace_task/@task) — tasks spawned with bare ensure_future are outside the model and only watched by the scenario oracle (sends, open transports)",
    "listener ids added to the registry after unload are not the unloaded overlay nor a proxy forwarding to it (hypothesis `Foreign` of silent_after_unload)",
    "scenario runs use the mock network; kernel sockets are only opened by tunnel exit sockets (real UDP sockets bound to 0.0.0.0/:: port 0)",
]

LATE_SECONDS = 45.0
TWO_HOURS = 7200.0


# ======================================================================================================
# part 1: scenario oracle on the real overlays
# ======================================================================================================
class Sim:
    """One scenario run: nodes on the mock network, a recording tap, the unload trigger and the monitors."""

    current: "Sim | None" = None

    def __init__(self, loop):
        self.loop = loop
        self.nodes = []
        self.step = 0                     # packets sent so far (all nodes)
        self.trigger_step = None
        self.target = None                # Node whose overlay gets unloaded
        self.unload_started = None
        self.unload_done = None           # virtual time at which unload() returned
        self.unload_error = None
        self.violations = []              # (signature, what)
        self.task_records = []            # (manager, name, future, is_callable)
        self.transports = []              # (exit_socket, transport)
        self.received = {}                # endpoint -> list of (src, data)
        self.quiet = False                # True while the harness itself pokes at the overlay
        self.stats = {"pre_sent": 0, "pre_recv": 0, "pre_tasks": 0}
        self.seen_ids = set()
        self._unload_task = None
        self.trigger_mark = None          # (event, occurrence, "iter"|"time", value): unload relative to a marked event
        self.mark_counts = {}
        self.loop_transports = []         # (owner overlay or None, transport) for every loop.create_datagram_endpoint
        self.socket_baseline = None
        self.app_jobs = []                # application-owned API coroutines kept in flight across the unload

    # ---- bookkeeping -------------------------------------------------------------------------------
    def owned_managers(self):
        """TaskManagers that belong to the unloaded overlay: itself, its request cache, its exit sockets."""
        ov = self.target.overlay
        owned = [ov]
        rc = getattr(ov, "request_cache", None)
        if rc is not None:
            owned.append(rc)
        for m, _, _, _ in self.task_records:
            if getattr(m, "overlay", None) is ov and m not in owned:
                owned.append(m)
        return owned

    def violate(self, sig, what):
        if all(v[0] != sig for v in self.violations):      # first occurrence per signature and run
            self.violations.append((sig, what))

    def after_unload(self):
        return self.unload_done is not None and not self.quiet

    def on_send(self, ep, addr, packet):
        self.step += 1
        node = ep.node
        if len(packet) > 22:
            self.seen_ids.add(packet[22])
        if self.target is not None and node is self.target:
            if self.unload_started is None:
                self.stats["pre_sent"] += 1
            if self.after_unload() and packet[:22] == self.target.prefix:
                self.violate("endpoint.send:after-unload",
                             f"{type(self.target.overlay).__name__} sent msg id {packet[22] if len(packet) > 22 else -1} "
                             f"{self.loop.time() - self.unload_done:.1f} virtual s after unload() returned")
        if self.trigger_step is not None and self.step - 1 == self.trigger_step and self.unload_started is None:
            self.request_unload()

    def mark(self, event, node):
        """A scenario / hook announces an event of `node` (API call started, socket acquisition started, ...)."""
        if node is None or node is not self.target or self.unload_started is not None:
            return
        j = self.mark_counts.get(event, 0)
        self.mark_counts[event] = j + 1
        tm = self.trigger_mark
        if tm is None or tm[0] != event or tm[1] != j:
            return
        if tm[2] == "time":
            self.loop.call_later(tm[3], self.request_unload)
            return

        def countdown(k):
            if k <= 0:
                self.request_unload()
            else:
                self.loop.call_soon(countdown, k - 1)
        countdown(tm[3])

    def strategy_stepped(self, strategy):
        if self.target is not None and self.after_unload() and getattr(strategy, "overlay", None) is self.target.overlay:
            self.violate("strategy.take_step:after-unload",
                         f"the service stepped {type(strategy).__name__} of the unloaded {type(self.target.overlay).__name__} "
                         f"{self.loop.time() - self.unload_done:.1f} virtual s after unload_overlay() returned")

    def node_of_overlay(self, ov):
        for nd in self.nodes:
            if nd.overlay is ov:
                return nd
        return None

    def on_receive(self, ep, packet):
        self.received.setdefault(ep, []).append(packet)
        if self.target is not None and ep.node is self.target and self.unload_started is None:
            self.stats["pre_recv"] += 1

    def request_unload(self):
        if self.unload_started is not None or self.target is None:
            return
        self.unload_started = self.loop.time()
        ov = self.target.overlay
        self.stats["pre_tasks"] = sum(1 for m, _, f, _ in self.task_records
                                      if (m is ov or getattr(m, "overlay", None) is ov
                                          or m is getattr(ov, "request_cache", None)) and not f.done())

        async def do():
            try:
                svc = getattr(self.target, "service", None)
                if svc is not None:
                    await svc.unload_overlay(ov)      # the way an application unloads an overlay of a running service
                else:
                    await ov.unload()
            except Exception as e:  # noqa: BLE001
                self.unload_error = f"{type(e).__name__}: {e}"
            self.unload_done = self.loop.time()

        self._unload_task = asyncio.ensure_future(do())

    def handler_entered(self, node, kind, msg_id):
        if node is self.target and self.after_unload():
            self.violate("on_packet:handler-after-unload",
                         f"{type(node.overlay).__name__} ran its {kind} handler for msg id {msg_id} "
                         f"{self.loop.time() - self.unload_done:.1f} virtual s after unload() returned")

    def task_body_ran(self, manager, name):
        if self.target is None or not self.after_unload():
            return
        ov = self.target.overlay
        if manager is ov or manager is getattr(ov, "request_cache", None) or getattr(manager, "overlay", None) is ov:
            self.violate("taskmanager:task-ran-after-unload",
                         f"task {name!r} of {type(manager).__name__} ({type(ov).__name__}) ran "
                         f"{self.loop.time() - self.unload_done:.1f} virtual s after unload() returned")


class Node:
    def __init__(self, sim, overlay, endpoint, base_endpoint):
        self.sim = sim
        self.overlay = overlay
        self.endpoint = endpoint
        self.base = base_endpoint
        self.prefix = overlay.get_prefix()
        base_endpoint.node = self


_PATCHED = {}
_PATCHED_CACHE = {}


def install_patches():
    """Harness-side observation points (no repo change): every patch delegates to the original."""
    if _PATCHED:
        return
    from asyncio import iscoroutinefunction

    import ipv8.overlay as ov_mod
    from ipv8.messaging.anonymization import exit_socket as es_mod
    from ipv8.taskmanager import TaskManager
    from ipv8.test.mocking.endpoint import AutoMockEndpoint
    AutoMockEndpoint.SEND_INET_EXCEPTION_TO_LOOP = False

    orig_register = TaskManager.register_task

    def register_task(self, name, user_task, *args, **kwargs):
        sim = Sim.current
        is_callable = callable(user_task)
        if sim is not None and is_callable and not sim.quiet:
            inner = user_task
            if iscoroutinefunction(inner):
                async def wrapped(*a):
                    s = Sim.current
                    if s is not None:
                        s.task_body_ran(self, name)
                    return await inner(*a)
            else:
                def wrapped(*a):
                    s = Sim.current
                    if s is not None:
                        s.task_body_ran(self, name)
                    return inner(*a)
            user_task = wrapped
        fut = orig_register(self, name, user_task, *args, **kwargs)
        if sim is not None and not sim.quiet:
            sim.task_records.append((self, name, fut, is_callable))
        return fut

    TaskManager.register_task = register_task
    _PATCHED["register_task"] = orig_register

    orig_open = es_mod.TunnelProtocol.open

    async def tp_open(self):
        transport = await orig_open(self)
        sim = Sim.current
        if sim is not None:
            sim.transports.append((getattr(self.received_cb, "__self__", None), transport))
        return transport

    es_mod.TunnelProtocol.open = tp_open

    orig_enable = es_mod.TunnelExitSocket.enable

    def enable(self):
        sim = Sim.current
        if sim is not None and not self.enabled:
            sim.mark("enable", sim.node_of_overlay(self.overlay))
        return orig_enable(self)

    es_mod.TunnelExitSocket.enable = enable
    _PATCHED["enable"] = orig_enable
    _PATCHED["tp_open"] = orig_open
    # LAN address discovery runs in a thread pool (real time): keep the periodic task, make its body deterministic
    ov_mod.get_providers = lambda: []
    logging.disable(logging.CRITICAL)


def make_endpoint_class():
    from ipv8.test.mocking.endpoint import AutoMockEndpoint

    class RecEndpoint(AutoMockEndpoint):
        node = None

        def send(self, socket_address, packet):
            sim = Sim.current
            if sim is not None:
                sim.on_send(self, socket_address, packet)
            try:
                super().send(socket_address, packet)
            except AssertionError:
                pass    # unknown mock address: a UDP socket would not raise either

        def notify_listeners(self, packet):
            sim = Sim.current
            if sim is not None:
                sim.on_receive(self, packet)
            super().notify_listeners(packet)

    return RecEndpoint


def overlay_classes():
    """name -> class for every shipped overlay class (same list as the translator's, see gen_c11.CLASSES)."""
    import gen_c11
    if "classes" not in _PATCHED_CACHE:
        _PATCHED_CACHE["classes"] = gen_c11.load_classes()
    return _PATCHED_CACHE["classes"]


def build_node(sim, cls, stack, flags=None):
    from ipv8.keyvault.crypto import default_eccrypto
    from ipv8.messaging.anonymization.endpoint import TunnelEndpoint
    from ipv8.peer import Peer
    from ipv8.peerdiscovery.network import Network
    rec = make_endpoint_class()()
    rec.open()
    endpoint = TunnelEndpoint(rec) if stack == "tunnel-endpoint" else rec
    peer = Peer(default_eccrypto.generate_key("curve25519"), rec.wan_address)
    settings = cls.settings_class(my_peer=peer, endpoint=endpoint, network=Network())   # DEFAULT settings
    name = cls.__name__
    if name in ("AttestationCommunity", "IdentityCommunity"):
        settings.working_directory = ":memory:"          # storage location only
    if name == "PexCommunity":
        settings.info_hash = b"\x11" * 20
    if flags is not None and hasattr(settings, "peer_flags"):
        settings.peer_flags = set(flags)
    overlay = cls(settings)
    overlay.my_estimated_wan = rec.wan_address
    overlay.my_estimated_lan = rec.lan_address
    node = Node(sim, overlay, endpoint, rec)
    instrument(sim, node)
    sim.nodes.append(node)
    return node


def watch_strategy(sim, strategy):
    orig = strategy.take_step

    def take_step(*a, **k):
        sim.strategy_stepped(strategy)
        return orig(*a, **k)
    strategy.take_step = take_step


def build_service(sim, cls_name, stack, rng):
    """A real ipv8_service.IPv8 with the DEFAULT configuration (all default overlays and walkers) on a mock endpoint.
    Returns the Node of the overlay of class `cls_name`; node.service is the IPv8 instance."""
    import copy

    from ipv8.configuration import get_default_configuration
    from ipv8.messaging.anonymization.endpoint import TunnelEndpoint
    from ipv8.peerdiscovery.discovery import RandomWalk
    from ipv8_service import IPv8
    rec_cls = make_endpoint_class()

    class ServiceEndpoint(rec_cls):
        async def open(self):          # IPv8.start() awaits endpoint.open()
            rec_cls.open(self)
            return True

    rec = ServiceEndpoint()
    endpoint = TunnelEndpoint(rec) if stack == "tunnel-endpoint" else rec
    conf = copy.deepcopy(get_default_configuration())
    conf["logger"] = {"level": "CRITICAL"}
    for key in conf["keys"]:
        key["file"] = ""                      # storage location only
    for o in conf["overlays"]:
        o["bootstrappers"] = []               # no Internet in the sandbox
    svc = IPv8(conf, endpoint_override=endpoint)
    logging.disable(logging.CRITICAL)
    node = None
    for ov in svc.overlays:
        ov.my_estimated_wan = rec.wan_address
        ov.my_estimated_lan = rec.lan_address
        if type(ov).__name__ == cls_name:
            node = Node(sim, ov, endpoint, rec)
    if node is None:
        raise InfraError(f"default configuration has no overlay {cls_name}")
    # more strategies, consecutive and interleaved, for randomly chosen overlays (the application may add any)
    for _ in range(rng.randrange(0, 5)):
        ov = rng.choice(svc.overlays)
        svc.add_strategy(ov, RandomWalk(ov, timeout=3.0), rng.choice([-1, 20]))
    for strategy, _ in svc.strategies:
        watch_strategy(sim, strategy)
    node.service = svc
    node.all_overlays = list(svc.overlays)
    instrument(sim, node)
    sim.nodes.append(node)
    return node


SERVICE_CLASSES = ["DHTDiscoveryCommunity", "DiscoveryCommunity", "HiddenTunnelCommunity"]


async def sc_service(sim, nodes, rng):
    """Real services with the default configuration: tickers drive the walkers; everybody gets introduced."""
    for nd in nodes:
        await nd.service.start()
    await nap(0.2)
    for x in nodes:
        for y in nodes:
            if x is not y:
                for ov in x.all_overlays:
                    if not (x is sim.target and sim.unload_started is not None and ov is x.overlay):
                        guarded(ov.walk_to, y.base.wan_address)
    await nap(rng.choice([2.0, 6.0, 12.0]))


def instrument(sim, node):
    """Count handler entries of this overlay instance (instance attributes only)."""
    ov = node.overlay

    def wrap(h, kind, mid):
        def w(*a, **k):
            sim.handler_entered(node, kind, mid)
            return h(*a, **k)
        return w

    for mid, h in enumerate(ov.decode_map):
        if h is not None:
            ov.decode_map[mid] = wrap(h, "socket", mid)
    priv = getattr(ov, "decode_map_private", None)
    if priv:
        for mid in list(priv):
            priv[mid] = wrap(priv[mid], "circuit", mid)


# ---- scenario scripts (each returns after the scripted activity; unload may hit at any point) -------------------
async def nap(t):
    await asyncio.sleep(t)


async def introduce(nodes):
    for x in nodes:
        for y in nodes:
            if x is not y:
                act(x, "walk_to", y.base.wan_address)
    await nap(0.5)


async def sc_intro(sim, nodes, rng):
    await introduce(nodes)
    for _ in range(3):
        for n in nodes:
            act(n, "get_new_introduction")
        await nap(2.0)


def guarded(f, *a, **k):
    try:
        return f(*a, **k)
    except Exception:  # noqa: BLE001
        return None


def act(node, meth, *a, **k):
    """The application drives an overlay's API only while it has not asked for the unload."""
    sim = node.sim
    if node is sim.target and sim.unload_started is not None:
        return None
    try:
        return getattr(node.overlay, meth)(*a, **k)
    except Exception:  # noqa: BLE001
        return None


async def aact(node, meth, *a, **k):
    sim = node.sim
    if node is sim.target and sim.unload_started is not None:
        return None
    return await aguarded(getattr(node.overlay, meth)(*a, **k))


async def aguarded(coro, timeout=120.0):
    try:
        return await asyncio.wait_for(coro, timeout)
    except (Exception, asyncio.CancelledError):  # noqa: BLE001
        return None


async def sc_discovery(sim, nodes, rng):
    await introduce(nodes)
    for n in nodes:
        for m in nodes:
            if n is not m:
                act(n, "send_similarity_request", m.base.wan_address)
    await nap(1.0)
    for n in nodes:
        for p in list(n.overlay.get_peers()):
            act(n, "send_ping", p)
    await nap(3.0)
    # a ping towards a peer that never answers: its cache must time out (or be shut down)
    from ipv8.keyvault.crypto import default_eccrypto
    from ipv8.peer import Peer
    ghost = Peer(default_eccrypto.generate_key("curve25519"), ("1.2.3.4", 5))
    for n in nodes:
        act(n, "send_ping", ghost)
    await nap(6.0)


async def sc_dht(sim, nodes, rng):
    await introduce(nodes)
    await nap(1.0)
    key = bytes(rng.getrandbits(8) for _ in range(20))
    jobs = [asyncio.ensure_future(aact(nodes[0], "store_value", key, b"value-1", sign=bool(rng.getrandbits(1))))]
    await nap(2.0)
    jobs.append(asyncio.ensure_future(aact(nodes[1], "find_values", key)))
    if hasattr(nodes[0].overlay, "store_peer"):
        jobs.append(asyncio.ensure_future(aact(nodes[2 % len(nodes)], "store_peer")))
        await nap(2.0)
        jobs.append(asyncio.ensure_future(aact(nodes[0], "connect_peer", nodes[2 % len(nodes)].overlay.my_peer.mid)))
    await nap(8.0)
    for j in jobs:
        if not j.done():
            j.cancel()
    await nap(0.1)


async def sc_tunnel(sim, nodes, rng):
    from ipv8.messaging.anonymization.tunnel import PEER_FLAG_EXIT_BT
    await introduce(nodes)
    a = nodes[0]
    hops = sim.hops
    circ = act(a, "create_circuit", hops, exit_flags=[PEER_FLAG_EXIT_BT])
    await nap(1.5)
    bt = b"d1:ad2:id20:abcdefghij0123456789e1:q4:ping1:t2:aa1:y1:qe"
    for i in range(3):
        if circ is not None and circ.hop is not None:
            act(a, "send_data", circ.hop.address, circ.circuit_id, ("127.0.0.1", sim.outside_port),
                ("0.0.0.0", 0), bt)
        await nap(0.7)
    for n in nodes:
        act(n, "do_ping")
    await nap(4.0)
    if circ is not None and rng.random() < 0.5:
        act(a, "remove_circuit", circ.circuit_id, "scenario", destroy=1)
    await nap(7.0)


class _StubKey:
    """Application-side attribute key: only its serialised public part travels in the request."""

    def public_key(self):
        return self

    def serialize(self):
        return b"c11-public-key"


async def sc_attestation(sim, nodes, rng):
    """Attestation requests whose application callback has not answered yet: the handler coroutine is suspended."""
    await introduce(nodes)
    pending = []
    for n in nodes:
        def cb(peer, attribute, metadata, _p=pending):
            f = asyncio.get_running_loop().create_future()
            _p.append(f)
            return f
        n.overlay.attestation_request_callback = cb
    for i, n in enumerate(nodes):
        for m in nodes:
            if n is not m:
                for p in list(n.overlay.get_peers()):
                    if p.address == m.base.wan_address:
                        act(n, "request_attestation", p, f"attr{i}", _StubKey(), {"id_format": "id_metadata"})
        await nap(0.7)
    await nap(3.0)
    sim.app_futures = pending


def silence_peers(sim, nodes, target, rng):
    """Some / all other nodes stop answering (their endpoint is closed): requests towards them stay outstanding."""
    mode = getattr(sim, "silence", "none")
    others = [nd for nd in nodes if nd is not target]
    if mode == "all":
        quiet = others
    elif mode == "half":
        quiet = [nd for i, nd in enumerate(others) if i % 2 == 0]
    else:
        quiet = []
    for nd in quiet:
        nd.base.close()
    return quiet


def start_job(sim, coro):
    async def run():
        try:
            return await coro
        except (Exception, asyncio.CancelledError):  # noqa: BLE001
            return None
    j = asyncio.ensure_future(run())
    sim.app_jobs.append(j)
    return j


INFLIGHT_APIS = {
    "DHTCommunity": ["store_value", "store_value(signed)", "find_values", "find_nodes"],
    "DHTDiscoveryCommunity": ["store_value", "store_value(signed)", "find_values", "find_nodes", "store_peer", "connect_peer"],
    "TunnelCommunity": ["create_circuit", "remove_circuit(delayed)", "dht_peer_lookup"],
    "HiddenTunnelCommunity": ["create_circuit", "remove_circuit(delayed)", "dht_peer_lookup", "create_introduction_point",
                              "create_rendezvous_point", "estimate_swarm_size"],
}


async def sc_inflight(sim, nodes, rng):
    """Public (async) API calls started by the APPLICATION and still in flight — at any of their await points — when
    unload is requested and completes.  The coroutines belong to the application; nobody cancels them."""
    target = sim.target if sim.target is not None else nodes[0]
    ov = target.overlay
    name = type(ov).__name__
    await introduce(nodes)
    await nap(0.5)
    key = bytes(rng.getrandbits(8) for _ in range(20))
    if "DHT" in name:
        # warm-up: a regular lookup and a stored value, so that the caller holds store tokens and a value exists
        for nd in nodes:
            await aguarded(nd.overlay.find_nodes(key), 30)
        await aguarded(nodes[-1 if target is not nodes[-1] else 0].overlay.store_value(key, b"warm-up"), 30)
        await nap(1.0)
    else:
        from ipv8.messaging.anonymization.tunnel import PEER_FLAG_EXIT_BT
        circ = guarded(ov.create_circuit, 1, exit_flags=[PEER_FLAG_EXIT_BT]) if target is not nodes[-1] else None
        await nap(1.5)
    silence_peers(sim, nodes, target, rng)
    sim.mark("api", target)
    other = next(nd for nd in nodes if nd is not target)
    if "DHT" in name:
        start_job(sim, ov.store_value(key, b"value-2"))
        start_job(sim, ov.store_value(bytes(rng.getrandbits(8) for _ in range(20)), b"value-3", sign=True))
        start_job(sim, ov.find_values(key))
        start_job(sim, ov.find_nodes(bytes(rng.getrandbits(8) for _ in range(20))))
        if hasattr(ov, "store_peer"):
            start_job(sim, ov.store_peer())
            start_job(sim, ov.connect_peer(other.overlay.my_peer.mid))
    else:
        from ipv8.messaging.anonymization.tunnel import PEER_FLAG_EXIT_BT
        c2 = guarded(ov.create_circuit, 1, exit_flags=[PEER_FLAG_EXIT_BT])
        if circ is not None:
            guarded(ov.remove_circuit, circ.circuit_id, "application", remove_now=False, destroy=1)
        start_job(sim, ov.dht_peer_lookup(other.overlay.my_peer.mid))
        if hasattr(ov, "create_rendezvous_point"):
            ih = b"\x21" * 20
            guarded(ov.join_swarm, ih, 1, None, True)
            start_job(sim, ov.create_introduction_point(ih))
            start_job(sim, ov.create_rendezvous_point(ih))
            start_job(sim, ov.estimate_swarm_size(ih, 1, 3))
        del c2
    await nap(14.0)


SCENARIOS = {"service": sc_service, "inflight": sc_inflight, "attestation": sc_attestation, "intro": sc_intro, "discovery": sc_discovery, "dht": sc_dht, "tunnel": sc_tunnel}


def scenario_families(cls_name):
    fam = ["intro"]
    if cls_name == "DiscoveryCommunity":
        fam.append("discovery")
    if cls_name == "AttestationCommunity":
        fam.append("attestation")
    if cls_name in ("DHTCommunity", "DHTDiscoveryCommunity"):
        fam.append("dht")
    if cls_name in ("TunnelCommunity", "HiddenTunnelCommunity"):
        fam.append("tunnel")
    if cls_name in INFLIGHT_APIS:
        fam.append("inflight")
    return fam          # (+ family "service" for the classes of the default configuration, see service_specs)


def tunnel_flags(role_index, n, hops):
    from ipv8.messaging.anonymization.tunnel import PEER_FLAG_EXIT_BT, PEER_FLAG_EXIT_IPV8, PEER_FLAG_RELAY, PEER_FLAG_SPEED_TEST
    base = {PEER_FLAG_RELAY, PEER_FLAG_SPEED_TEST}
    if role_index == n - 1:
        return base | {PEER_FLAG_EXIT_BT, PEER_FLAG_EXIT_IPV8}
    return base


def count_socket_fds():
    n = 0
    try:
        for fd in os.listdir("/proc/self/fd"):
            try:
                if os.readlink("/proc/self/fd/" + fd).startswith("socket:"):
                    n += 1
            except OSError:
                pass
    except OSError:
        return None
    return n


def track_loop_sockets(sim):
    """Every UDP socket opened through the loop is recorded when it is created (not when the owner stores it), and the
    start of every acquisition is announced as a mark, attributed to an overlay through the calling frames."""
    loop = sim.loop
    orig = loop.create_datagram_endpoint

    def owner_overlay():
        f = sys._getframe(2)  # noqa: SLF001
        depth = 0
        while f is not None and depth < 25:
            obj = f.f_locals.get("self")
            if obj is not None:
                if any(nd.overlay is obj for nd in sim.nodes):
                    return obj
                ov = getattr(obj, "overlay", None)
                if ov is not None and any(nd.overlay is ov for nd in sim.nodes):
                    return ov
            f = f.f_back
            depth += 1
        return None

    async def create_datagram_endpoint(*a, **k):
        ov = owner_overlay()
        if ov is not None:
            sim.mark("acquire", sim.node_of_overlay(ov))
        transport, protocol = await orig(*a, **k)
        if ov is None:
            cb = getattr(protocol, "received_cb", None)
            ov = getattr(getattr(cb, "__self__", None), "overlay", None)
        sim.loop_transports.append((ov, transport))
        return transport, protocol

    loop.create_datagram_endpoint = create_datagram_endpoint


def run_scenario(spec, dry=False):
    """
    spec: {cls, stack, family, nodes, target, trigger: ["step", k] | ["time", t] | ["idle"], seed, hops}
    Returns (violations, stats).  Runs on a fresh virtual-clock loop.
    """
    import vclock
    install_patches()
    from ipv8.test.mocking import endpoint as mock_ep
    classes = overlay_classes()
    cls = classes[spec["cls"]]
    rng = random.Random(spec["seed"])
    random.seed(spec["seed"])
    loop = vclock.new_loop()
    sim = Sim(loop)
    sim.hops = spec.get("hops", 1)
    Sim.current = sim
    outside = socket.socket(socket.AF_INET, socket.SOCK_DGRAM)
    outside.bind(("127.0.0.1", 0))
    sim.outside_port = outside.getsockname()[1]
    track_loop_sockets(sim)
    try:
        loop.run_until_complete(_scenario_main(sim, cls, spec, rng, dry))
    finally:
        Sim.current = None
        try:
            pending = [t for t in asyncio.all_tasks(loop) if not t.done()]
            for t in pending:
                t.cancel()
            if pending:
                loop.run_until_complete(asyncio.gather(*pending, return_exceptions=True))
            for _, tr in sim.transports + sim.loop_transports:
                if not tr.is_closing():
                    tr.close()
            loop.run_until_complete(asyncio.sleep(0))
            loop.run_until_complete(asyncio.sleep(0))
        except Exception:  # noqa: BLE001
            pass
        outside.close()
        vclock.uninstall()
        loop.close()
        asyncio.set_event_loop(None)
        mock_ep.internet.clear()
    sim.stats["steps"] = sim.step
    sim.stats["ids_seen"] = len(sim.seen_ids)
    return sim.violations, sim.stats


async def _scenario_main(sim, cls, spec, rng, dry):
    loop = sim.loop
    n = spec["nodes"]
    family = spec["family"]
    nodes = []
    for i in range(n):
        if family == "service":
            nodes.append(build_service(sim, spec["cls"], spec["stack"], rng))
            continue
        flags = tunnel_flags(i, n, sim.hops) if family == "tunnel" or hasattr(cls.settings_class, "peer_flags") else None
        nodes.append(build_node(sim, cls, spec["stack"], flags))
    target = nodes[spec["target"]]
    sim.socket_baseline = count_socket_fds()
    sim.silence = spec.get("silence", "none")
    if not dry:
        sim.target = target
        trig = spec["trigger"]
        if trig[0] == "step":
            sim.trigger_step = trig[1]
        elif trig[0] == "time":
            loop.call_later(trig[1], sim.request_unload)
        elif trig[0] == "mark":
            sim.trigger_mark = tuple(trig[1:])
    await SCENARIOS[family](sim, nodes, rng)
    if dry:
        for nd in nodes:
            if getattr(nd, "service", None) is not None:
                await aguarded(nd.service.stop())
            else:
                await aguarded(nd.overlay.unload())
        return
    if sim.unload_started is None:
        sim.request_unload()           # trigger beyond the end of the run / "idle"
    await asyncio.wait_for(asyncio.shield(sim._unload_task), 600)
    if sim.unload_error:
        sim.violate("unload:raised", f"{cls.__name__}.unload() raised {sim.unload_error}")
    ov = target.overlay
    # ---- late phase: the other nodes keep running; late datagrams of every kind reach the unloaded node
    await nap(0.3)
    late_datagrams(sim, target, nodes, rng)
    await nap(1.0)
    probe_api(sim, target)
    for other in nodes:
        if other is not target:
            for oov in getattr(other, "all_overlays", []):
                guarded(oov.walk_to, target.base.wan_address)
            guarded(other.overlay.walk_to, target.base.wan_address)
            if hasattr(other.overlay, "do_ping"):
                guarded(other.overlay.do_ping)
    await nap(LATE_SECONDS)
    late_datagrams(sim, target, nodes, rng, replay_only=True)
    scan_coroutines(sim, target)
    poke_open_transports(sim, ov)
    await nap(1.0)
    # ---- the rest of the world stops; two virtual hours pass
    for f in getattr(sim, "app_futures", []):
        if not f.done():
            f.set_result(None)          # the application answers late: "no attestation"
    for other in nodes:
        if other is not target:
            if getattr(other, "service", None) is not None:
                await aguarded(other.service.stop())
            else:
                await aguarded(other.overlay.unload())
    svc = getattr(target, "service", None)
    if svc is not None:
        # the service of the unloaded overlay keeps ticking its other overlays for two more virtual minutes
        await nap(120.0)
        left = [type(st).__name__ for st, _ in svc.strategies if getattr(st, "overlay", None) is ov]
        if left or ov in svc.overlays:
            sim.violate("IPv8.unload_overlay:strategy-left-registered",
                        f"after unload_overlay({type(ov).__name__}) the service still lists "
                        f"{'the overlay and ' if ov in svc.overlays else ''}its strategies {left}")
        await aguarded(svc.stop())
    await nap(TWO_HOURS)
    final_checks(sim, target)
    for j in sim.app_jobs:
        if not j.done():
            j.cancel()


def late_datagrams(sim, target, nodes, rng, replay_only=False):
    """Replays of every datagram the node ever received, then every message id with random and recorded bodies."""
    ep = target.base
    seen = list(sim.received.get(ep, []))
    others = [nd.base.wan_address for nd in nodes if nd is not target] or [("9.9.9.9", 9)]
    deliver = ep.notify_listeners
    for pkt in seen[-400:]:
        guarded(deliver, pkt)
    if replay_only:
        return
    body_by_id = {}
    for _, data in seen:
        if len(data) > 22:
            body_by_id.setdefault(data[22], data[23:])
    for mid in range(256):
        src = others[mid % len(others)]
        body = body_by_id.get(mid, bytes(rng.getrandbits(8) for _ in range(rng.choice([0, 1, 8, 40, 120]))))
        guarded(deliver, (src, target.prefix + bytes([mid]) + body))
        if mid in body_by_id:
            guarded(deliver, (src, target.prefix + bytes([mid]) + bytes(rng.getrandbits(8) for _ in range(30))))
    guarded(deliver, (others[0], target.prefix))
    guarded(deliver, (others[0], b""))
    guarded(deliver, (others[0], bytes(rng.getrandbits(8) for _ in range(60))))


def poke_open_transports(sim, ov):
    """An outside datagram to every exit transport of the unloaded overlay that is still open."""
    for owner, tr in sim.transports:
        if getattr(owner, "overlay", None) is ov and not tr.is_closing():
            try:
                sock = tr.get_extra_info("socket")
                fam = sock.family
                port = sock.getsockname()[1]
                s = socket.socket(fam, socket.SOCK_DGRAM)
                s.sendto(b"d1:ad2:id20:abcdefghij0123456789e1:q4:ping1:t2:aa1:y1:qe",
                         ("127.0.0.1" if fam == socket.AF_INET else "::1", port))
                s.close()
            except OSError:
                pass


def probe_api(sim, target):
    """After unload: the task manager and the request cache must refuse new work (nothing may ever run)."""
    from ipv8.requestcache import NumberCache
    ov = target.overlay
    ran = sim.probe_ran = []

    def mk(tag):
        def body():
            ran.append(tag)
        return body

    sim.quiet = True
    futs = []
    try:
        for m in sim.owned_managers():
            tag = type(m).__name__
            for how, call in (("register_task", lambda m=m, tag=tag: m.register_task("c11-probe", mk(tag + ".register_task"))),
                              ("register_task(delay)", lambda m=m, tag=tag: m.register_task("c11-probe-d", mk(tag + ".register_task(delay)"), delay=1.0)),
                              ("register_task(interval)", lambda m=m, tag=tag: m.register_task("c11-probe-i", mk(tag + ".register_task(interval)"), interval=5.0)),
                              ("register_anonymous_task", lambda m=m, tag=tag: m.register_anonymous_task("c11-probe-a", mk(tag + ".register_anonymous_task"), delay=0.5)),
                              ("replace_task", lambda m=m, tag=tag: m.replace_task("c11-probe-r", mk(tag + ".replace_task"), delay=0.5))):
                try:
                    futs.append((tag + "." + how, call()))
                except Exception as e:  # noqa: BLE001
                    futs.append((tag + "." + how, e))
        rc = getattr(ov, "request_cache", None)
        if rc is not None:
            class ProbeCache(NumberCache):
                def on_timeout(self):
                    ran.append("RequestCache.add:on_timeout")
            try:
                res = rc.add(ProbeCache(rc, "c11-probe", 424242))
            except Exception as e:  # noqa: BLE001
                res = e
            if res is not None and not isinstance(res, Exception):
                sim.violate("request_cache.add:accepted-after-unload",
                            f"{type(ov).__name__}.request_cache.add() accepted a cache after unload() returned")
    finally:
        sim.quiet = False
    sim.probe_futs = futs


def scan_coroutines(sim, target):
    """No coroutine that runs a method of the unloaded overlay (or of its cache / exit sockets) may be left suspended."""
    ov = target.overlay
    owned = sim.owned_managers()
    for task in asyncio.all_tasks(sim.loop):
        if task.done() or task is sim._unload_task or any(task is j for j in sim.app_jobs):  # noqa: SLF001
            continue        # application-owned API calls are judged by what they make the overlay do (sends), not here
        coro = task.get_coro()
        depth = 0
        while coro is not None and depth < 20:
            frame = getattr(coro, "cr_frame", None) or getattr(coro, "gi_frame", None)
            if frame is not None:
                obj = frame.f_locals.get("self")
                if obj is not None and any(obj is o for o in owned):
                    sim.violate("asyncio:overlay-coroutine-alive-after-unload",
                                f"{type(ov).__name__}: coroutine {getattr(coro, '__qualname__', coro)} of "
                                f"{type(obj).__name__} is still suspended after unload() returned")
                    return
            coro = getattr(coro, "cr_await", None) or getattr(coro, "gi_yieldfrom", None)
            depth += 1


def final_checks(sim, target):
    ov = target.overlay
    if getattr(sim, "probe_ran", None):
        sim.violate("register_task:accepted-after-unload",
                    f"{type(ov).__name__}: work registered after unload() returned was executed: {sorted(set(sim.probe_ran))}")
    owned = sim.owned_managers()
    for m, name, fut, _ in sim.task_records:
        if any(m is o for o in owned) and not fut.done():
            sim.violate("taskmanager:task-pending-after-unload",
                        f"task {str(name)[:60]!r} of {type(m).__name__} ({type(ov).__name__}) is still pending two virtual "
                        f"hours after unload() returned")
            break
    for m in owned:
        left = [str(k)[:40] for k, t in list(m._pending_tasks.items()) if not t.done()]  # noqa: SLF001
        if left:
            sim.violate("taskmanager:task-pending-after-unload",
                        f"{type(m).__name__} ({type(ov).__name__}) still tracks unfinished tasks {left[:4]} after unload")
            break
    for owner, tr in sim.transports:
        if getattr(owner, "overlay", None) is ov and not tr.is_closing():
            sim.violate("exit_socket:transport-open-after-unload",
                        f"{type(ov).__name__}: an exit socket's UDP transport (circuit {getattr(owner, 'circuit_id', '?')}) is still "
                        f"open two virtual hours after unload() returned")
            break
    # sockets as the event loop / the OS see them, whatever the owning object remembers
    for owner_ov, tr in sim.loop_transports:
        if owner_ov is ov and not tr.is_closing():
            sim.violate("exit_socket:transport-open-after-unload",
                        f"{type(ov).__name__}: a UDP socket it opened ({tr.get_extra_info('sockname')}) is still open two "
                        f"virtual hours after unload() returned (no object refers to it any more or it was never closed)")
            break
    now = count_socket_fds()
    if sim.socket_baseline is not None and now is not None and now > sim.socket_baseline \
            and all(v[0] != "exit_socket:transport-open-after-unload" for v in sim.violations):
        sim.violate("os:socket-open-after-unload",
                    f"{type(ov).__name__}: {now - sim.socket_baseline} more OS-level socket(s) open than before the run, two "
                    f"virtual hours after every overlay of the run was unloaded")


# ======================================================================================================
# part 2: correspondence with the Lean model
# ======================================================================================================
def generate(ctx: Ctx):
    import gen_c11
    src, meta = gen_c11.translate()
    ctx.extra["translated"] = {"classes": [c["name"] for c in meta["classes"]],
                               "scripts": {c["name"]: c["script"] for c in meta["classes"]},
                               "tunnel_endpoint_forwards": meta["forwards"], "sleep_guards": meta["guards"],
                               "default_remove_tunnel_delay": meta["delay"]}
    return [("Ipv8/C11/GenOverlays.lean", src)]


def pfx_bytes(p):
    return b"\x00\x02" + bytes([p]) * 20


def registry_case(ctx: Ctx, rng, n_ops, gen_flags):
    """One random op sequence on real Endpoint/TunnelEndpoint/PythonCryptoEndpoint objects; returns (lines, impl)."""
    from ipv8.messaging.anonymization.crypto import PythonCryptoEndpoint
    from ipv8.messaging.anonymization.endpoint import TunnelEndpoint
    from ipv8.messaging.interfaces.endpoint import EndpointListener
    from ipv8.test.mocking.endpoint import MockEndpoint
    inner = MockEndpoint(("10.0.0.1", 1), ("10.0.0.1", 2))
    inner.open()
    outer = TunnelEndpoint(inner)
    got = []

    class L(EndpointListener):
        def __init__(self, ep, i):
            super().__init__(ep)
            self.i = i

        def on_packet(self, packet):
            got.append(self.i)

    class P(PythonCryptoEndpoint):
        def on_packet(self, packet, warn_unknown=True):
            got.append(self.i)
            super().on_packet(packet, warn_unknown)

    objs = {}
    for i in (1, 2, 3, 4):
        objs[i] = L(outer, i)
    for i in (5, 6):
        objs[i] = P(outer)
        objs[i].i = i
    lines = [f"reset {gen_flags[0]} {gen_flags[1]}"]
    impl = ["ok"]
    kinds = set()
    for _ in range(n_ops):
        r = rng.random()
        via = rng.random() < 0.4
        ep = outer if via else inner
        l = rng.choice([1, 2, 3, 4, 5, 6])
        p = rng.choice([7, 8])
        if r < 0.18:
            ep.add_listener(objs[l])
            lines.append(f"r add {int(via)} {l}")
            impl.append("ok")
            kinds.add("add")
        elif r < 0.40:
            ep.add_prefix_listener(objs[l], pfx_bytes(p))
            lines.append(f"r addp {int(via)} {l} {p}")
            impl.append("ok")
            kinds.add("addp")
        elif r < 0.60:
            ep.remove_listener(objs[l])
            lines.append(f"r rm {int(via)} {l}")
            impl.append("ok")
            kinds.add("rm" + ("-outer" if via else ""))
        elif r < 0.70:
            a, b = rng.choice([5, 6]), rng.choice([1, 2, 3, 4])
            objs[a].tunnel_community = objs[b]
            lines.append(f"r fwd {a} {b}")
            impl.append("ok")
            kinds.add("fwd")
        elif r < 0.75:
            a = rng.choice([5, 6])
            objs[a].tunnel_community = None
            lines.append(f"r unfwd {a}")
            impl.append("ok")
            kinds.add("unfwd")
        elif r < 0.78:
            b = rng.random() < 0.6
            inner.open() if b else inner.close()
            lines.append(f"r open {int(b)}")
            impl.append("ok")
        else:
            q = rng.choice([7, 8, 9])
            del got[:]
            inner.notify_listeners((("1.1.1.1", 1), pfx_bytes(q) + b"\x01payload"))
            lines.append(f"r notify {q}")
            impl.append("[" + ",".join(map(str, sorted(got))) + "]")
            kinds.add("notify")
    return lines, impl, kinds


def canon_reach(reply):
    inner = reply.strip()[1:-1]
    items = sorted(int(x) for x in inner.split(",") if x)
    return "[" + ",".join(map(str, items)) + "]"


def registry_oracle(ctx: Ctx, rng, gen_flags):
    """The property on the real registry: after remove_listener(o) — through the same endpoint object that o was added
    with — no datagram of any prefix reaches o, whatever foreign listeners do afterwards."""
    from ipv8.messaging.anonymization.endpoint import TunnelEndpoint
    from ipv8.messaging.interfaces.endpoint import EndpointListener
    from ipv8.test.mocking.endpoint import MockEndpoint
    inner = MockEndpoint(("10.0.0.1", 1), ("10.0.0.1", 2))
    inner.open()
    via = rng.random() < 0.5
    ep = TunnelEndpoint(inner) if via else inner
    got = []

    class L(EndpointListener):
        def __init__(self, e, i):
            super().__init__(e)
            self.i = i

        def on_packet(self, packet):
            got.append(self.i)

    ls = {i: L(ep, i) for i in (1, 2, 3)}
    script = []
    for _ in range(rng.randrange(1, 8)):
        l = rng.choice([1, 2, 3])
        k = rng.choice(["add", "addp", "rm"]) if l != 1 else rng.choice(["add", "addp", "addp"])
        p = rng.choice([7, 8])
        script.append((k, l, p))
        getattr(ep, {"add": "add_listener", "addp": "add_prefix_listener", "rm": "remove_listener"}[k])(
            *((ls[l],) if k != "addp" else (ls[l], pfx_bytes(p))))
    ep.remove_listener(ls[1])
    for _ in range(rng.randrange(0, 6)):
        l = rng.choice([2, 3])
        k = rng.choice(["add", "addp", "rm"])
        p = rng.choice([7, 8])
        script.append(("late-" + k, l, p))
        getattr(ep, {"add": "add_listener", "addp": "add_prefix_listener", "rm": "remove_listener"}[k])(
            *((ls[l],) if k != "addp" else (ls[l], pfx_bytes(p))))
    for q in (7, 8, 9):
        inner.notify_listeners((("1.1.1.1", 1), pfx_bytes(q) + b"\x01x"))
    ctx.case(("reg-oracle", via, tuple(script)), len(script) >= 3)
    if 1 in got:
        site = "TunnelEndpoint.remove_listener" if via else "Endpoint.remove_listener"
        ctx.oracle_fail(f"{site}:still-delivered",
                        f"a listener removed through {'a TunnelEndpoint' if via else 'the endpoint'} still receives datagrams "
                        f"(ops {script})", {"kind": "registry", "via": via, "script": script})


def tm_case(ctx: Ctx, rng, n_ops):
    """Random TaskManager op sequence under the virtual clock.  Returns (lines, impl replies, kinds, oracle findings)."""
    import vclock
    from ipv8.taskmanager import TaskManager
    loop = vclock.new_loop()
    lines, impl, kinds, findings = [], [], set(), []

    async def main():
        from asyncio import CancelledError, Future, sleep
        tm = TaskManager()
        runs = []
        futs = []
        state = {"down_at": None, "dead": False}
        orig_register = tm.register_task

        def reg_wrapper(name, *a, **k):
            old = getattr(a[0], "c11_old", None) if a else None
            if old is not None and not old.done():
                findings.append(("replace_task:new-started-before-old-finished",
                                 f"replace_task({name}) registered the new task while the old one had not finished"))
            f = orig_register(name, *a, **k)
            futs.append(f)
            if not f.done():
                live[name] = f
            return f

        live = {}            # the harness's own view of "a task of this name is still active"
        tm.register_task = reg_wrapper
        pending_replace = {}

        def mk_body(name, spec):
            kind, _, _, stub = spec
            if kind == "long":
                async def body():
                    runs.append(name)
                    try:
                        await sleep(10 ** 7)
                    except CancelledError:
                        if stub:
                            await sleep(stub)
                        raise
                return body

            def body():
                runs.append(name)
                if state["dead"]:
                    findings.append(("shutdown_task_manager:task-ran-after-shutdown",
                                     f"a task named {name} ({kind}) ran after shutdown_task_manager() had completed"))
            return body

        def kwargs(spec):
            kind, d, i, _ = spec
            if kind == "delayed":
                return {"delay": d}
            if kind == "interval":
                return {"interval": i, "delay": d}
            return {}

        def rand_spec():
            kind = rng.choice(["imm", "imm", "long", "long", "delayed", "interval", "interval", "fut"])
            d = rng.choice([0, 1, 2, 3]) if kind == "interval" else (rng.choice([1, 2, 3]) if kind == "delayed" else 0)
            i = rng.choice([1, 2, 3]) if kind == "interval" else 1
            stub = rng.choice([0, 0, 1, 2]) if kind == "long" else 0
            return (kind, d, i, stub)

        async def settle():
            for _ in range(8):
                await sleep(0)

        def summary():
            active = sorted(n for n in range(4) if tm.is_pending_task_active(n))
            r = sorted(runs)
            del runs[:]
            alive = sum(1 for f in futs if not f.done())
            return (f"active=[{','.join(map(str, active))}] runs=[{','.join(map(str, r))}] alive={alive}")

        shutdown_task = None
        dirty = set()        # names with a replace_task continuation queued since the last loop pass
        for _ in range(n_ops):
            r = rng.random()
            name = rng.randrange(4)
            if name in dirty and r < 0.60:
                # the model is pass-granular: a second operation on a name whose replacement is still queued is
                # only explored after a loop pass
                lines.append("t settle")
                await settle()
                impl.append(summary())
                dirty.clear()
            if r >= 0.72:
                dirty.clear()
            if r < 0.32:
                spec = rand_spec()
                lines.append(f"t reg {name} {spec[0]} {spec[1]} {spec[2]} {spec[3]}")
                kinds.add("reg:" + spec[0])
                was_active = name in live and not live[name].done()
                was_down = tm._shutdown  # noqa: SLF001
                state["direct"] = True
                try:
                    if spec[0] == "fut":
                        f = tm.register_task(name, Future())
                    else:
                        f = tm.register_task(name, mk_body(name, spec), **kwargs(spec))
                    res = "refused" if f.done() else "ok"
                except RuntimeError:
                    res = "exists"
                finally:
                    state["direct"] = False
                impl.append(res)
                kinds.add("reg->" + res)
                if was_active and not was_down and res != "exists":
                    findings.append(("register_task:active-name-accepted",
                                     f"register_task({name}) was accepted while a task of that name was still active"))
                if was_down and res != "refused":
                    findings.append(("register_task:accepted-after-shutdown",
                                     f"register_task({name}) returned {res} after shutdown_task_manager()"))
            elif r < 0.45:
                lines.append(f"t cancel {name}")
                live.pop(name, None)
                f = tm.cancel_pending_task(name)
                impl.append("some" if (not f.done() or f.cancelled()) else "none")
                kinds.add("cancel")
            elif r < 0.60:
                spec = rand_spec()
                if spec[0] == "fut":
                    spec = ("imm", 0, 1, 0)
                lines.append(f"t replace {name} {spec[0]} {spec[1]} {spec[2]} {spec[3]}")
                old = tm.get_task(name)
                body = mk_body(name, spec)
                if old is not None and not old.done():
                    body.c11_old = old          # the register call made for *this* replace must find it finished
                    kinds.add("replace-active")
                else:
                    kinds.add("replace-idle")
                dirty.add(name)
                live.pop(name, None)
                nf = tm.replace_task(name, body, **kwargs(spec))
                nf.add_done_callback(lambda f: f.exception() if not f.cancelled() else None)
                impl.append("ok")
            elif r < 0.66:
                # shutdown is requested at a quiescent point (the coroutine itself only starts in the next iteration)
                lines.append("t settle")
                await settle()
                impl.append(summary())
                dirty.clear()
                lines.append("t shutdown")
                kinds.add("shutdown")
                if shutdown_task is None:
                    async def do_shutdown():
                        await tm.shutdown_task_manager()
                        state["down_at"] = loop.time()
                        state["dead"] = True
                    shutdown_task = asyncio.ensure_future(do_shutdown())
                    # the model's shutdown op is "flag + cancel"; run the coroutine up to its first await
                    await sleep(0)
                impl.append("ok")
            elif r < 0.72:
                lines.append(f"t active {name}")
                impl.append("1" if tm.is_pending_task_active(name) else "0")
                kinds.add("active?")
            elif r < 0.84:
                lines.append("t settle")
                await settle()
                impl.append(summary())
                kinds.add("settle")
            else:
                lines.append("t tick")
                await sleep(1.0)
                await settle()
                impl.append(summary())
                kinds.add("tick")
        # end of the sequence: shut down (if not yet), give stubborn tasks time, then nothing may run any more
        if shutdown_task is None:
            async def do_shutdown2():
                await tm.shutdown_task_manager()
                state["dead"] = True
            shutdown_task = asyncio.ensure_future(do_shutdown2())
        await asyncio.wait_for(shutdown_task, 100)
        await sleep(50)
        left = [f for f in futs if not f.done()]
        if left:
            findings.append(("shutdown_task_manager:task-survived",
                             f"{len(left)} registered task(s) still pending 50 virtual s after shutdown_task_manager() completed"))
        for f in left:
            f.cancel()
        await settle()

    try:
        loop.run_until_complete(main())
    finally:
        try:
            pend = [t for t in asyncio.all_tasks(loop) if not t.done()]
            for t in pend:
                t.cancel()
            if pend:
                loop.run_until_complete(asyncio.gather(*pend, return_exceptions=True))
        except Exception:  # noqa: BLE001
            pass
        vclock.uninstall()
        loop.close()
        asyncio.set_event_loop(None)
    return lines, impl, kinds, findings


def strip_order(reply):
    return reply.split(" order=")[0]


def unload_static_case(cls_name, stack, with_exit):
    """Load one overlay (default settings), unload it while idle, observe the abstract post-state of the model."""
    import vclock
    install_patches()
    from ipv8.test.mocking import endpoint as mock_ep
    classes = overlay_classes()
    cls = classes[cls_name]
    random.seed(7)
    loop = vclock.new_loop()
    sim = Sim(loop)
    Sim.current = sim
    out = {}

    async def main():
        node = build_node(sim, cls, stack)
        other = build_node(sim, classes["DiscoveryCommunity"], "plain")   # a foreign listener elsewhere
        ov = node.overlay
        heard = {"self": 0, "proxy": 0}
        orig_on_packet = ov.on_packet

        def on_packet(packet, *a, **k):
            heard["self"] += 1
            return orig_on_packet(packet, *a, **k)

        ov.on_packet = on_packet
        ce = getattr(ov, "crypto_endpoint", None)
        if ce is not None and hasattr(ce, "on_packet"):
            orig_ce = ce.on_packet

            def ce_on_packet(packet, *a, **k):
                heard["proxy"] += 1
                return orig_ce(packet, *a, **k)

            ce.on_packet = ce_on_packet
        await asyncio.sleep(1.0)
        n_exit = 0
        if with_exit and hasattr(ov, "exit_sockets"):
            from ipv8.messaging.anonymization.exit_socket import TunnelExitSocket
            from ipv8.messaging.anonymization.tunnel import Hop
            es = TunnelExitSocket(4242, Hop(other.overlay.my_peer), ov)
            ov.exit_sockets[4242] = es
            es.enable()
            await asyncio.sleep(0.5)
            n_exit = 1
        await ov.unload()
        await asyncio.sleep(0.5)
        heard["self"] = heard["proxy"] = 0
        for p in (node.prefix, other.prefix, b"\x00\x02" + b"\x63" * 20):
            guarded(node.base.notify_listeners, (other.base.wan_address, p + b"\xf5" + b"\x00" * 40))
        await asyncio.sleep(20.0)
        rc = getattr(ov, "request_cache", None)
        db = getattr(ov, "database", None)
        open_tr = sum(1 for owner, tr in sim.transports if getattr(owner, "overlay", None) is ov and not tr.is_closing())
        live_es = sum(1 for m, _, f, _ in sim.task_records if getattr(m, "overlay", None) is ov and not f.done())
        tables = sum(len(getattr(ov, a, {})) for a in ("circuits", "relay_from_to", "exit_sockets"))
        out["impl"] = (f"listening={int(heard['self'] > 0)} proxy={int(heard['proxy'] > 0)} tm={int(bool(ov._shutdown))} "  # noqa: SLF001
                       f"cache={int(rc is None or bool(rc._shutdown))} "  # noqa: SLF001
                       f"db={int(db is None or db._connection is None)} "  # noqa: SLF001
                       f"open={1 if (open_tr or live_es) else 0} tables={tables}")
        out["line"] = f"u {cls_name} {int(stack == 'tunnel-endpoint')} {ov.settings.remove_tunnel_delay if hasattr(ov, 'settings') else 5} 0 0 {n_exit} {n_exit}"
        await aguarded(other.overlay.unload())

    try:
        loop.run_until_complete(main())
    finally:
        Sim.current = None
        try:
            pend = [t for t in asyncio.all_tasks(loop) if not t.done()]
            for t in pend:
                t.cancel()
            if pend:
                loop.run_until_complete(asyncio.gather(*pend, return_exceptions=True))
            for _, tr in sim.transports:
                if not tr.is_closing():
                    tr.close()
            loop.run_until_complete(asyncio.sleep(0))
        except Exception:  # noqa: BLE001
            pass
        vclock.uninstall()
        loop.close()
        asyncio.set_event_loop(None)
        mock_ep.internet.clear()
    return out["line"], out["impl"]


# ======================================================================================================
# part 3: orchestration
# ======================================================================================================
STACKS = ["plain", "tunnel-endpoint"]


def scenario_specs(ctx: Ctx, rng, per_combo_steps, per_combo_times, steps_cache):
    """Yield scenario specs: every class x stack x family x target role, unload at packet indices and random times."""
    classes = sorted(overlay_classes())
    for cls in classes:
        for family in scenario_families(cls):
            for stack in STACKS:
                if family == "inflight":
                    yield from inflight_specs(cls, stack, rng, per_combo_steps is None)
                    continue
                hop_opts = [1, 2] if family == "tunnel" else [1]
                for hops in hop_opts:
                    n = 3 if hops == 1 else 4
                    if family == "dht":
                        n = 4
                    seed = rng.getrandbits(30)
                    key = (cls, family, stack, hops)
                    base = {"cls": cls, "stack": stack, "family": family, "nodes": n, "hops": hops, "seed": seed}
                    if key not in steps_cache:
                        _, st = run_scenario({**base, "target": 0, "trigger": ["idle"]}, dry=True)
                        steps_cache[key] = st["steps"]
                    total = steps_cache[key]
                    if per_combo_steps is None:
                        ks = list(range(total + 1))
                    else:
                        ks = sorted({rng.randrange(total + 1) for _ in range(per_combo_steps)})
                    for k in ks:
                        yield {**base, "target": rng.randrange(n) if per_combo_steps is not None else None,
                               "trigger": ["step", k]}
                    for _ in range(per_combo_times):
                        yield {**base, "target": rng.randrange(n), "trigger": ["time", round(rng.uniform(0.0, 16.0), 3)]}
                    yield {**base, "target": rng.randrange(n), "trigger": ["idle"]}
                    if family == "tunnel":
                        # unload landing at every loop iteration after the exit node starts opening a socket
                        deep = per_combo_steps is None
                        if hops == 1 or deep:
                            for j in (0, 1):
                                for it in range(16 if deep else 8):
                                    yield {**base, "target": n - 1, "trigger": ["mark", "acquire", j, "iter", it]}
                            for it in range(8 if deep else 4):
                                yield {**base, "target": n - 1, "trigger": ["mark", "enable", 0, "iter", it]}


def service_specs(rng, deep):
    """Overlays of a running ipv8_service.IPv8 (default configuration), unloaded through IPv8.unload_overlay."""
    for cls in SERVICE_CLASSES:
        for stack in STACKS:
            base = {"cls": cls, "stack": stack, "family": "service", "nodes": 2, "hops": 1}
            reps = 6 if deep else 1
            for _ in range(reps):
                yield {**base, "seed": rng.getrandbits(30), "target": rng.randrange(2),
                       "trigger": ["time", round(rng.uniform(0.0, 10.0), 3)]}
            if deep or stack == "plain":
                yield {**base, "seed": rng.getrandbits(30), "target": rng.randrange(2), "trigger": ["idle"]}


def inflight_specs(cls, stack, rng, deep):
    """Application-owned API calls in flight: unload k loop iterations / t seconds after the calls were started."""
    n = 4 if "DHT" in cls else 3
    base = {"cls": cls, "stack": stack, "family": "inflight", "nodes": n, "hops": 1}
    modes = ["all", "half", "none"]

    def tgt():
        return rng.randrange(n) if "DHT" in cls else 0
    if deep:
        for mode in modes:
            for it in range(0, 30):
                yield {**base, "seed": rng.getrandbits(30), "silence": mode, "target": tgt(), "trigger": ["mark", "api", 0, "iter", it]}
            for _ in range(10):
                yield {**base, "seed": rng.getrandbits(30), "silence": mode, "target": tgt(),
                       "trigger": ["mark", "api", 0, "time", round(rng.uniform(0.0, 13.0), 3)]}
    else:
        for _ in range(6):
            yield {**base, "seed": rng.getrandbits(30), "silence": rng.choice(modes), "target": tgt(),
                   "trigger": ["mark", "api", 0, "iter", rng.randrange(0, 30)]}
        for _ in range(5):
            yield {**base, "seed": rng.getrandbits(30), "silence": rng.choice(modes), "target": tgt(),
                   "trigger": ["mark", "api", 0, "time", round(rng.uniform(0.0, 13.0), 3)]}


def run_one_scenario(ctx: Ctx, spec):
    viol, st = run_scenario(spec)
    trig = spec["trigger"]
    ctx.count(f"scenario:{spec['cls']}")
    ctx.count(f"family:{spec['family']}")
    ctx.count(f"stack:{spec['stack']}")
    ctx.count(f"trigger:{trig[0]}" + (f":{trig[1]}:{trig[3]}" if trig[0] == "mark" else ""))
    if spec["family"] == "inflight":
        ctx.count(f"inflight-silence:{spec.get('silence')}")
        ctx.extra["api_inflight"] = INFLIGHT_APIS
    ctx.count("unload-with-pending-tasks" if st["pre_tasks"] else "unload-without-pending-tasks")
    ctx.count("target-traffic:%s" % ("none" if st["pre_sent"] + st["pre_recv"] == 0 else
                                     "1-9" if st["pre_sent"] + st["pre_recv"] < 10 else "10+"))
    nontrivial = (st["pre_sent"] + st["pre_recv"] > 0) or st["pre_tasks"] > 0
    ctx.case((spec["cls"], spec["stack"], spec["family"], spec["target"], tuple(trig), spec["hops"], spec.get("silence")), nontrivial)
    for sig, what in viol:
        ctx.count("violation:" + sig)
        ctx.oracle_fail(sig, f"[{spec['cls']} on {spec['stack']} endpoint, scenario {spec['family']}, node {spec['target']}, "
                             f"unload at {trig}] {what}", {"kind": "scenario", "spec": spec})
    return viol


def run_scenarios(ctx: Ctx, rng, per_combo_steps, per_combo_times, limit=None):
    steps_cache = {}
    n = 0
    for spec in service_specs(rng, per_combo_steps is None):
        run_one_scenario(ctx, spec)
        n += 1
    for spec in scenario_specs(ctx, rng, per_combo_steps, per_combo_times, steps_cache):
        if spec["target"] is None:                 # exhaustive: every role at every step
            for tgt in range(spec["nodes"]):
                run_one_scenario(ctx, {**spec, "target": tgt})
                n += 1
        else:
            run_one_scenario(ctx, spec)
            n += 1
        if limit is not None and n >= limit:
            break
    ctx.extra.setdefault("scenario_steps", {}).update({"/".join(map(str, k)): v for k, v in steps_cache.items()})
    return n


def gen_flags_from_driver(ctx: Ctx):
    d = ctx.driver()
    rep = d.batch(["gen"])[0]
    kv = dict(x.split("=", 1) for x in rep.split(" "))
    return (int(kv["fwdAdd"]), int(kv["fwdRemove"])), kv


def run_registry(ctx: Ctx, rng, n_cases, use_model):
    flags = (1, 1)
    if use_model:
        flags, kv = gen_flags_from_driver(ctx)
        ctx.extra["generated_flags"] = kv
    all_lines, all_impl, starts = [], [], []
    for _ in range(n_cases):
        n_ops = rng.randrange(4, 40)
        lines, impl, kinds = registry_case(ctx, rng, n_ops, flags)
        for k in kinds:
            ctx.count("registry-op:" + k)
        ctx.count("registry-len:%s" % ("4-12" if n_ops < 13 else "13-25" if n_ops < 26 else "26-39"))
        ctx.case(("reg", tuple(lines)), "notify" in kinds and n_ops >= 4)
        starts.append(len(all_lines))
        all_lines += lines
        all_impl += impl
    for _ in range(n_cases):
        registry_oracle(ctx, rng, flags)
    if use_model and all_lines:
        replies = ctx.driver().batch(all_lines)
        bad = 0
        for i, (ln, m, im) in enumerate(zip(all_lines, replies, all_impl)):
            mm = canon_reach(m) if ln.startswith("r notify") else m
            if mm != im and bad < 5:
                s = max(x for x in starts if x <= i)
                ctx.disagree(f"registry: model {mm} != implementation {im} on `{ln}` (op {i - s} of its sequence)",
                             {"kind": "registry-seq", "lines": all_lines[s:i + 1], "model": mm, "impl": im})
                bad += 1


def run_tm(ctx: Ctx, rng, n_cases, use_model):
    all_lines, all_impl, starts = [], [], []
    for _ in range(n_cases):
        n_ops = rng.randrange(4, 40)
        sub = random.Random(rng.getrandbits(40))
        seed_state = sub.getstate()
        lines, impl, kinds, findings = tm_case(ctx, sub, n_ops)
        for k in kinds:
            ctx.count("tm-op:" + k)
        ctx.case(("tm", tuple(lines)), len(lines) >= 4 and any(k.startswith("reg->ok") for k in kinds))
        for sig, what in findings:
            ctx.count("violation:" + sig)
            ctx.oracle_fail(sig, what + f" (op sequence: {lines})", {"kind": "tm", "lines": lines})
        starts.append(len(all_lines))
        all_lines += ["reset 1 1"] + lines
        all_impl += ["ok"] + impl
        del seed_state
    if use_model and all_lines:
        replies = ctx.driver().batch(all_lines)
        bad = 0
        for i, (ln, m, im) in enumerate(zip(all_lines, replies, all_impl)):
            if " order=0" in m:
                ctx.disagree(f"task manager model: replacement started before the old task finished on `{ln}`",
                             {"kind": "tm-seq", "line": ln})
            if strip_order(m) != im and bad < 5:
                s = max(x for x in starts if x <= i)
                ctx.disagree(f"task manager: model `{strip_order(m)}` != implementation `{im}` on `{ln}` (op {i - s - 1})",
                             {"kind": "tm-seq", "lines": all_lines[s + 1:i + 1], "model": m, "impl": im})
                bad += 1


def run_unload_static(ctx: Ctx, use_model):
    lines, impls, meta = [], [], []
    for cls in sorted(overlay_classes()):
        for stack in STACKS:
            for with_exit in ([False, True] if "Tunnel" in cls else [False]):
                line, impl = unload_static_case(cls, stack, with_exit)
                lines.append(line)
                impls.append(impl)
                meta.append((cls, stack, with_exit))
                ctx.count("unload-static:" + cls)
                ctx.case(("unload-static", cls, stack, with_exit), True)
                want = "listening=0 proxy=0 tm=1 cache=1 db=1 open=0 tables=0"
                if impl != want:
                    bad = [kv for kv, w in zip(impl.split(" "), want.split(" ")) if kv != w]
                    sig = {"listening": "on_packet:delivered-after-unload", "proxy": "crypto_endpoint:listener-left-after-unload",
                           "tm": "unload:task-manager-not-shut-down", "cache": "unload:request-cache-not-shut-down",
                           "db": "unload:database-left-open", "open": "exit_socket:transport-open-after-unload",
                           "tables": "unload:tunnel-tables-not-cleared"}[bad[0].split("=")[0]]
                    if sig not in ("unload:tunnel-tables-not-cleared", "unload:database-left-open"):
                        ctx.oracle_fail(sig, f"{cls} on {stack} endpoint{' with an open exit socket' if with_exit else ''}: "
                                             f"after unload() of the idle overlay: {' '.join(bad)}",
                                        {"kind": "unload-static", "cls": cls, "stack": stack, "with_exit": with_exit})
    if use_model:
        replies = ctx.driver().batch(lines)
        for ln, m, im, mt in zip(lines, replies, impls, meta):
            if m != im:
                ctx.disagree(f"unload script of {mt[0]} on {mt[1]} endpoint: model `{m}` != implementation `{im}`",
                             {"kind": "unload-static", "line": ln, "model": m, "impl": im})


async def service_ops_case(ctx: Ctx, rng, n_ops):
    """Random add_strategy / unload_overlay sequences on a real (unstarted) IPv8 with stub overlays and strategies."""
    from ipv8.test.mocking.endpoint import MockEndpoint
    from ipv8_service import IPv8
    ep = MockEndpoint(("10.0.0.9", 1), ("10.0.0.9", 2))
    svc = IPv8({"logger": {"level": "CRITICAL"}, "keys": [], "overlays": [], "walker_interval": 0.5}, endpoint_override=ep)
    logging.disable(logging.CRITICAL)

    class Ov:
        def __init__(self, i):
            self.i = i
            self.unloaded = 0

        def unload(self):
            self.unloaded += 1

    class St:
        def __init__(self, sid, ov):
            self.sid = sid
            self.overlay = ov

    ovs = {i: Ov(i) for i in (1, 2, 3)}
    lines, impl = ["s reset"], ["ok"]
    sid = 0
    shape = []
    for _ in range(n_ops):
        if rng.random() < 0.7:
            # runs of consecutive strategies of one overlay are as likely as interleavings
            o = rng.choice([1, 2, 3])
            for _ in range(rng.choice([1, 1, 2, 3])):
                sid += 1
                svc.add_strategy(ovs[o], St(sid, ovs[o]), rng.choice([-1, 20]))
                lines.append(f"s add {o} {sid}")
                impl.append("ok")
                shape.append(o)
        else:
            o = rng.choice([1, 2, 3])
            had = sum(1 for st, _ in svc.strategies if st.overlay is ovs[o])
            await svc.unload_overlay(ovs[o])
            lines.append(f"s unload {o}")
            impl.append("ok")
            left = [st.sid for st, _ in svc.strategies if st.overlay is ovs[o]]
            ctx.count("service-unload:%d-strategies" % min(had, 4))
            if left or ovs[o] in svc.overlays:
                ctx.oracle_fail("IPv8.unload_overlay:strategy-left-registered",
                                f"after unload_overlay of an overlay with {had} strategies (registration order of overlays "
                                f"{shape}) the service still holds its strategies {left}",
                                {"kind": "service-ops", "lines": lines[1:]})
            shape = [x for x in shape if x != o]
        lines.append("s list")
        impl.append("overlays=[" + ",".join(str(o.i) for o in svc.overlays) + "] strategies=["
                    + ",".join(f"{st.sid}:{st.overlay.i}" for st, _ in svc.strategies) + "]")
    return lines, impl


def run_service_ops(ctx: Ctx, rng, n_cases, use_model):
    import vclock
    loop = vclock.new_loop()        # maybe_coroutine() inside unload_overlay needs a loop
    all_lines, all_impl, starts = [], [], []

    async def main():
        for _ in range(n_cases):
            lines, impl = await service_ops_case(ctx, rng, rng.randrange(3, 14))
            ctx.case(("svc", tuple(lines)), any(ln.startswith("s unload") for ln in lines))
            starts.append(len(all_lines))
            all_lines.extend(lines)
            all_impl.extend(impl)

    try:
        loop.run_until_complete(main())
    finally:
        vclock.uninstall()
        loop.close()
        asyncio.set_event_loop(None)
    if use_model and all_lines:
        replies = ctx.driver().batch(all_lines)
        bad = 0
        for i, (ln, m, im) in enumerate(zip(all_lines, replies, all_impl)):
            if m != im and bad < 5:
                st = max(x for x in starts if x <= i)
                ctx.disagree(f"service: model `{m}` != implementation `{im}` after `{all_lines[i - 1]}`",
                             {"kind": "service-ops", "lines": all_lines[st + 1:i + 1], "model": m, "impl": im})
                bad += 1


def run(ctx: Ctx):
    if ctx.replay_input is not None:
        return replay(ctx, ctx.replay_input)
    install_patches()
    rng = ctx.rng
    use_model = ctx.model_ok
    run_unload_static(ctx, use_model)
    run_registry(ctx, rng, ctx.scale(600, 4000), use_model)
    run_tm(ctx, rng, ctx.scale(600, 4000), use_model)
    run_service_ops(ctx, rng, ctx.scale(300, 3000), use_model)
    if ctx.thorough():
        run_scenarios(ctx, rng, None, 6)          # every packet index, every role
    else:
        run_scenarios(ctx, rng, 20, 5)
    for cls in sorted(overlay_classes()):
        if not any(k == f"scenario:{cls}" for k in ctx.counts):
            raise InfraError(f"no scenario ran for shipped overlay class {cls}")


def search(ctx: Ctx, reason: str):
    """Implementation-only: denser scenario sweep and more op sequences."""
    install_patches()
    rng = random.Random(ctx.seed * 7919 + 13)
    run_unload_static(ctx, False)
    run_registry(ctx, rng, 1500, False)
    run_tm(ctx, rng, 800, False)
    run_service_ops(ctx, rng, 1000, False)
    run_scenarios(ctx, rng, 14, 5)


def replay(ctx: Ctx, rec: dict):
    install_patches()
    r = rec.get("replay", rec)
    kind = r.get("kind")
    if kind == "scenario":
        viol = run_one_scenario(ctx, r["spec"])
        print(f"replay scenario {r['spec']}: {'property FAILS: ' + '; '.join(w for _, w in viol) if viol else 'property holds'}")
    elif kind == "unload-static":
        line, impl = unload_static_case(r["cls"], r["stack"], r["with_exit"])
        ok = impl == "listening=0 proxy=0 tm=1 cache=1 db=1 open=0 tables=0"
        print(f"replay unload of idle {r['cls']} on {r['stack']}: {impl}: property {'holds' if ok else 'FAILS'}")
        if not ok:
            ctx.oracle_fail("replay", impl, r)
        ctx.case(("replay",), True)
    elif kind == "tm":
        print("replay: task-manager sequences are regenerated from the seed; re-run with the recorded seed")
        ctx.case(("replay",), True)
    else:
        print("replay: unknown record kind", kind)
