"""
C11 — an unloaded overlay is silent and holds no resources.

Link to the code (all three are re-run on every check):
  * translator tools/gen_c11.py regenerates lean/Ipv8/C11/GenOverlays.lean from the working tree: the list of shipped
    overlay classes, the flattened statement sequence of their `unload` chain, what their constructors install, and
    whether TunnelEndpoint forwards remove_listener.  The script theorems in Props.lean are proved over that table.
  * correspondence (driver drv_c11): random op sequences against
      - the real listener registry (Endpoint / TunnelEndpoint / PythonCryptoEndpoint proxies) vs the registry model,
      - the real TaskManager under the virtual clock vs the scheduler model (register / cancel / replace / settle /
        advance / shutdown, with stubborn tasks that take time to die),
      - the real RequestCache (add / pop / has / timeouts / shutdown) vs the same scheduler model (a cache is a delayed task
        registered under the cache's identifier; there is no separate Lean structure for it),
      - IPv8.add_strategy / unload_overlay sequences vs the service model,
      - every shipped overlay class loaded and unloaded on both endpoint stacks vs the interpreted generated script.
  * oracle (implementation only): scripted protocol runs of every shipped overlay class with DEFAULT settings on the
    repo's mock network under the virtual clock; unload is requested at a chosen packet index or virtual time; then late
    datagrams (replays of everything the node ever received + every message id) and two virtual hours; monitors: sends,
    handler entries, task bodies, pending futures, probes of register_task/replace_task/RequestCache.add, open exit
    transports.
"""
from __future__ import annotations

import asyncio
import logging
import os
import random
import re
import socket
import sys

from vlib import Ctx, InfraError, TranslatorError  # noqa: F401

PROPERTY = "C11"
LEAN_TARGETS = ["Ipv8.C11.Props"]
PROPS_FILE = "Ipv8/C11/Props.lean"
DRIVER = "drv_c11"
RULE = ("registry / taskmanager / requestcache / service: random op sequences (lengths 3-40) over small name/prefix alphabets, "
        "distinct = distinct op sequence, non-trivial = registry: contains a delivery query, taskmanager: >= 4 ops and a "
        "successful register, requestcache: contains an add, service: contains an unload_overlay; unload-static: "
        "non-trivial only with an open exit socket; "
        "scenarios: (overlay class, endpoint stack, scenario family, target role, unload trigger, who requests the unload) with "
        "the trigger a packet index, a virtual time, a loop iteration, or k iterations / t seconds after a marked event; "
        "distinct = distinct tuple; non-trivial = the unloaded overlay had "
        "sent or received at least one datagram, or owned an unfinished task other than the built-in periodic ones, when "
        "unload was requested")
TRUSTED_BASE = [
    "tools/gen_c11.py: AST translation of the unload() chain of every shipped overlay class into a small op vocabulary (unknown statements are rejected)",
    "hand-written Lean models of the listener registry (incl. TunnelEndpoint back reference and tunnel-side delivery), of TaskManager on asyncio's cancellation rules (RequestCache is run against the same model, it has no model of its own), of the unload statement vocabulary and of the service's strategy list (Ipv8/C11/Model.lean), tied by the correspondence run",
    "asyncio's scheduling rules as encoded in the scheduler model (cancellation is delivered on a later loop iteration; done callbacks run after completion); tools/vclock.py ties virtual time to CPython's loop",
    "the repo's mock network (ipv8/test/mocking) as the transport in scenario runs; the Rust extension ipv8_rust_tunnels for the real tunnel crypto (not modelled: C11 needs no crypto law)",
]
ASSUMPTIONS = [
    "the scheduler model only knows tasks created through the TaskManager API (register_task/replace_task/@task); the code also spawns bare ensure_future tasks (Community._bootstrap -> bootstrapper.initialize) and application-owned coroutines run overlay code: these are only watched by the scenario oracle (sends, sockets, suspended coroutines)",
    "listener ids added to the registry after unload are not the unloaded overlay nor a proxy forwarding to it (hypothesis `Foreign` of silent_after_unload)",
    "scenario runs use the mock network; kernel sockets are only opened by tunnel exit sockets (real UDP sockets bound to 0.0.0.0/:: port 0)",
]

LATE_SECONDS = 45.0
TWO_HOURS = 7200.0


# ======================================================================================================
# part 1: scenario oracle on the real overlays
# ======================================================================================================
class Sim:
    """One scenario run: nodes on the mock network, a recording tap, the unload trigger and the monitors."""

    current: "Sim | None" = None

    def __init__(self, loop):
        self.loop = loop
        self.nodes = []
        self.step = 0                     # packets sent so far (all nodes)
        self.trigger_step = None
        self.target = None                # Node whose overlay gets unloaded
        self.unload_started = None
        self.unload_done = None           # virtual time at which unload() returned
        self.unload_error = None
        self.violations = []              # (signature, what)
        self.task_records = []            # (manager, name, future, is_callable)
        self.transports = []              # (exit_socket, transport)
        self.received = {}                # endpoint -> list of (src, data)
        self.quiet = False                # True while the harness itself pokes at the overlay
        self.stats = {"pre_sent": 0, "pre_recv": 0, "pre_tasks": 0}
        self.seen_ids = set()
        self._unload_task = None
        self.trigger_mark = None          # (event, occurrence, "iter"|"time", value): unload relative to a marked event
        self.mark_counts = {}
        self.loop_transports = []         # (owner overlay or None, transport) for every loop.create_datagram_endpoint
        self.socket_baseline = None
        self.app_jobs = []                # application-owned API coroutines kept in flight across the unload
        self.children = {}                # id(creator overlay) -> overlays it created
        self.children_done_before = []    # children that had been unloaded already when the parent's unload was requested
        self.extra_overlays = []          # overlays the scenario's application created next to the nodes' overlays
        self.owner_unloaded = []          # (child overlay, parent overlay, virtual time its unload() returned): unloaded by its owner
        self.iter = 0                     # event-loop iterations of this run so far
        self.trigger_iter = None          # request the unload when this iteration starts
        self.send_iters = []              # (iteration, index of the destination node) of every packet sent

    # ---- bookkeeping -------------------------------------------------------------------------------
    def owned_overlays(self):
        """The unloaded overlay and the overlays it created itself and still owned when the unload was requested (e.g. the
        PexCommunity a HiddenTunnelCommunity runs for an introduction point): they are its resources."""
        ov = self.target.overlay
        return [ov] + [c for c in self.children.get(id(ov), []) if c not in self.children_done_before]

    def is_owned_manager(self, m):
        for o in self.owned_overlays():
            if m is o or m is getattr(o, "request_cache", None) or getattr(m, "overlay", None) is o:
                return True
        return False

    def owned_managers(self):
        """TaskManagers that belong to the unloaded overlay: itself, its request cache, its exit sockets, its child overlays."""
        owned = []
        for o in self.owned_overlays():
            owned.append(o)
            rc = getattr(o, "request_cache", None)
            if rc is not None:
                owned.append(rc)
        for m, _, _, _ in self.task_records:
            if self.is_owned_manager(m) and not any(m is x for x in owned):
                owned.append(m)
        return owned

    def violate(self, sig, what):
        if all(v[0] != sig for v in self.violations):      # first occurrence per signature and run
            self.violations.append((sig, what))

    def after_unload(self):
        return self.unload_done is not None and not self.quiet

    def on_send(self, ep, addr, packet):
        self.step += 1
        node = ep.node
        dst = getattr(self.internet.get(addr), "node", None) if getattr(self, "internet", None) is not None else None
        self.send_iters.append((self.iter, self.nodes.index(dst) if dst in self.nodes else -1))
        if len(packet) > 22:
            self.seen_ids.add(packet[22])
        if self.target is not None and node is self.target:
            if self.unload_started is None:
                self.stats["pre_sent"] += 1
            if self.after_unload() and packet[:22] == self.target.prefix:
                self.violate("endpoint.send:after-unload",
                             f"{type(self.target.overlay).__name__} sent msg id {packet[22] if len(packet) > 22 else -1} "
                             f"{self.loop.time() - self.unload_done:.1f} virtual s after unload() returned")
            elif self.after_unload():
                for child in self.owned_overlays()[1:]:
                    if packet[:22] == child.get_prefix():
                        self.violate("owned-overlay.send:after-unload",
                                     f"the {type(child).__name__} that the unloaded {type(self.target.overlay).__name__} had "
                                     f"created sent msg id {packet[22] if len(packet) > 22 else -1} "
                                     f"{self.loop.time() - self.unload_done:.1f} virtual s after unload() returned")
        for child, parent, t in self.owner_unloaded:
            if getattr(node, "overlay", None) is parent and packet[:22] == child.get_prefix() \
                    and not any(c2 is not child and self.owner_unloaded_at(c2) is None and c2.get_prefix() == packet[:22]
                                for c2 in self.children.get(id(parent), [])):     # no successor with the same prefix is loaded
                self.violate("endpoint.send:after-unload",
                             f"the {type(child).__name__} that its owner ({type(parent).__name__}, still loaded or not) had unloaded "
                             f"sent msg id {packet[22] if len(packet) > 22 else -1} {self.loop.time() - t:.1f} virtual s after that "
                             f"unload() returned")
        if self.trigger_step is not None and self.step - 1 == self.trigger_step and self.unload_started is None:
            self.request_unload()

    def mark(self, event, node):
        """A scenario / hook announces an event of `node` (API call started, socket acquisition started, ...)."""
        if node is None or node is not self.target or self.unload_started is not None:
            return
        j = self.mark_counts.get(event, 0)
        self.mark_counts[event] = j + 1
        tm = self.trigger_mark
        if tm is None or tm[0] != event or tm[1] != j:
            return
        if tm[2] == "time":
            self.loop.call_later(tm[3], self.request_unload)
            return

        def countdown(k):
            if k <= 0:
                self.request_unload()
            else:
                self.loop.call_soon(countdown, k - 1)
        countdown(tm[3])

    def strategy_stepped(self, strategy):
        hit = self.owner_unloaded_at(getattr(strategy, "overlay", None))
        if hit is not None and not self.quiet:
            self.violate("strategy.take_step:after-unload",
                         f"the service stepped {type(strategy).__name__} of the {type(strategy.overlay).__name__} that its owner "
                         f"({type(hit[0]).__name__}) had unloaded {self.loop.time() - hit[1]:.1f} virtual s earlier")
        if self.target is not None and self.after_unload() and getattr(strategy, "overlay", None) is self.target.overlay:
            self.violate("strategy.take_step:after-unload",
                         f"the service stepped {type(strategy).__name__} of the unloaded {type(self.target.overlay).__name__} "
                         f"{self.loop.time() - self.unload_done:.1f} virtual s after unload_overlay() returned")

    def child_created(self, parent, child):
        """Count the handler entries of an overlay that one of the run's overlays creates (decode_map is filled later, in the
        child's constructor: wrap lazily through on_packet)."""
        sim = self
        orig = child.on_packet

        def on_packet(packet, *a, **k):
            if sim.target is not None and sim.after_unload() and any(child is c for c in sim.owned_overlays()[1:]) \
                    and packet[1][:22] == child.get_prefix():
                sim.violate("owned-overlay.on_packet:after-unload",
                            f"the {type(child).__name__} that the unloaded {type(sim.target.overlay).__name__} had created "
                            f"still receives datagrams {sim.loop.time() - sim.unload_done:.1f} virtual s after unload() returned")
            return orig(packet, *a, **k)
        child.on_packet = on_packet
        orig_unload = child.unload

        async def unload(*a, **k):
            res = await orig_unload(*a, **k)
            if all(c is not child for c, _, _ in sim.owner_unloaded):
                sim.owner_unloaded.append((child, parent, sim.loop.time()))     # unloaded by the code of the run itself
            return res
        child.unload = unload

    def owner_unloaded_at(self, ov):
        for c, parent, t in self.owner_unloaded:
            if c is ov:
                return parent, t
        return None

    def node_of_overlay(self, ov):
        for nd in self.nodes:
            if nd.overlay is ov:
                return nd
        return None

    def on_receive(self, ep, packet):
        self.received.setdefault(ep, []).append(packet)
        if self.target is not None and ep.node is self.target and self.unload_started is None:
            self.stats["pre_recv"] += 1

    def request_unload(self):
        if self.unload_started is not None or self.target is None:
            return
        self.unload_started = self.loop.time()
        ov = self.target.overlay
        self.children_done_before = [c for c in self.children.get(id(ov), []) if getattr(c, "_shutdown", False)]
        self.stats["owned_children"] = len(self.owned_overlays()) - 1
        builtin = ("_check_tasks", "discover_lan_addresses", "do_circuits", "do_ping", "do_peer_discovery",
                   "token_maintenance", "node_maintenance", "value_maintenance")
        self.stats["pre_tasks"] = sum(1 for m, name, f, _ in self.task_records
                                      if (m is ov or getattr(m, "overlay", None) is ov
                                          or m is getattr(ov, "request_cache", None)) and not f.done()
                                      and name not in builtin)

        finished = self.loop.create_future()
        self._unload_task = finished

        async def do():
            try:
                # the application may have used the PUBLIC API every overlay inherits (TaskManager, its request cache)
                # before it unloads: the unload still has to do all of its work
                pre = getattr(self, "pre_history", None)
                rc_pre = getattr(ov, "request_cache", None)
                if pre == "shutdown_task_manager":
                    await ov.shutdown_task_manager()
                elif pre == "cancel_all_pending_tasks":
                    ov.cancel_all_pending_tasks()
                    await asyncio.sleep(0)
                elif pre == "request_cache.shutdown" and rc_pre is not None:
                    await rc_pre.shutdown()
                elif pre == "unload-twice":
                    pass
                svc = getattr(self.target, "service", None)
                if svc is not None:
                    await svc.unload_overlay(ov)      # the way an application unloads an overlay of a running service
                else:
                    await ov.unload()
                if getattr(self, "pre_history", None) == "unload-twice":
                    await ov.unload()                 # a second unload has to be harmless
            except Exception as e:  # noqa: BLE001
                self.unload_error = f"{type(e).__name__}: {e}"
            except asyncio.CancelledError:
                self.stats["unload_task_cancelled"] = 1       # judged from this moment on all the same
                raise
            finally:
                self.unload_done = self.loop.time()
                if not finished.done():
                    finished.set_result(None)

        mode = getattr(self, "self_unload", False)
        rc = getattr(ov, "request_cache", None)
        if mode == "periodic":
            # a periodic task of the overlay decides to leave in its first round; its later rounds (there must be none)
            # would go on walking
            state = {"rounds": 0}
            others = [nd.base.wan_address for nd in self.nodes if nd is not self.target] or [("10.9.9.9", 9)]

            async def maintenance():
                state["rounds"] += 1
                if state["rounds"] == 1:
                    await do()
                else:
                    ov.walk_to(others[0])
            ov.register_task("application maintenance", maintenance, interval=2.0, delay=0)
        elif mode == "cache-task" and rc is not None:
            rc.register_anonymous_task("application decides to leave", do)      # a task of the overlay's request cache
        elif mode:
            # one of the overlay's OWN tasks (e.g. an async message handler) awaits the unload
            ov.register_anonymous_task("application decides to leave", do)
        else:
            asyncio.ensure_future(do())

    def handler_entered(self, node, kind, msg_id):
        if node is self.target and self.after_unload():
            self.violate("on_packet:handler-after-unload",
                         f"{type(node.overlay).__name__} ran its {kind} handler for msg id {msg_id} "
                         f"{self.loop.time() - self.unload_done:.1f} virtual s after unload() returned")

    def task_body_ran(self, manager, name):
        if self.target is None or not self.after_unload():
            return
        ov = self.target.overlay
        if self.is_owned_manager(manager):
            self.violate("taskmanager:task-ran-after-unload",
                         f"task {name!r} of {type(manager).__name__} ({type(ov).__name__}) ran "
                         f"{self.loop.time() - self.unload_done:.1f} virtual s after unload() returned")


class Node:
    def __init__(self, sim, overlay, endpoint, base_endpoint):
        self.sim = sim
        self.overlay = overlay
        self.endpoint = endpoint
        self.base = base_endpoint
        self.prefix = overlay.get_prefix()
        base_endpoint.node = self


_PATCHED = {}
_PATCHED_CACHE = {}


def install_patches():
    """Harness-side observation points (no repo change): every patch delegates to the original."""
    if _PATCHED:
        return
    from asyncio import iscoroutinefunction

    import ipv8.overlay as ov_mod
    from ipv8.messaging.anonymization import exit_socket as es_mod
    from ipv8.taskmanager import TaskManager
    from ipv8.test.mocking.endpoint import AutoMockEndpoint
    AutoMockEndpoint.SEND_INET_EXCEPTION_TO_LOOP = False

    orig_register = TaskManager.register_task

    def register_task(self, name, user_task, *args, **kwargs):
        sim = Sim.current
        is_callable = callable(user_task)
        if sim is not None and is_callable and not sim.quiet:
            inner = user_task
            if iscoroutinefunction(inner):
                async def wrapped(*a):
                    s = Sim.current
                    if s is not None:
                        s.task_body_ran(self, name)
                    return await inner(*a)
            else:
                def wrapped(*a):
                    s = Sim.current
                    if s is not None:
                        s.task_body_ran(self, name)
                    return inner(*a)
            user_task = wrapped
        fut = orig_register(self, name, user_task, *args, **kwargs)
        if sim is not None and not sim.quiet:
            sim.task_records.append((self, name, fut, is_callable))
        return fut

    TaskManager.register_task = register_task
    _PATCHED["register_task"] = orig_register

    orig_open = es_mod.TunnelProtocol.open

    async def tp_open(self):
        transport = await orig_open(self)
        sim = Sim.current
        if sim is not None:
            sim.transports.append((getattr(self.received_cb, "__self__", None), transport))
        return transport

    es_mod.TunnelProtocol.open = tp_open

    orig_ov_init = ov_mod.Overlay.__init__

    def ov_init(self, *a, **k):
        orig_ov_init(self, *a, **k)
        sim = Sim.current
        if sim is None:
            return
        f = sys._getframe(1)  # noqa: SLF001
        depth = 0
        while f is not None and depth < 30:
            obj = f.f_locals.get("self")
            if obj is not None and obj is not self and any(nd.overlay is obj for nd in sim.nodes):
                sim.children.setdefault(id(obj), []).append(self)      # created by one of the run's overlays
                sim.child_created(obj, self)
                return
            f = f.f_back
            depth += 1

    ov_mod.Overlay.__init__ = ov_init
    _PATCHED["ov_init"] = orig_ov_init

    import ipv8_service
    orig_add_strategy = ipv8_service.IPv8.add_strategy

    def add_strategy(self, overlay, strategy, target_peers):
        sim = Sim.current
        if sim is not None and not getattr(strategy, "c11_watched", False):
            watch_strategy(sim, strategy)
        return orig_add_strategy(self, overlay, strategy, target_peers)

    ipv8_service.IPv8.add_strategy = add_strategy
    _PATCHED["add_strategy"] = orig_add_strategy

    orig_enable = es_mod.TunnelExitSocket.enable

    def enable(self):
        sim = Sim.current
        if sim is not None and not self.enabled:
            sim.mark("enable", sim.node_of_overlay(self.overlay))
        return orig_enable(self)

    es_mod.TunnelExitSocket.enable = enable
    _PATCHED["enable"] = orig_enable
    _PATCHED["tp_open"] = orig_open
    # LAN address discovery runs in a thread pool (real time): keep the periodic task, make its body deterministic
    ov_mod.get_providers = lambda: []
    logging.disable(logging.CRITICAL)


def make_endpoint_class():
    from ipv8.test.mocking.endpoint import AutoMockEndpoint

    class RecEndpoint(AutoMockEndpoint):
        node = None

        def send(self, socket_address, packet):
            sim = Sim.current
            if sim is not None:
                sim.on_send(self, socket_address, packet)
            try:
                super().send(socket_address, packet)
            except AssertionError:
                pass    # unknown mock address: a UDP socket would not raise either

        def notify_listeners(self, packet):
            sim = Sim.current
            if sim is not None:
                sim.on_receive(self, packet)
            super().notify_listeners(packet)

    return RecEndpoint


def overlay_classes():
    """name -> class for every shipped overlay class (same list as the translator's, see gen_c11.CLASSES)."""
    import gen_c11
    if "classes" not in _PATCHED_CACHE:
        _PATCHED_CACHE["classes"] = gen_c11.load_classes()
    return _PATCHED_CACHE["classes"]


def build_node(sim, cls, stack, flags=None, companion=False, controller=False):
    from ipv8.keyvault.crypto import default_eccrypto
    from ipv8.messaging.anonymization.endpoint import TunnelEndpoint
    from ipv8.peer import Peer
    from ipv8.peerdiscovery.network import Network
    rec_cls = make_endpoint_class()
    if controller:
        base_cls = rec_cls

        class rec_cls(base_cls):          # IPv8.start() awaits endpoint.open()
            async def open(self):
                base_cls.open(self)
                return True
    rec = rec_cls()
    if controller:
        type(rec).__mro__[1].open(rec)
    else:
        rec.open()
    extra = []
    if stack == "tunnel-endpoint":
        endpoint = TunnelEndpoint(rec)
    elif stack == "statistics-endpoint":
        from ipv8.messaging.interfaces.statistics_endpoint import StatisticsEndpoint
        endpoint = StatisticsEndpoint(rec)
    elif stack == "dispatcher":
        # the endpoint class of every default service; its two interfaces are mock endpoints here (no real UDP)
        from ipv8.messaging.interfaces.dispatcher.endpoint import DispatcherEndpoint
        rec2 = make_endpoint_class()()
        rec2.open()
        endpoint = DispatcherEndpoint([])
        endpoint.interfaces = {"UDPIPv4": rec, "UDPIPv6": rec2}
        endpoint.interface_order = ["UDPIPv4", "UDPIPv6"]
        endpoint._preferred_interface = rec  # noqa: SLF001
        extra = [rec2]
    else:
        endpoint = rec
    peer = Peer(default_eccrypto.generate_key("curve25519"), rec.wan_address)
    settings = cls.settings_class(my_peer=peer, endpoint=endpoint, network=Network())   # DEFAULT settings
    name = cls.__name__
    if name in ("AttestationCommunity", "IdentityCommunity"):
        settings.working_directory = ":memory:"          # storage location only
    if name == "PexCommunity":
        settings.info_hash = b"\x11" * 20
    if flags is not None and hasattr(settings, "peer_flags"):
        settings.peer_flags = set(flags)
    svc = None
    if controller:
        # registered with a real (unstarted) IPv8 controller, as hidden services need one to run their PEX overlays
        from ipv8_service import IPv8
        svc = IPv8({"logger": {"level": "CRITICAL"}, "overlays": [], "keys": [], "walker_interval": 0.5},
                   endpoint_override=endpoint)
        logging.disable(logging.CRITICAL)
        if hasattr(settings, "ipv8"):
            settings.ipv8 = svc
    overlay = cls(settings)
    if svc is not None:
        svc.overlays.append(overlay)
    overlay.my_estimated_wan = rec.wan_address
    overlay.my_estimated_lan = rec.lan_address
    node = Node(sim, overlay, endpoint, rec)
    node.companion = None
    if svc is not None:
        node.service = svc
        node.all_overlays = [overlay]
    node.extra_bases = extra
    for e in extra:
        e.node = node
    add_bootstrappers(overlay)
    if companion and stack == "tunnel-endpoint":
        # a second overlay of the same application that sends anonymously (shipped setting `anonymize=True`): its
        # traffic is routed by the TunnelEndpoint through whatever tunnel community the endpoint refers to
        from ipv8.community import CommunitySettings
        cset = CommunitySettings(my_peer=peer, endpoint=endpoint, network=Network())
        cset.anonymize = True
        node.companion = classes_by_name()["DiscoveryCommunity"](cset)
        node.companion.my_estimated_wan = rec.wan_address
        node.companion.my_estimated_lan = rec.lan_address
    instrument(sim, node)
    sim.nodes.append(node)
    return node


def classes_by_name():
    return overlay_classes()


def add_bootstrappers(overlay):
    """The two shipped bootstrapper classes.  The Dispersy one is pointed at a silent mock address (there is no Internet);
    the UDP-broadcast one really opens its broadcast socket, only its 65535-port beacon is cut to 3 ports."""
    from ipv8.bootstrapping.dispersy.bootstrapper import DispersyBootstrapper
    from ipv8.bootstrapping.udpbroadcast.bootstrapper import UDPBroadcastBootstrapper
    d = DispersyBootstrapper(ip_addresses=[], dns_addresses=[], bootstrap_timeout=0.0)
    u = UDPBroadcastBootstrapper(bootstrap_timeout=0.0)

    def beacon(service_prefix, _u=u):
        if _u.endpoint is not None:
            for port in (1, 2, 3):
                _u.endpoint.send(("255.255.255.255", port), b"c11-beacon" + service_prefix)
    u.beacon = beacon
    overlay.bootstrappers.extend([d, u])


def wire_bootstrappers(nodes):
    from ipv8.messaging.interfaces.udp.endpoint import UDPv4Address
    for nd in nodes:
        for ov in getattr(nd, "all_overlays", [nd.overlay]):
            for b in getattr(ov, "bootstrappers", []):
                if hasattr(b, "ip_addresses"):
                    # a bootstrap server that never answers (bootstrap addresses are blacklisted as peers, so the run's
                    # own nodes cannot play that role)
                    b.ip_addresses = [UDPv4Address("10.99.99.99", 6421)]


def companions_send(nodes):
    """The other overlays of the application go on with their own business (they were not unloaded)."""
    for nd in nodes:
        comp = getattr(nd, "companion", None)
        if comp is not None:
            for other in nodes:
                if other is not nd:
                    guarded(comp.walk_to, other.base.wan_address)


async def sc_anon(sim, nodes, rng):
    """A tunnel overlay plus an anonymised overlay on one TunnelEndpoint: the anonymised overlay's sends are turned into
    circuits / data cells by the tunnel overlay the endpoint refers to."""
    await introduce(nodes)
    await nap(0.5)
    for _ in range(3):
        companions_send(nodes)
        await nap(2.0)
    for n in nodes:
        act(n, "do_ping")
    await nap(4.0)


def watch_strategy(sim, strategy):
    if getattr(strategy, "c11_watched", False):
        return
    strategy.c11_watched = True
    orig = strategy.take_step

    def take_step(*a, **k):
        sim.strategy_stepped(strategy)
        return orig(*a, **k)
    strategy.take_step = take_step


def build_service(sim, cls_name, stack, rng):
    """A real ipv8_service.IPv8 with the DEFAULT configuration (all default overlays and walkers) on a mock endpoint.
    Returns the Node of the overlay of class `cls_name`; node.service is the IPv8 instance."""
    import copy

    from ipv8.configuration import get_default_configuration
    from ipv8.messaging.anonymization.endpoint import TunnelEndpoint
    from ipv8.peerdiscovery.discovery import RandomWalk
    from ipv8_service import IPv8
    rec_cls = make_endpoint_class()

    class ServiceEndpoint(rec_cls):
        async def open(self):          # IPv8.start() awaits endpoint.open()
            rec_cls.open(self)
            return True

    rec = ServiceEndpoint()
    endpoint = TunnelEndpoint(rec) if stack == "tunnel-endpoint" else rec
    conf = copy.deepcopy(get_default_configuration())
    conf["logger"] = {"level": "CRITICAL"}
    for key in conf["keys"]:
        key["file"] = ""                      # storage location only
    for o in conf["overlays"]:
        for b in o["bootstrappers"]:          # the default DispersyBootstrapper stays; no Internet in the sandbox:
            b["init"] = {"ip_addresses": [], "dns_addresses": [], "bootstrap_timeout": 0.0}   # addresses are wired later
    svc = IPv8(conf, endpoint_override=endpoint)
    logging.disable(logging.CRITICAL)
    node = None
    for ov in svc.overlays:
        ov.my_estimated_wan = rec.wan_address
        ov.my_estimated_lan = rec.lan_address
        if type(ov).__name__ == cls_name:
            node = Node(sim, ov, endpoint, rec)
    if node is None:
        raise InfraError(f"default configuration has no overlay {cls_name}")
    # more strategies, consecutive and interleaved, for randomly chosen overlays (the application may add any)
    for _ in range(rng.randrange(0, 5)):
        ov = rng.choice(svc.overlays)
        svc.add_strategy(ov, RandomWalk(ov, timeout=3.0), rng.choice([-1, 20]))
    for strategy, _ in svc.strategies:
        watch_strategy(sim, strategy)
    node.service = svc
    node.all_overlays = list(svc.overlays)
    instrument(sim, node)
    sim.nodes.append(node)
    return node


SERVICE_CLASSES = ["DHTDiscoveryCommunity", "DiscoveryCommunity", "HiddenTunnelCommunity"]


async def sc_service(sim, nodes, rng):
    """Real services with the default configuration: tickers drive the walkers; everybody gets introduced."""
    for nd in nodes:
        await nd.service.start()
        for ov in nd.all_overlays:
            guarded(ov.bootstrap)
    await nap(0.2)
    for x in nodes:
        for y in nodes:
            if x is not y:
                for ov in x.all_overlays:
                    if not (x is sim.target and sim.unload_started is not None and ov is x.overlay):
                        guarded(ov.walk_to, y.base.wan_address)
    await nap(rng.choice([2.0, 6.0, 12.0]))


def instrument(sim, node):
    """Count handler entries of this overlay instance (instance attributes only)."""
    ov = node.overlay

    def wrap(h, kind, mid):
        def w(*a, **k):
            sim.handler_entered(node, kind, mid)
            return h(*a, **k)
        return w

    for mid, h in enumerate(ov.decode_map):
        if h is not None:
            ov.decode_map[mid] = wrap(h, "socket", mid)
    priv = getattr(ov, "decode_map_private", None)
    if priv:
        for mid in list(priv):
            priv[mid] = wrap(priv[mid], "circuit", mid)


# ---- scenario scripts (each returns after the scripted activity; unload may hit at any point) -------------------
async def nap(t):
    await asyncio.sleep(t)


async def introduce(nodes):
    for x in nodes:
        act(x, "bootstrap")
        act(x, "bootstrap")        # two walkers in one tick: a second bootstrap round starts before the first has finished
    await nap(0.1)
    for x in nodes:
        act(x, "bootstrap")
    for x in nodes:
        for y in nodes:
            if x is not y:
                act(x, "walk_to", y.base.wan_address)
    await nap(0.5)


async def sc_intro(sim, nodes, rng):
    await introduce(nodes)
    for _ in range(3):
        for n in nodes:
            act(n, "get_new_introduction")
        await nap(2.0)


def guarded(f, *a, **k):
    try:
        return f(*a, **k)
    except Exception:  # noqa: BLE001
        return None


def act(node, meth, *a, **k):
    """The application drives an overlay's API only while it has not asked for the unload."""
    sim = node.sim
    if node is sim.target and sim.unload_started is not None:
        return None
    try:
        return getattr(node.overlay, meth)(*a, **k)
    except Exception:  # noqa: BLE001
        return None


async def aact(node, meth, *a, **k):
    sim = node.sim
    if node is sim.target and sim.unload_started is not None:
        return None
    return await aguarded(getattr(node.overlay, meth)(*a, **k))


async def aguarded(coro, timeout=120.0):
    try:
        return await asyncio.wait_for(coro, timeout)
    except (Exception, asyncio.CancelledError):  # noqa: BLE001
        return None


async def sc_discovery(sim, nodes, rng):
    await introduce(nodes)
    for n in nodes:
        for m in nodes:
            if n is not m:
                act(n, "send_similarity_request", m.base.wan_address)
    await nap(1.0)
    for n in nodes:
        for p in list(n.overlay.get_peers()):
            act(n, "send_ping", p)
    await nap(3.0)
    # a ping towards a peer that never answers: its cache must time out (or be shut down)
    from ipv8.keyvault.crypto import default_eccrypto
    from ipv8.peer import Peer
    ghost = Peer(default_eccrypto.generate_key("curve25519"), ("1.2.3.4", 5))
    for n in nodes:
        act(n, "send_ping", ghost)
    await nap(6.0)


async def sc_dht(sim, nodes, rng):
    await introduce(nodes)
    await nap(1.0)
    key = bytes(rng.getrandbits(8) for _ in range(20))
    jobs = [asyncio.ensure_future(aact(nodes[0], "store_value", key, b"value-1", sign=bool(rng.getrandbits(1))))]
    await nap(2.0)
    jobs.append(asyncio.ensure_future(aact(nodes[1], "find_values", key)))
    if hasattr(nodes[0].overlay, "store_peer"):
        jobs.append(asyncio.ensure_future(aact(nodes[2 % len(nodes)], "store_peer")))
        await nap(2.0)
        jobs.append(asyncio.ensure_future(aact(nodes[0], "connect_peer", nodes[2 % len(nodes)].overlay.my_peer.mid)))
    await nap(8.0)
    for j in jobs:
        if not j.done():
            j.cancel()
    await nap(0.1)


async def sc_tunnel(sim, nodes, rng):
    from ipv8.messaging.anonymization.tunnel import PEER_FLAG_EXIT_BT
    await introduce(nodes)
    a = nodes[0]
    hops = sim.hops
    circ = act(a, "create_circuit", hops, exit_flags=[PEER_FLAG_EXIT_BT])
    await nap(1.5)
    bt = b"d1:ad2:id20:abcdefghij0123456789e1:q4:ping1:t2:aa1:y1:qe"
    for i in range(3):
        if circ is not None and circ.hop is not None:
            act(a, "send_data", circ.hop.address, circ.circuit_id, ("127.0.0.1", sim.outside_port),
                ("0.0.0.0", 0), bt)
        await nap(0.7)
    # a second originator builds its own circuit to the same exit while the first one is in use
    if len(nodes) > 2:
        c2 = act(nodes[1], "create_circuit", 1, exit_flags=[PEER_FLAG_EXIT_BT])
        await nap(0.6)
        if c2 is not None and c2.hop is not None:
            act(nodes[1], "send_data", c2.hop.address, c2.circuit_id, ("127.0.0.1", sim.outside_port), ("0.0.0.0", 0), bt)
        await nap(0.4)
    for n in nodes:
        act(n, "do_ping")
    await nap(4.0)
    if circ is not None and rng.random() < 0.5:
        act(a, "remove_circuit", circ.circuit_id, "scenario", destroy=1)
    await nap(7.0)


class _StubKey:
    """Application-side attribute key: only its serialised public part travels in the request."""

    def public_key(self):
        return self

    def serialize(self):
        return b"c11-public-key"


async def sc_attestation(sim, nodes, rng):
    """Attestation requests whose application callback has not answered yet: the handler coroutine is suspended."""
    await introduce(nodes)
    pending = []
    for n in nodes:
        def cb(peer, attribute, metadata, _p=pending):
            f = asyncio.get_running_loop().create_future()
            _p.append(f)
            return f
        n.overlay.attestation_request_callback = cb
    for i, n in enumerate(nodes):
        for m in nodes:
            if n is not m:
                for p in list(n.overlay.get_peers()):
                    if p.address == m.base.wan_address:
                        act(n, "request_attestation", p, f"attr{i}", _StubKey(), {"id_format": "id_metadata"})
        await nap(0.7)
    await nap(1.5)
    if rng.random() < 0.6:
        # WHITE BOX: a long-running session — the anonymous-name counter of every overlay is moved forward to just below a power
        # of two (the 2**k handled messages in between are not executed); then further requests arrive while the first
        # handlers are still waiting for the application
        wrap = rng.choice(ANON_WRAPS)
        for n in nodes:
            if not (n is sim.target and sim.unload_started is not None):
                n.overlay._counter = max(n.overlay._counter, wrap - 2)  # noqa: SLF001
        sim.stats["counter_fast_forward"] = wrap.bit_length() - 1
        for i, n in enumerate(nodes):
            for m in nodes:
                if n is not m:
                    for p in list(n.overlay.get_peers()):
                        if p.address == m.base.wan_address:
                            act(n, "request_attestation", p, f"again{i}", _StubKey(), {"id_format": "id_metadata"})
            await nap(0.3)
    await nap(1.5)
    sim.app_futures = pending


def silence_peers(sim, nodes, target, rng):
    """Some / all other nodes stop answering (their endpoint is closed): requests towards them stay outstanding."""
    mode = getattr(sim, "silence", "none")
    others = [nd for nd in nodes if nd is not target]
    if mode == "all":
        quiet = others
    elif mode == "half":
        quiet = [nd for i, nd in enumerate(others) if i % 2 == 0]
    else:
        quiet = []
    for nd in quiet:
        nd.base.close()
    return quiet


def start_job(sim, coro):
    async def run():
        try:
            return await coro
        except (Exception, asyncio.CancelledError):  # noqa: BLE001
            return None
    j = asyncio.ensure_future(run())
    sim.app_jobs.append(j)
    return j


INFLIGHT_APIS = {
    "DHTCommunity": ["store_value", "store_value(signed)", "find_values", "find_nodes"],
    "DHTDiscoveryCommunity": ["store_value", "store_value(signed)", "find_values", "find_nodes", "store_peer", "connect_peer"],
    "TunnelCommunity": ["create_circuit", "remove_circuit(delayed)", "dht_peer_lookup"],
    "HiddenTunnelCommunity": ["create_circuit", "remove_circuit(delayed)", "dht_peer_lookup", "create_introduction_point",
                              "create_rendezvous_point", "estimate_swarm_size"],
}


async def sc_inflight(sim, nodes, rng):
    """Public (async) API calls started by the APPLICATION and still in flight — at any of their await points — when
    unload is requested and completes.  The coroutines belong to the application; nobody cancels them."""
    target = sim.target if sim.target is not None else nodes[0]
    ov = target.overlay
    name = type(ov).__name__
    await introduce(nodes)
    await nap(0.5)
    key = bytes(rng.getrandbits(8) for _ in range(20))
    if "DHT" in name:
        # warm-up: a regular lookup and a stored value, so that the caller holds store tokens and a value exists
        for nd in nodes:
            await aguarded(nd.overlay.find_nodes(key), 30)
        await aguarded(nodes[-1 if target is not nodes[-1] else 0].overlay.store_value(key, b"warm-up"), 30)
        await nap(1.0)
    else:
        from ipv8.messaging.anonymization.tunnel import PEER_FLAG_EXIT_BT
        circ = guarded(ov.create_circuit, 1, exit_flags=[PEER_FLAG_EXIT_BT]) if target is not nodes[-1] else None
        await nap(1.5)
    silence_peers(sim, nodes, target, rng)
    sim.mark("api", target)
    other = next(nd for nd in nodes if nd is not target)
    if "DHT" in name:
        start_job(sim, ov.store_value(key, b"value-2"))
        start_job(sim, ov.store_value(bytes(rng.getrandbits(8) for _ in range(20)), b"value-3", sign=True))
        start_job(sim, ov.find_values(key))
        start_job(sim, ov.find_nodes(bytes(rng.getrandbits(8) for _ in range(20))))
        if hasattr(ov, "store_peer"):
            start_job(sim, ov.store_peer())
            start_job(sim, ov.connect_peer(other.overlay.my_peer.mid))
    else:
        from ipv8.messaging.anonymization.tunnel import PEER_FLAG_EXIT_BT
        c2 = guarded(ov.create_circuit, 1, exit_flags=[PEER_FLAG_EXIT_BT])
        if circ is not None:
            guarded(ov.remove_circuit, circ.circuit_id, "application", remove_now=False, destroy=1)
        start_job(sim, ov.dht_peer_lookup(other.overlay.my_peer.mid))
        if hasattr(ov, "create_rendezvous_point"):
            ih = b"\x21" * 20
            guarded(ov.join_swarm, ih, 1, None, True)
            start_job(sim, ov.create_introduction_point(ih))
            start_job(sim, ov.create_rendezvous_point(ih))
            start_job(sim, ov.estimate_swarm_size(ih, 1, 3))
        del c2
    await nap(14.0)


async def sc_hidden_intro(sim, nodes, rng):
    """Hidden services under RUNNING IPv8 services: originators make the exit node an introduction point, which starts a
    PexCommunity of its own (same key, same endpoint, two strategies registered with the service) — an overlay that the
    introduction point owns.  A swarm member joins the PEX overlay; later the originators give their introduction circuits
    up, so the introduction point unloads the PEX overlay ITSELF while it stays loaded and its service keeps ticking."""
    from ipv8.keyvault.crypto import default_eccrypto
    from ipv8.messaging.anonymization.payload import EstablishIntroPayload
    from ipv8.messaging.anonymization.pex import PexCommunity, PexSettings
    from ipv8.messaging.anonymization.tunnel import PEER_FLAG_EXIT_BT
    from ipv8.peerdiscovery.network import Network
    for nd in nodes:
        if getattr(nd, "service", None) is not None:
            await nd.service.start()
    await introduce(nodes)
    info_hash = bytes(rng.getrandbits(8) for _ in range(20))
    circs = []
    for i, a in enumerate(nodes[:-1]):
        circ = act(a, "create_circuit", 1, exit_flags=[PEER_FLAG_EXIT_BT])
        await nap(1.2)
        if circ is not None and circ.hop is not None:
            seeder_pk = default_eccrypto.generate_key("curve25519").pub().key_to_bin()
            act(a, "send_cell", circ.hop.address, EstablishIntroPayload(circ.circuit_id, 40 + i, info_hash, seeder_pk))
            circs.append((a, circ))
        await nap(0.8)
    # a member of the swarm (on node 0's endpoint) joins the PEX overlay of the introduction point
    member = guarded(PexCommunity, PexSettings(my_peer=nodes[0].overlay.my_peer, endpoint=nodes[0].endpoint,
                                               network=Network(), info_hash=info_hash))
    if member is not None:
        sim.extra_overlays.append(member)
        guarded(member.walk_to, nodes[-1].base.wan_address)
    await nap(2.0)
    if rng.random() < 0.7:
        for a, circ in circs:          # the originators give their introduction circuits up
            act(a, "remove_circuit", circ.circuit_id, "application", remove_now=True, destroy=1)
            await nap(0.5)
    await nap(9.0)


SCENARIOS = {"hidden-intro": sc_hidden_intro, "anon": sc_anon, "service": sc_service, "inflight": sc_inflight, "attestation": sc_attestation, "intro": sc_intro, "discovery": sc_discovery, "dht": sc_dht, "tunnel": sc_tunnel}


def scenario_families(cls_name):
    fam = ["intro"]
    if cls_name == "DiscoveryCommunity":
        fam.append("discovery")
    if cls_name == "AttestationCommunity":
        fam.append("attestation")
    if cls_name in ("DHTCommunity", "DHTDiscoveryCommunity"):
        fam.append("dht")
    if cls_name in ("TunnelCommunity", "HiddenTunnelCommunity"):
        fam.append("tunnel")
    if cls_name in INFLIGHT_APIS:
        fam.append("inflight")
    if cls_name in ("TunnelCommunity", "HiddenTunnelCommunity"):
        fam.append("anon")
    if cls_name == "HiddenTunnelCommunity":
        fam.append("hidden-intro")
    return fam          # (+ family "service" for the classes of the default configuration, see service_specs)


def tunnel_flags(role_index, n, hops):
    from ipv8.messaging.anonymization.tunnel import PEER_FLAG_EXIT_BT, PEER_FLAG_EXIT_IPV8, PEER_FLAG_RELAY, PEER_FLAG_SPEED_TEST
    base = {PEER_FLAG_RELAY, PEER_FLAG_SPEED_TEST}
    if role_index == n - 1:
        return base | {PEER_FLAG_EXIT_BT, PEER_FLAG_EXIT_IPV8}
    return base


def drain(loop):
    """End of a run: ask every pending task to stop and give the loop a few iterations — without WAITING for them (a task
    that deadlocked on a gather containing itself can neither be cancelled nor awaited)."""
    try:
        for t in [t for t in asyncio.all_tasks(loop) if not t.done()]:
            try:
                t.cancel()
            except RecursionError:
                pass
        for _ in range(6):
            loop.run_until_complete(asyncio.sleep(0))
    except BaseException:  # noqa: BLE001
        pass


def count_socket_fds():
    n = 0
    try:
        for fd in os.listdir("/proc/self/fd"):
            try:
                if os.readlink("/proc/self/fd/" + fd).startswith("socket:"):
                    n += 1
            except OSError:
                pass
    except OSError:
        return None
    return n


def track_loop_sockets(sim):
    """Every UDP socket opened through the loop is recorded when it is created (not when the owner stores it), and the
    start of every acquisition is announced as a mark, attributed to an overlay through the calling frames."""
    loop = sim.loop
    orig = loop.create_datagram_endpoint

    def owner_overlay():
        f = sys._getframe(2)  # noqa: SLF001
        depth = 0
        while f is not None and depth < 25:
            obj = f.f_locals.get("self")
            if obj is not None:
                if any(nd.overlay is obj for nd in sim.nodes):
                    return obj
                ov = getattr(obj, "overlay", None)
                if ov is not None and any(nd.overlay is ov for nd in sim.nodes):
                    return ov
            f = f.f_back
            depth += 1
        return None

    async def create_datagram_endpoint(*a, **k):
        ov = owner_overlay()
        if ov is not None:
            sim.mark("acquire", sim.node_of_overlay(ov))
        transport, protocol = await orig(*a, **k)
        if ov is None:
            cb = getattr(protocol, "received_cb", None)
            ov = getattr(getattr(cb, "__self__", None), "overlay", None)
        sim.loop_transports.append((ov, transport))
        return transport, protocol

    loop.create_datagram_endpoint = create_datagram_endpoint


def run_scenario(spec, dry=False):
    """
    spec: {cls, stack, family, nodes, target, trigger: ["step", k] | ["time", t] | ["idle"], seed, hops}
    Returns (violations, stats).  Runs on a fresh virtual-clock loop.
    """
    import vclock
    install_patches()
    from ipv8.test.mocking import endpoint as mock_ep
    classes = overlay_classes()
    cls = classes[spec["cls"]]
    rng = random.Random(spec["seed"])
    random.seed(spec["seed"])
    loop = vclock.new_loop()
    sim = Sim(loop)
    sim.hops = spec.get("hops", 1)
    Sim.current = sim
    outside = socket.socket(socket.AF_INET, socket.SOCK_DGRAM)
    outside.bind(("127.0.0.1", 0))
    sim.outside_port = outside.getsockname()[1]
    track_loop_sockets(sim)
    sim.internet = mock_ep.internet
    orig_run_once = loop._run_once  # noqa: SLF001

    def run_once():
        sim.iter += 1
        if sim.trigger_iter is not None and sim.iter == sim.trigger_iter and sim.target is not None:
            sim.request_unload()
        orig_run_once()

    loop._run_once = run_once  # noqa: SLF001
    try:
        loop.run_until_complete(_scenario_main(sim, cls, spec, rng, dry))
    finally:
        Sim.current = None
        try:
            drain(loop)
            for _, tr in sim.transports + sim.loop_transports:
                if not tr.is_closing():
                    tr.close()
            loop.run_until_complete(asyncio.sleep(0))
            loop.run_until_complete(asyncio.sleep(0))
        except Exception:  # noqa: BLE001
            pass
        outside.close()
        vclock.uninstall()
        loop.close()
        asyncio.set_event_loop(None)
        mock_ep.internet.clear()
    sim.stats["steps"] = sim.step
    sim.stats["owner_unloaded"] = len(sim.owner_unloaded)
    sim.stats["send_iters"] = sim.send_iters if dry else []
    sim.stats["ids_seen"] = len(sim.seen_ids)
    return sim.violations, sim.stats


async def _scenario_main(sim, cls, spec, rng, dry):
    loop = sim.loop
    n = spec["nodes"]
    family = spec["family"]
    nodes = []
    for i in range(n):
        if family == "service":
            nodes.append(build_service(sim, spec["cls"], spec["stack"], rng))
            continue
        flags = tunnel_flags(i, n, sim.hops) if family in ("tunnel", "hidden-intro") or hasattr(cls.settings_class, "peer_flags") else None
        nodes.append(build_node(sim, cls, spec["stack"], flags, companion=(family == "anon"),
                                controller=(family == "hidden-intro")))
    target = nodes[spec["target"]]
    wire_bootstrappers(nodes)
    sim.socket_baseline = count_socket_fds()
    sim.silence = spec.get("silence", "none")
    sim.pre_history = spec.get("pre") or None
    sim.self_unload = spec.get("self_unload") or False
    if sim.self_unload is True:
        sim.self_unload = "own-task"
    if not dry:
        sim.target = target
        trig = spec["trigger"]
        if trig[0] == "step":
            sim.trigger_step = trig[1]
        elif trig[0] == "time":
            loop.call_later(trig[1], sim.request_unload)
        elif trig[0] == "mark":
            sim.trigger_mark = tuple(trig[1:])
        elif trig[0] == "iter":
            sim.trigger_iter = trig[1]
    await SCENARIOS[family](sim, nodes, rng)
    if dry:
        for nd in nodes:
            if getattr(nd, "service", None) is not None:
                await aguarded(nd.service.stop())
            else:
                await aguarded(nd.overlay.unload())
        return
    if sim.unload_started is None:
        sim.request_unload()           # trigger beyond the end of the run / "idle"
    try:
        await asyncio.wait_for(asyncio.shield(sim._unload_task), 600)
    except asyncio.TimeoutError:
        sim.violate("unload:never-returned",
                    f"{cls.__name__}.unload() had not returned 600 virtual s after it was requested"
                    + (" from inside one of the overlay's own tasks" if getattr(sim, "self_unload", False) else ""))
        sim.unload_done = sim.loop.time()
    if sim.unload_error:
        sim.violate("unload:raised", f"{cls.__name__}.unload() raised {sim.unload_error}")
    ov = target.overlay
    # ---- late phase: the other nodes keep running; late datagrams of every kind reach the unloaded node
    await nap(0.3)
    for owner_ov, tr in sim.loop_transports:
        if owner_ov is ov and not tr.is_closing():
            sim.violate("socket:open-when-unload-returned",
                        f"{type(ov).__name__}: a UDP socket it opened ({tr.get_extra_info('sockname')}) is still open 0.3 virtual "
                        f"s after unload() returned")
            break
    late_datagrams(sim, target, nodes, rng)
    await nap(1.0)
    probe_api(sim, target)
    for other in nodes:
        if other is not target:
            for oov in getattr(other, "all_overlays", []):
                guarded(oov.walk_to, target.base.wan_address)
            guarded(other.overlay.walk_to, target.base.wan_address)
            if hasattr(other.overlay, "do_ping"):
                guarded(other.overlay.do_ping)
    for _ in range(3):
        companions_send(nodes)              # includes the companion overlay of the unloaded one: it is still loaded
        await nap(LATE_SECONDS / 3)
    late_datagrams(sim, target, nodes, rng, replay_only=True)
    scan_coroutines(sim, target)
    poke_open_transports(sim, ov)
    await nap(1.0)
    # ---- the rest of the world stops; two virtual hours pass
    for f in getattr(sim, "app_futures", []):
        if not f.done():
            f.set_result(None)          # the application answers late: "no attestation"
    for other in nodes:
        if other is not target:
            if getattr(other, "service", None) is not None:
                await aguarded(other.service.stop())
            else:
                await aguarded(other.overlay.unload())
    for nd in nodes:
        if getattr(nd, "companion", None) is not None:
            await aguarded(nd.companion.unload())
    for xo in sim.extra_overlays:
        await aguarded(xo.unload())
    svc = getattr(target, "service", None)
    if svc is not None:
        # the service of the unloaded overlay keeps ticking its other overlays for two more virtual minutes
        await nap(120.0)
        left = [type(st).__name__ for st, _ in svc.strategies if getattr(st, "overlay", None) is ov]
        if left or ov in svc.overlays:
            sim.violate("IPv8.unload_overlay:strategy-left-registered",
                        f"after unload_overlay({type(ov).__name__}) the service still lists "
                        f"{'the overlay and ' if ov in svc.overlays else ''}its strategies {left}")
        await aguarded(svc.stop())
    await nap(TWO_HOURS)
    for nd in nodes:
        svc_n = getattr(nd, "service", None)
        for child, parent, _ in sim.owner_unloaded:
            left = [type(st).__name__ for st, _ in getattr(svc_n, "strategies", []) if getattr(st, "overlay", None) is child]
            if left:
                sim.violate("IPv8:strategy-left-for-unloaded-overlay",
                            f"the service still lists the strategies {left} of the {type(child).__name__} that its owner "
                            f"({type(parent).__name__}) had unloaded")
    final_checks(sim, target)
    for j in sim.app_jobs:
        if not j.done():
            j.cancel()


def late_datagrams(sim, target, nodes, rng, replay_only=False):
    """Replays of every datagram the node ever received, then every message id with random and recorded bodies."""
    ep = target.base
    seen = list(sim.received.get(ep, []))
    others = [nd.base.wan_address for nd in nodes if nd is not target] or [("9.9.9.9", 9)]
    deliver = ep.notify_listeners
    wrapper = target.endpoint if target.endpoint is not ep and hasattr(target.endpoint, "set_tunnel_community") else None
    for pkt in seen[-400:]:
        guarded(deliver, pkt)
    for e in getattr(target, "extra_bases", []):
        for pkt in seen[-60:] + [(others[0], target.prefix + bytes([245]) + b"\x00" * 30)]:
            guarded(e.notify_listeners, pkt)       # the other interface of a DispatcherEndpoint
    if wrapper is not None:
        # datagrams that come out of a tunnel are delivered by the TunnelEndpoint itself (other code path)
        for pkt in seen[-40:] + [(others[0], target.prefix + bytes([245]) + b"\x00" * 30)]:
            guarded(wrapper.notify_listeners, pkt, True)
            guarded(wrapper.notify_listeners, pkt, False)
    if replay_only:
        return
    body_by_id = {}
    for _, data in seen:
        if len(data) > 22:
            body_by_id.setdefault(data[22], data[23:])
    for mid in range(256):
        src = others[mid % len(others)]
        body = body_by_id.get(mid, bytes(rng.getrandbits(8) for _ in range(rng.choice([0, 1, 8, 40, 120]))))
        guarded(deliver, (src, target.prefix + bytes([mid]) + body))
        if mid in body_by_id:
            guarded(deliver, (src, target.prefix + bytes([mid]) + bytes(rng.getrandbits(8) for _ in range(30))))
    for child in sim.owned_overlays()[1:]:
        cp = guarded(child.get_prefix)
        if cp:
            for mid in (245, 246, 249, 250, 1, 2, 0):
                guarded(deliver, (others[0], cp + bytes([mid]) + bytes(rng.getrandbits(8) for _ in range(40))))
    guarded(deliver, (others[0], target.prefix))
    guarded(deliver, (others[0], b""))
    guarded(deliver, (others[0], bytes(rng.getrandbits(8) for _ in range(60))))


def poke_open_transports(sim, ov):
    """An outside datagram to every socket of the unloaded overlay that is still open (exit transports, and whatever the
    loop opened for it — e.g. a broadcast-bootstrap socket nobody refers to any more)."""
    todo = [(owner, tr) for owner, tr in sim.transports if getattr(owner, "overlay", None) is ov]
    todo += [(None, tr) for oo, tr in sim.loop_transports if oo is ov and all(tr is not t for _, t in todo)]
    for owner, tr in todo:
        if not tr.is_closing():
            try:
                sock = tr.get_extra_info("socket")
                fam = sock.family
                port = sock.getsockname()[1]
                s = socket.socket(fam, socket.SOCK_DGRAM)
                dst = ("127.0.0.1" if fam == socket.AF_INET else "::1", port)
                s.sendto(b"d1:ad2:id20:abcdefghij0123456789e1:q4:ping1:t2:aa1:y1:qe", dst)
                s.sendto(guarded(ov.get_prefix) + bytes([246]) + b"\x00" * 60, dst)     # a prefixed datagram
                s.close()
            except OSError:
                pass


def probe_api(sim, target):
    """After unload: the task manager and the request cache must refuse new work (nothing may ever run)."""
    from ipv8.requestcache import NumberCache
    ov = target.overlay
    ran = sim.probe_ran = []

    def mk(tag):
        def body():
            ran.append(tag)
        return body

    sim.quiet = True
    futs = []
    try:
        for m in sim.owned_managers():
            tag = type(m).__name__
            for how, call in (("register_task", lambda m=m, tag=tag: m.register_task("c11-probe", mk(tag + ".register_task"))),
                              ("register_task(delay)", lambda m=m, tag=tag: m.register_task("c11-probe-d", mk(tag + ".register_task(delay)"), delay=1.0)),
                              ("register_task(interval)", lambda m=m, tag=tag: m.register_task("c11-probe-i", mk(tag + ".register_task(interval)"), interval=5.0)),
                              ("register_anonymous_task", lambda m=m, tag=tag: m.register_anonymous_task("c11-probe-a", mk(tag + ".register_anonymous_task"), delay=0.5)),
                              ("replace_task", lambda m=m, tag=tag: m.replace_task("c11-probe-r", mk(tag + ".replace_task"), delay=0.5))):
                try:
                    futs.append((tag + "." + how, call()))
                except Exception as e:  # noqa: BLE001
                    futs.append((tag + "." + how, e))
        rc = getattr(ov, "request_cache", None)
        if rc is not None:
            class ProbeCache(NumberCache):
                def on_timeout(self):
                    ran.append("RequestCache.add:on_timeout")
            try:
                res = rc.add(ProbeCache(rc, "c11-probe", 424242))
            except Exception as e:  # noqa: BLE001
                res = e
            if res is not None and not isinstance(res, Exception):
                sim.violate("request_cache.add:accepted-after-unload",
                            f"{type(ov).__name__}.request_cache.add() accepted a cache after unload() returned")
    finally:
        sim.quiet = False
    sim.probe_futs = futs


def scan_coroutines(sim, target):
    """No coroutine that runs a method of the unloaded overlay (or of its cache / exit sockets) may be left suspended."""
    ov = target.overlay
    owned = sim.owned_managers()
    for task in asyncio.all_tasks(sim.loop):
        if task.done() or any(task is j for j in sim.app_jobs):
            continue        # application-owned API calls are judged by what they make the overlay do (sends), not here
        coro = task.get_coro()
        depth = 0
        while coro is not None and depth < 20:
            frame = getattr(coro, "cr_frame", None) or getattr(coro, "gi_frame", None)
            if frame is not None:
                obj = frame.f_locals.get("self")
                if obj is not None and any(obj is o for o in owned):
                    sim.violate("asyncio:overlay-coroutine-alive-after-unload",
                                f"{type(ov).__name__}: coroutine {getattr(coro, '__qualname__', coro)} of "
                                f"{type(obj).__name__} is still suspended after unload() returned")
                    return
            coro = getattr(coro, "cr_await", None) or getattr(coro, "gi_yieldfrom", None)
            depth += 1


def final_checks(sim, target):
    ov = target.overlay
    if getattr(sim, "probe_ran", None):
        sim.violate("register_task:accepted-after-unload",
                    f"{type(ov).__name__}: work registered after unload() returned was executed: {sorted(set(sim.probe_ran))}")
    owned = sim.owned_managers()
    for m, name, fut, _ in sim.task_records:
        if any(m is o for o in owned) and not fut.done():
            sim.violate("taskmanager:task-pending-after-unload",
                        f"task {str(name)[:60]!r} of {type(m).__name__} ({type(ov).__name__}) is still pending two virtual "
                        f"hours after unload() returned")
            break
    for m in owned:
        left = [str(k)[:40] for k, t in list(m._pending_tasks.items()) if not t.done()]  # noqa: SLF001
        if left:
            sim.violate("taskmanager:task-pending-after-unload",
                        f"{type(m).__name__} ({type(ov).__name__}) still tracks unfinished tasks {left[:4]} after unload")
            break
    for owner, tr in sim.transports:
        if getattr(owner, "overlay", None) is ov and not tr.is_closing():
            sim.violate("exit_socket:transport-open-after-unload",
                        f"{type(ov).__name__}: an exit socket's UDP transport (circuit {getattr(owner, 'circuit_id', '?')}) is still "
                        f"open two virtual hours after unload() returned")
            break
    # sockets as the event loop / the OS see them, whatever the owning object remembers
    for owner_ov, tr in sim.loop_transports:
        if owner_ov is ov and not tr.is_closing():
            sim.violate("socket:open-after-unload",
                        f"{type(ov).__name__}: a UDP socket it opened ({tr.get_extra_info('sockname')}) is still open two "
                        f"virtual hours after unload() returned (no object refers to it any more or it was never closed)")
            break
    now = count_socket_fds()
    if sim.socket_baseline is not None and now is not None and now > sim.socket_baseline \
            and all(v[0] not in ("exit_socket:transport-open-after-unload", "socket:open-after-unload") for v in sim.violations):
        sim.violate("os:socket-open-after-unload",
                    f"{type(ov).__name__}: {now - sim.socket_baseline} more OS-level socket(s) open than before the run, two "
                    f"virtual hours after every overlay of the run was unloaded")


# ======================================================================================================
# part 2: correspondence with the Lean model
# ======================================================================================================
def generate(ctx: Ctx):
    import gen_c11
    src, meta = gen_c11.translate()
    ctx.extra["translated"] = {"classes": [c["name"] for c in meta["classes"]],
                               "scripts": {c["name"]: c["script"] for c in meta["classes"]},
                               "tunnel_endpoint_forwards": meta["forwards"], "sleep_guards": meta["guards"],
                               "default_remove_tunnel_delay": meta["delay"], "scheduler_facts": meta["scheduler_facts"], "service_facts": meta["service_facts"]}
    return [("Ipv8/C11/GenOverlays.lean", src)]


def pfx_bytes(p):
    return b"\x00\x02" + bytes([p]) * 20


def registry_gen(rng, n_ops, gen_flags):
    """A random op sequence for the listener registry (pure function of the rng)."""
    lines = [f"reset {gen_flags[0]} {gen_flags[1]}"]
    for _ in range(n_ops):
        r = rng.random()
        via = int(rng.random() < 0.4)
        l = rng.choice([1, 2, 3, 4, 5, 6])
        p = rng.choice([7, 8])
        if r < 0.16:
            lines.append(f"r add {via} {l}")
        elif r < 0.36:
            lines.append(f"r addp {via} {l} {p}")
        elif r < 0.54:
            lines.append(f"r rm {via} {l}")
        elif r < 0.62:
            lines.append(f"r fwd {rng.choice([5, 6])} {rng.choice([1, 2, 3, 4])}")
        elif r < 0.66:
            lines.append(f"r unfwd {rng.choice([5, 6])}")
        elif r < 0.69:
            lines.append(f"r open {int(rng.random() < 0.6)}")
        elif r < 0.74:
            lines.append("r ref " + rng.choice(["none", "1", "2", "3", "4"]))
        elif r < 0.79:
            lines.append(f"r anon {rng.choice([1, 2, 3, 4])} {int(rng.random() < 0.6)}")
        elif r < 0.86:
            lines.append(f"r tnotify {int(rng.random() < 0.5)} {rng.choice([7, 8, 9])}")
        elif r < 0.90:
            lines.append("r driven")
        else:
            lines.append(f"r notify {rng.choice([7, 8, 9])}")
    return lines


def registry_exec(lines):
    """Run registry op lines on real Endpoint / TunnelEndpoint / PythonCryptoEndpoint objects; returns the replies."""
    from ipv8.messaging.anonymization.crypto import PythonCryptoEndpoint
    from ipv8.messaging.anonymization.endpoint import TunnelEndpoint
    from ipv8.messaging.interfaces.endpoint import EndpointListener
    from ipv8.test.mocking.endpoint import MockEndpoint
    inner = MockEndpoint(("10.0.0.1", 1), ("10.0.0.1", 2))
    inner.open()
    outer = TunnelEndpoint(inner)
    outer.set_anonymity(pfx_bytes(9), True)
    got, driven = [], []

    class L(EndpointListener):
        anonymize = False

        def __init__(self, ep, i):
            super().__init__(ep)
            self.i = i

        def on_packet(self, packet):
            got.append(self.i)

        # what TunnelEndpoint.send calls on the tunnel community it refers to
        def find_circuits(self, *a, **k):
            driven.append(self.i)
            return []

        def create_circuit(self, *a, **k):
            return None

    class P(PythonCryptoEndpoint):
        def on_packet(self, packet, warn_unknown=True):
            got.append(self.i)
            super().on_packet(packet, warn_unknown)

    objs = {i: L(outer, i) for i in (1, 2, 3, 4)}
    for i in (5, 6):
        objs[i] = P(outer)
        objs[i].i = i
    impl = []
    for ln in lines:
        t = ln.split()
        if t[0] == "reset":
            impl.append("ok")
            continue
        op = t[1]
        if op in ("add", "addp", "rm"):
            ep = outer if t[2] == "1" else inner
            o = objs[int(t[3])]
            if op == "add":
                ep.add_listener(o)
            elif op == "addp":
                ep.add_prefix_listener(o, pfx_bytes(int(t[4])))
            else:
                ep.remove_listener(o)
            impl.append("ok")
        elif op == "fwd":
            objs[int(t[2])].tunnel_community = objs[int(t[3])]
            impl.append("ok")
        elif op == "unfwd":
            objs[int(t[2])].tunnel_community = None
            impl.append("ok")
        elif op == "open":
            inner.open() if t[2] == "1" else inner.close()
            impl.append("ok")
        elif op == "ref":
            outer.set_tunnel_community(None if t[2] == "none" else objs[int(t[2])])
            impl.append("ok")
        elif op == "anon":
            objs[int(t[2])].anonymize = t[3] == "1"
            impl.append("ok")
        elif op == "tnotify":
            del got[:]
            outer.notify_listeners((("1.1.1.1", 1), pfx_bytes(int(t[3])) + b"\x01payload"), from_tunnel=(t[2] == "1"))
            impl.append("[" + ",".join(map(str, sorted(got))) + "]")
        elif op == "driven":
            del driven[:]
            outer.send(("1.1.1.1", 1), pfx_bytes(9) + b"\x01anonymised send of another overlay")
            impl.append("[" + ",".join(map(str, sorted(set(driven)))) + "]")
        elif op == "notify":
            del got[:]
            inner.notify_listeners((("1.1.1.1", 1), pfx_bytes(int(t[2])) + b"\x01payload"))
            impl.append("[" + ",".join(map(str, sorted(got))) + "]")
        else:
            raise InfraError("registry op " + ln)
    return impl


def registry_case(ctx: Ctx, rng, n_ops, gen_flags):
    lines = registry_gen(rng, n_ops, gen_flags)
    impl = registry_exec(lines)
    kinds = {ln.split()[1] + ("-outer" if ln.split()[1] == "rm" and ln.split()[2] == "1" else "")
             for ln in lines if ln.startswith("r ")}
    return lines, impl, kinds


def canon_reach(reply):
    inner = reply.strip()[1:-1]
    items = sorted(int(x) for x in inner.split(",") if x)
    return "[" + ",".join(map(str, items)) + "]"


def registry_oracle_exec(via, script):
    """Run a registry history (ops before the removal of listener 1, `late-` ops after it) on the real endpoint classes,
    then deliver datagrams through every path; True iff listener 1 stays silent."""
    from ipv8.messaging.anonymization.endpoint import TunnelEndpoint
    from ipv8.messaging.interfaces.endpoint import EndpointListener
    from ipv8.test.mocking.endpoint import MockEndpoint
    inner = MockEndpoint(("10.0.0.1", 1), ("10.0.0.1", 2))
    inner.open()
    ep = TunnelEndpoint(inner) if via else inner
    got = []

    class L(EndpointListener):
        def __init__(self, e, i):
            super().__init__(e)
            self.i = i

        def on_packet(self, packet):
            got.append(self.i)

    ls = {i: L(ep, i) for i in (1, 2, 3)}
    meth = {"add": "add_listener", "addp": "add_prefix_listener", "rm": "remove_listener"}
    removed = False
    for k, l, p in script:
        if k.startswith("late-") and not removed:
            ep.remove_listener(ls[1])
            removed = True
        k = k.replace("late-", "")
        getattr(ep, meth[k])(*((ls[l],) if k != "addp" else (ls[l], pfx_bytes(p))))
    if not removed:
        ep.remove_listener(ls[1])
    for q in (7, 8, 9):
        inner.notify_listeners((("1.1.1.1", 1), pfx_bytes(q) + b"\x01x"))
        if via:
            ep.notify_listeners((("1.1.1.1", 1), pfx_bytes(q) + b"\x01x"), from_tunnel=False)
            ep.notify_listeners((("1.1.1.1", 1), pfx_bytes(q) + b"\x01x"), from_tunnel=True)
    return 1 not in got


def registry_oracle(ctx: Ctx, rng, gen_flags):
    """The property on the real registry: after remove_listener(o) — through the same endpoint object that o was added
    with — no datagram of any prefix reaches o, whatever foreign listeners do afterwards."""
    via = rng.random() < 0.5
    script = []
    for _ in range(rng.randrange(1, 8)):
        l = rng.choice([1, 2, 3])
        k = rng.choice(["add", "addp", "rm"]) if l != 1 else rng.choice(["add", "addp", "addp"])
        script.append((k, l, rng.choice([7, 8])))
    for _ in range(rng.randrange(0, 6)):
        script.append(("late-" + rng.choice(["add", "addp", "rm"]), rng.choice([2, 3]), rng.choice([7, 8])))
    ok = registry_oracle_exec(via, script)
    ctx.case(("reg-oracle", via, tuple(script)), len(script) >= 3)
    if not ok:
        site = "TunnelEndpoint.remove_listener" if via else "Endpoint.remove_listener"
        ctx.oracle_fail(f"{site}:still-delivered",
                        f"a listener removed through {'a TunnelEndpoint' if via else 'the endpoint'} still receives datagrams "
                        f"(ops {script})", {"kind": "registry", "via": via, "script": [list(x) for x in script]})


def tm_gen(rng, n_ops):
    """A random TaskManager op sequence (pure function of the rng).  The model is pass-granular: a second operation on a
    name whose `replace_task` continuation is still queued is only issued after a loop pass, and shutdown is requested
    at a quiescent point (the coroutine itself only starts in the next loop iteration)."""
    lines = []
    dirty = set()
    any_stubborn = [False]
    plain_long = {}          # name -> True while a long task without cancellation delay is (probably) registered there

    def rand_spec():
        kind = rng.choice(["imm", "imm", "long", "long", "delayed", "interval", "interval", "fut"])
        d = rng.choice([0, 1, 2, 3]) if kind == "interval" else (rng.choice([1, 2, 3]) if kind == "delayed" else 0)
        i = rng.choice([1, 2, 3]) if kind == "interval" else 1
        stub = rng.choice([0, 0, 1, 2]) if kind == "long" else 0
        if stub:
            any_stubborn[0] = True
        return (kind, d, i, stub)

    for _ in range(n_ops):
        r = rng.random()
        name = rng.randrange(4)
        if name in dirty and r < 0.60:
            lines.append("t settle")
            dirty.clear()
        if r >= 0.72:
            dirty.clear()
        if r < 0.32:
            sp = rand_spec()
            lines.append(f"t reg {name} {sp[0]} {sp[1]} {sp[2]} {sp[3]}")
            if name not in plain_long:
                plain_long[name] = sp[0] == "long" and sp[3] == 0
        elif r < 0.45:
            lines.append(f"t cancel {name}")
            plain_long.pop(name, None)
        elif r < 0.60:
            sp = rand_spec()
            if sp[0] == "fut":
                sp = ("imm", 0, 1, 0)
            lines.append(f"t replace {name} {sp[0]} {sp[1]} {sp[2]} {sp[3]}")
            dirty.add(name)
            plain_long[name] = False
        elif r < 0.66:
            lines.append("t settle")
            dirty.clear()
            own = [n for n, ok in plain_long.items() if ok]
            if own and not any_stubborn[0] and rng.random() < 0.5:
                # the shutdown is requested from INSIDE one of the manager's own tasks (a self-unloading overlay)
                lines.append(f"t selfshutdown {rng.choice(own)}")
            else:
                lines.append("t shutdown")
        elif r < 0.72:
            lines.append(f"t active {name}")
        elif r < 0.84:
            lines.append("t settle")
        else:
            lines.append("t tick")
    return lines


def tm_exec(lines):
    """Run TaskManager op lines on a real TaskManager under the virtual clock.
    Returns (impl replies, kinds, oracle findings)."""
    import vclock
    from ipv8.taskmanager import TaskManager
    loop = vclock.new_loop()
    impl, kinds, findings = [], set(), []

    async def main():
        from asyncio import CancelledError, Future, sleep
        tm = TaskManager()
        runs = []
        futs = []
        state = {"dead": False, "requested": False, "self_done": asyncio.get_running_loop().create_future()}
        orig_register = tm.register_task
        live = {}            # the harness's own view of "a task of this name is still active"

        def reg_wrapper(name, *a, **k):
            old = getattr(a[0], "c11_old", None) if a else None
            if old is not None and not old.done():
                findings.append(("replace_task:new-started-before-old-finished",
                                 f"replace_task({name}) registered the new task while the old one had not finished"))
            f = orig_register(name, *a, **k)
            futs.append(f)
            if not f.done():
                live[name] = f
                wake[name] = getattr(a[0], "c11_ev", None) if a else None
            return f

        tm.register_task = reg_wrapper

        wake = {}            # name -> Event: tells the long task of that name to shut its own manager down

        def mk_body(name, spec):
            kind, _, _, stub = spec
            if kind == "long":
                ev = asyncio.Event()

                async def body():
                    runs.append(name)
                    try:
                        await ev.wait()
                        await do_shutdown()                      # shut the manager down from inside its own task
                        state["self_done"].set_result(None)
                    except CancelledError:
                        if stub:
                            await sleep(stub)
                        raise
                body.c11_ev = ev
                return body

            def body():
                runs.append(name)
                if state["dead"]:
                    findings.append(("shutdown_task_manager:task-ran-after-shutdown",
                                     f"a task named {name} ({kind}) ran after shutdown_task_manager() had completed"))
            return body

        def kwargs(spec):
            kind, d, i, _ = spec
            if kind == "delayed":
                return {"delay": d}
            if kind == "interval":
                return {"interval": i, "delay": d}
            return {}

        async def settle():
            for _ in range(8):
                await sleep(0)

        shutdown_task = None

        def summary():
            active = sorted(n for n in range(4) if tm.is_pending_task_active(n))
            r = sorted(runs)
            del runs[:]
            alive = sum(1 for f in futs if not f.done())
            down = int(shutdown_task is not None and shutdown_task.done())
            return f"active=[{','.join(map(str, active))}] runs=[{','.join(map(str, r))}] alive={alive} down={down}"

        async def do_shutdown():
            me = asyncio.current_task()
            tracked = [f for f in live.values() if not f.done() and f is not me]
            await tm.shutdown_task_manager()
            state["dead"] = True
            left = [f for f in tracked if not f.done()]
            if left:
                findings.append(("shutdown_task_manager:returned-before-tasks-finished",
                                 f"shutdown_task_manager() returned while {len(left)} task(s) it had to cancel were still running"))

        for ln in lines:
            t = ln.split()
            op = t[1]
            if op == "reg":
                name = int(t[2])
                spec = (t[3], int(t[4]), int(t[5]), int(t[6]))
                kinds.add("reg:" + spec[0])
                was_active = name in live and not live[name].done()
                was_down = state["requested"]
                handed = None
                try:
                    if spec[0] == "fut":
                        handed = Future()
                        f = tm.register_task(name, handed)
                    else:
                        f = tm.register_task(name, mk_body(name, spec), **kwargs(spec))
                    res = "refused" if f.done() else "ok"
                except RuntimeError:
                    res = "exists"
                impl.append(res)
                kinds.add("reg->" + res)
                if was_active and not was_down and res != "exists":
                    findings.append(("register_task:active-name-accepted",
                                     f"register_task({name}) was accepted while a task of that name was still active"))
                if was_down and res != "refused":
                    findings.append(("register_task:accepted-after-shutdown",
                                     f"register_task({name}) returned {res} after shutdown_task_manager()"))
                if was_down and handed is not None and not handed.done():
                    findings.append(("register_task:refused-future-left-pending",
                                     f"register_task({name}, <Future>) after shutdown neither tracked nor cancelled the future"))
                    handed.cancel()
            elif op == "cancel":
                name = int(t[2])
                live.pop(name, None)
                f = tm.cancel_pending_task(name)
                impl.append("some" if (not f.done() or f.cancelled()) else "none")
                kinds.add("cancel")
            elif op == "replace":
                name = int(t[2])
                spec = (t[3], int(t[4]), int(t[5]), int(t[6]))
                old = tm.get_task(name)
                body = mk_body(name, spec)
                if old is not None and not old.done():
                    body.c11_old = old          # the register call made for *this* replace must find it finished
                    kinds.add("replace-active")
                else:
                    kinds.add("replace-idle")
                live.pop(name, None)
                nf = tm.replace_task(name, body, **kwargs(spec))
                nf.add_done_callback(lambda f: f.exception() if not f.cancelled() else None)
                impl.append("ok")
            elif op == "shutdown":
                kinds.add("shutdown")
                if shutdown_task is None:
                    state["requested"] = True
                    shutdown_task = asyncio.ensure_future(do_shutdown())
                    await sleep(0)       # the model's op is "flag + cancel": run the coroutine up to its first await
                impl.append("ok")
            elif op == "selfshutdown":
                kinds.add("shutdown-from-own-task")
                name = int(t[2])
                if shutdown_task is None and wake.get(name) is not None and name in live and not live[name].done():
                    state["requested"] = True
                    shutdown_task = state["self_done"]
                    wake[name].set()
                    await sleep(0)       # the task wakes up and runs shutdown_task_manager up to its first await
                    await sleep(0)
                elif shutdown_task is None:
                    raise InfraError(f"selfshutdown {name}: no running long task of that name (generator bug)")
                impl.append("ok")
            elif op == "active":
                impl.append("1" if tm.is_pending_task_active(int(t[2])) else "0")
                kinds.add("active?")
            elif op == "settle":
                await settle()
                impl.append(summary())
                kinds.add("settle")
            elif op == "tick":
                await settle()
                await sleep(1.0)
                await settle()
                impl.append(summary())
                kinds.add("tick")
            else:
                raise InfraError("tm op " + ln)
        # end of the sequence: shut down (if not yet), give stubborn tasks time, then nothing may run any more
        if shutdown_task is None:
            state["requested"] = True
            shutdown_task = asyncio.ensure_future(do_shutdown())
        try:
            await asyncio.wait_for(asyncio.shield(shutdown_task), 100)
        except asyncio.TimeoutError:
            findings.append(("shutdown_task_manager:never-returned",
                             "shutdown_task_manager() had not returned 100 virtual s after it was called"
                             + (" from inside one of the manager's own tasks" if shutdown_task is state["self_done"] else "")))
        await sleep(50)
        left = [f for f in futs if not f.done()]
        if left:
            findings.append(("shutdown_task_manager:task-survived",
                             f"{len(left)} registered task(s) still pending 50 virtual s after shutdown_task_manager() completed"))
        for f in left:
            try:
                f.cancel()
            except RecursionError:       # a task that waits for a gather that contains itself
                pass
        await settle()

    try:
        loop.run_until_complete(main())
    finally:
        try:
            drain(loop)
        except BaseException:  # noqa: BLE001
            pass
        vclock.uninstall()
        loop.close()
        asyncio.set_event_loop(None)
    return impl, kinds, findings


def tm_self_periodic_case(rng, on_cache):
    """A PERIODIC task that shuts its own manager down in round k (siblings of several kinds around it): the shutdown has to
    return to it, and no round may follow.  `on_cache`: the manager is a RequestCache and `shutdown()` is used."""
    import vclock
    loop = vclock.new_loop()
    findings = []
    k = rng.randrange(1, 4)
    ivl, delay = rng.choice([1.0, 2.0, 5.0]), rng.choice([0, 1.0])
    siblings = [(rng.choice(["imm", "interval", "delayed", "long"]), rng.choice([0, 1, 2])) for _ in range(rng.randrange(0, 4))]
    desc = f"periodic task (interval {ivl}, delay {delay}) calls {'RequestCache.shutdown' if on_cache else 'shutdown_task_manager'} in round {k}, siblings {siblings}"

    async def main():
        from asyncio import CancelledError, sleep

        from ipv8.requestcache import RequestCache
        from ipv8.taskmanager import TaskManager
        tm = RequestCache() if on_cache else TaskManager()
        st = {"rounds": 0, "returned": None, "late": 0}

        async def periodic():
            st["rounds"] += 1
            if st["returned"] is not None:
                st["late"] += 1
            if st["rounds"] == k:
                await (tm.shutdown() if on_cache else tm.shutdown_task_manager())
                st["returned"] = loop.time()

        async def long_body(stub):
            try:
                await sleep(10 ** 7)
            except CancelledError:
                if stub:
                    await sleep(stub)
                raise

        for i, (kind, stub) in enumerate(siblings):
            if kind == "imm":
                tm.register_task(f"s{i}", lambda: None)
            elif kind == "interval":
                tm.register_task(f"s{i}", lambda: None, interval=1.0 + stub)
            elif kind == "delayed":
                tm.register_task(f"s{i}", lambda: None, delay=30.0)
            else:
                tm.register_task(f"s{i}", long_body, stub)
        tm.register_task("maintenance", periodic, interval=ivl, delay=delay)
        await sleep(ivl * k + delay + 40)
        if st["returned"] is None:
            findings.append(("shutdown_task_manager:never-returned", f"the shutdown never returned to its caller: {desc}"))
        await sleep(120)
        if st["late"]:
            findings.append(("shutdown_task_manager:own-periodic-task-survived",
                             f"{st['late']} more round(s) of the periodic task ran after the shutdown it had awaited returned: {desc}"))

    try:
        loop.run_until_complete(main())
    finally:
        drain(loop)
        vclock.uninstall()
        loop.close()
        asyncio.set_event_loop(None)
    return desc, findings


# Fixed sequences that every run executes first: they reach the rare branch classes deterministically (a replacement whose
# name was taken while the slow old task was dying; a refused continuation; a shutdown from the manager's own task).
CURATED_TM = [
    ["t reg 1 long 0 1 2", "t settle", "t replace 1 imm 0 1 0", "t settle", "t reg 1 interval 1 2 0", "t tick", "t tick",
     "t tick", "t settle", "t active 1", "t cancel 1", "t cancel 2", "t settle"],
    ["t reg 0 long 0 1 2", "t reg 3 fut 0 1 0", "t settle", "t replace 0 delayed 2 1 0", "t settle", "t shutdown", "t tick",
     "t tick", "t tick", "t reg 2 imm 0 1 0", "t shutdown", "t settle"],
    ["t reg 2 long 0 1 0", "t reg 1 interval 0 1 0", "t reg 3 delayed 3 1 0", "t settle", "t selfshutdown 2", "t settle",
     "t tick", "t reg 0 fut 0 1 0", "t settle"],
]


ANON_WRAPS = [2 ** 8, 2 ** 15, 2 ** 16, 2 ** 31, 2 ** 32]


def tm_anonymous_names_case(wrap, on_cache):
    """Anonymous tasks (what message handlers and @task calls are registered as) while older ones of the same base name are
    still pending, in a long-running session.  WHITE BOX: the 2**k registrations that came and went in between are not
    executed; the private counter the names are derived from is moved forward instead (recorded as such in the evidence)."""
    import vclock
    loop = vclock.new_loop()
    findings = []

    async def main():
        from asyncio import sleep

        from ipv8.requestcache import RequestCache
        from ipv8.taskmanager import TaskManager
        tm = RequestCache() if on_cache else TaskManager()

        async def handler():
            await sleep(10 ** 6)

        first = [tm.register_anonymous_task("on_packet", handler) for _ in range(3)]
        await sleep(0)
        tm._counter = max(tm._counter, wrap - 2)  # noqa: SLF001   (fast-forward of a long-running session)
        later = []
        for i in range(5):
            try:
                later.append(tm.register_anonymous_task("on_packet", handler))
            except RuntimeError as e:
                findings.append(("register_anonymous_task:name-collision",
                                 f"after about {wrap} anonymous registrations a new anonymous task was refused ({e}) because an "
                                 f"older one of the same base name is still pending — its coroutine, started by the caller, "
                                 f"runs outside the task manager"))
                break
        await (tm.shutdown() if on_cache else tm.shutdown_task_manager())
        await sleep(1)
        if any(not f.done() for f in first + later):
            findings.append(("shutdown_task_manager:task-survived", "an anonymous task survived the shutdown"))

    try:
        loop.run_until_complete(main())
    finally:
        drain(loop)
        vclock.uninstall()
        loop.close()
        asyncio.set_event_loop(None)
    return findings


def tm_case(ctx: Ctx, rng, n_ops):
    if ctx is not None and ctx.counts.get("tm-curated", 0) < len(CURATED_TM):
        lines = CURATED_TM[ctx.counts.get("tm-curated", 0)]
        ctx.count("tm-curated")
        impl, kinds, findings = tm_exec(lines)
        return lines, impl, kinds, findings
    lines = tm_gen(rng, n_ops)
    impl, kinds, findings = tm_exec(lines)
    return lines, impl, kinds, findings


# ---- RequestCache: the same scheduler model, driven through the cache API ------------------------------------------------
def cache_gen(rng, n_ops):
    lines = []
    for _ in range(n_ops):
        r = rng.random()
        n = rng.randrange(4)
        if r < 0.40:
            lines.append(f"c add {n} {rng.choice([1, 2, 3])}")
        elif r < 0.55:
            lines.append(f"c pop {n}")
        elif r < 0.70:
            lines.append(f"c has {n}")
        elif r < 0.76:
            lines.append("c shutdown")
        else:
            lines.append("c tick")
    return lines


def cache_exec(lines):
    """Run cache op lines on a real RequestCache under the virtual clock.  Replies use the vocabulary of the scheduler
    model (add = register a delayed task under the cache's identifier, has = active, pop = cancel, shutdown)."""
    import vclock
    loop = vclock.new_loop()
    impl, findings = [], []

    async def main():
        from asyncio import sleep

        from ipv8.requestcache import NumberCache, RequestCache
        rc = RequestCache()
        timed_out = []
        state = {"down": False}

        class C(NumberCache):
            def __init__(self, rc, n, d):
                super().__init__(rc, "c11", n)
                self.d = d

            @property
            def timeout_delay(self):
                return float(self.d)

            def on_timeout(self):
                timed_out.append(self.number)
                if state["down"]:
                    findings.append(("request_cache:timeout-after-shutdown",
                                     f"cache {self.number} timed out after RequestCache.shutdown() had completed"))

        for ln in lines:
            t = ln.split()
            if t[1] == "add":
                try:
                    res = rc.add(C(rc, int(t[2]), int(t[3])))
                except RuntimeError:            # NumberCache refuses a number that is in use at construction time
                    res = None
                if res is None:
                    impl.append("refused" if state["down"] else "exists")
                else:
                    impl.append("ok")
                    if state["down"]:
                        findings.append(("request_cache.add:accepted-after-shutdown",
                                         "RequestCache.add() accepted a cache after shutdown()"))
            elif t[1] == "pop":
                try:
                    rc.pop("c11", int(t[2]))
                    impl.append("some")
                except KeyError:
                    impl.append("none")
            elif t[1] == "has":
                impl.append("1" if rc.has("c11", int(t[2])) else "0")
            elif t[1] == "shutdown":
                await rc.shutdown()
                state["down"] = True
                impl.append("ok")
            else:
                for _ in range(6):
                    await sleep(0)
                await sleep(1.0)
                for _ in range(6):
                    await sleep(0)
                r = sorted(timed_out)
                del timed_out[:]
                impl.append("runs=[" + ",".join(map(str, r)) + "]")
        await rc.shutdown()
        state["down"] = True
        await sleep(20)

    try:
        loop.run_until_complete(main())
    finally:
        try:
            drain(loop)
        except Exception:  # noqa: BLE001
            pass
        vclock.uninstall()
        loop.close()
        asyncio.set_event_loop(None)
    return impl, findings


def cache_model_lines(lines):
    """The same ops in the scheduler model's protocol."""
    out = []
    for ln in lines:
        t = ln.split()
        if t[1] == "add":
            out.append(f"t reg {t[2]} delayed {t[3]} 1 0")
        elif t[1] == "pop":
            out.append(f"t cancel {t[2]}")
        elif t[1] == "has":
            out.append(f"t active {t[2]}")
        elif t[1] == "shutdown":
            out.append("t shutdown")
        else:
            out.append("t tick")
    return out


def run_cache(ctx: Ctx, rng, n_cases, use_model):
    all_model, all_impl, all_src, starts = [], [], [], []
    for _ in range(n_cases):
        lines = cache_gen(rng, rng.randrange(4, 30))
        impl, findings = cache_exec(lines)
        ctx.case(("cache", tuple(lines)), any(ln.startswith("c add") for ln in lines))
        for ln in lines:
            ctx.count("cache-op:" + ln.split()[1])
        for sig, what in findings:
            ctx.count("violation:" + sig)
            ctx.oracle_fail(sig, what + f" (op sequence: {lines})", {"kind": "cache-seq", "lines": lines})
        starts.append(len(all_model))
        all_model += ["reset 1 1"] + cache_model_lines(lines)
        all_impl += ["ok"] + impl
        all_src += ["reset"] + lines
    if use_model and all_model:
        replies = model_batch(ctx, all_model)
        bad = 0
        for i, (ln, m, im) in enumerate(zip(all_src, replies, all_impl)):
            if ln.startswith("c tick"):
                m = m.split(" ")[1]            # only the bodies (timeouts) that ran
            if m != im and bad < 5:
                st = max(x for x in starts if x <= i)
                ctx.disagree(f"request cache: model `{m}` != implementation `{im}` on `{ln}`",
                             {"kind": "cache-seq", "lines": all_src[st + 1:i + 1], "model": m, "impl": im})
                bad += 1


def strip_order(reply):
    return reply.split(" order=")[0]


def unload_static_case(cls_name, stack, with_exit):
    """Load one overlay (default settings), unload it while idle, observe the abstract post-state of the model."""
    import vclock
    install_patches()
    from ipv8.test.mocking import endpoint as mock_ep
    classes = overlay_classes()
    cls = classes[cls_name]
    random.seed(7)
    loop = vclock.new_loop()
    sim = Sim(loop)
    Sim.current = sim
    out = {}

    async def main():
        node = build_node(sim, cls, stack)
        other = build_node(sim, classes["DiscoveryCommunity"], "plain")   # a foreign listener elsewhere
        ov = node.overlay
        heard = {"self": 0, "proxy": 0}
        orig_on_packet = ov.on_packet

        def on_packet(packet, *a, **k):
            heard["self"] += 1
            return orig_on_packet(packet, *a, **k)

        ov.on_packet = on_packet
        ce = getattr(ov, "crypto_endpoint", None)
        if ce is not None and hasattr(ce, "on_packet"):
            orig_ce = ce.on_packet

            def ce_on_packet(packet, *a, **k):
                heard["proxy"] += 1
                return orig_ce(packet, *a, **k)

            ce.on_packet = ce_on_packet
        await asyncio.sleep(1.0)
        n_exit = 0
        if with_exit and hasattr(ov, "exit_sockets"):
            from ipv8.messaging.anonymization.exit_socket import TunnelExitSocket
            from ipv8.messaging.anonymization.tunnel import Hop
            es = TunnelExitSocket(4242, Hop(other.overlay.my_peer), ov)
            ov.exit_sockets[4242] = es
            es.enable()
            await asyncio.sleep(0.5)
            n_exit = 1
        await ov.unload()
        await asyncio.sleep(0.5)
        heard["self"] = heard["proxy"] = 0
        for p in (node.prefix, other.prefix, b"\x00\x02" + b"\x63" * 20):
            guarded(node.base.notify_listeners, (other.base.wan_address, p + b"\xf5" + b"\x00" * 40))
            for e in node.extra_bases:
                guarded(e.notify_listeners, (other.base.wan_address, p + b"\xf5" + b"\x00" * 40))
        await asyncio.sleep(20.0)
        rc = getattr(ov, "request_cache", None)
        db = getattr(ov, "database", None)
        open_tr = sum(1 for owner, tr in sim.transports if getattr(owner, "overlay", None) is ov and not tr.is_closing())
        live_es = sum(1 for m, _, f, _ in sim.task_records if getattr(m, "overlay", None) is ov and not f.done())
        tables = sum(len(getattr(ov, a, {})) for a in ("circuits", "relay_from_to", "exit_sockets"))
        out["impl"] = (f"listening={int(heard['self'] > 0)} proxy={int(heard['proxy'] > 0)} tm={int(bool(ov._shutdown))} "  # noqa: SLF001
                       f"cache={int(rc is None or bool(rc._shutdown))} "  # noqa: SLF001
                       f"db={int(db is None or db._connection is None)} "  # noqa: SLF001
                       f"open={1 if (open_tr or live_es) else 0} tables={tables} "
                       f"ref={int(getattr(node.endpoint, 'tunnel_community', None) is ov)}")
        out["line"] = f"u {cls_name} {STACK_CODE[stack]} {ov.settings.remove_tunnel_delay if hasattr(ov, 'settings') else 5} 0 0 {n_exit} {n_exit}"
        await aguarded(other.overlay.unload())

    try:
        loop.run_until_complete(main())
    finally:
        Sim.current = None
        try:
            drain(loop)
            for _, tr in sim.transports:
                if not tr.is_closing():
                    tr.close()
            loop.run_until_complete(asyncio.sleep(0))
        except Exception:  # noqa: BLE001
            pass
        vclock.uninstall()
        loop.close()
        asyncio.set_event_loop(None)
        mock_ep.internet.clear()
    return out["line"], out["impl"]


# ======================================================================================================
# part 3: orchestration
# ======================================================================================================
STACKS = ["plain", "tunnel-endpoint", "statistics-endpoint", "dispatcher"]
STACK_CODE = {"plain": 0, "tunnel-endpoint": 1, "statistics-endpoint": 2, "dispatcher": 0}


def scenario_specs(ctx: Ctx, rng, per_combo_steps, per_combo_times, steps_cache):
    """Yield scenario specs: every class x stack x family x target role, unload at packet indices and random times."""
    classes = sorted(overlay_classes())
    for cls in classes:
        for family in scenario_families(cls):
            for stack in STACKS:
                light = stack in ("statistics-endpoint", "dispatcher")   # wrappers that only matter for (de)registration
                if light and family not in ("intro", "discovery", "dht"):
                    continue
                if family == "anon" and stack != "tunnel-endpoint":
                    continue
                if family == "inflight":
                    yield from inflight_specs(cls, stack, rng, per_combo_steps is None)
                    continue
                hop_opts = [1, 2] if family == "tunnel" else [1]
                for hops in hop_opts:
                    n = 3 if hops == 1 else 4
                    if family == "dht":
                        n = 4
                    seed = rng.getrandbits(30)
                    key = (cls, family, stack, hops)
                    base = {"cls": cls, "stack": stack, "family": family, "nodes": n, "hops": hops, "seed": seed}
                    if key not in steps_cache:
                        _, st = run_scenario({**base, "target": 0, "trigger": ["idle"]}, dry=True)
                        steps_cache[key] = st["steps"]
                        steps_cache[("iters",) + key] = st["send_iters"]
                    total = steps_cache[key]
                    send_iters = steps_cache[("iters",) + key]
                    if per_combo_steps is None:
                        ks = list(range(0, total + 1, 4 if light else 1))
                    else:
                        ks = sorted({rng.randrange(total + 1) for _ in range(4 if light else per_combo_steps)})
                    for k in ks:
                        yield {**base, "target": rng.randrange(n) if per_combo_steps is not None else None,
                               "trigger": ["step", k]}
                    for _ in range(1 if light else per_combo_times):
                        yield {**base, "target": rng.randrange(n), "trigger": ["time", round(rng.uniform(0.0, 16.0), 3)]}
                    yield {**base, "target": rng.randrange(n), "trigger": ["idle"]}
                    if family == "intro":
                        # unload landing in the loop iterations after the bootstrapper starts opening its socket
                        for it in (range(8) if per_combo_steps is None else [rng.randrange(8) for _ in range(2)]):
                            yield {**base, "target": rng.randrange(n), "trigger": ["mark", "acquire", 0, "iter", it]}
                    if family == "tunnel" and (hops == 1 or per_combo_steps is None):
                        # "at whatever moment": the unload is requested at EVERY event-loop iteration in the windows before
                        # a datagram reaches the node (a CREATE / data cell may arrive while unload is suspended)
                        deep = per_combo_steps is None
                        for tgt in (range(n) if deep else [n - 1]):
                            its = sorted({it - d for it, dst in send_iters if dst == tgt for d in range(6 if deep else 4) if it - d > 0})
                            for it in its:
                                yield {**base, "target": tgt, "trigger": ["iter", it]}
                    if family == "tunnel":
                        # unload landing at every loop iteration after the exit node starts opening a socket
                        deep = per_combo_steps is None
                        if hops == 1 or deep:
                            for j in (0, 1):
                                for it in range(16 if deep else 8):
                                    yield {**base, "target": n - 1, "trigger": ["mark", "acquire", j, "iter", it]}
                            for it in range(8 if deep else 4):
                                yield {**base, "target": n - 1, "trigger": ["mark", "enable", 0, "iter", it]}


def service_specs(rng, deep):
    """Overlays of a running ipv8_service.IPv8 (default configuration), unloaded through IPv8.unload_overlay."""
    for cls in SERVICE_CLASSES:
        for stack in STACKS:
            base = {"cls": cls, "stack": stack, "family": "service", "nodes": 2, "hops": 1}
            reps = 6 if deep else 1
            for _ in range(reps):
                yield {**base, "seed": rng.getrandbits(30), "target": rng.randrange(2),
                       "trigger": ["time", round(rng.uniform(0.0, 10.0), 3)]}
            if deep or stack == "plain":
                yield {**base, "seed": rng.getrandbits(30), "target": rng.randrange(2), "trigger": ["idle"]}


def inflight_specs(cls, stack, rng, deep):
    """Application-owned API calls in flight: unload k loop iterations / t seconds after the calls were started."""
    n = 4 if "DHT" in cls else 3
    base = {"cls": cls, "stack": stack, "family": "inflight", "nodes": n, "hops": 1}
    modes = ["all", "half", "none"]

    def tgt():
        return rng.randrange(n) if "DHT" in cls else 0
    if deep:
        for mode in modes:
            for it in range(0, 30):
                yield {**base, "seed": rng.getrandbits(30), "silence": mode, "target": tgt(), "trigger": ["mark", "api", 0, "iter", it]}
            for _ in range(10):
                yield {**base, "seed": rng.getrandbits(30), "silence": mode, "target": tgt(),
                       "trigger": ["mark", "api", 0, "time", round(rng.uniform(0.0, 13.0), 3)]}
    else:
        for _ in range(6):
            yield {**base, "seed": rng.getrandbits(30), "silence": rng.choice(modes), "target": tgt(),
                   "trigger": ["mark", "api", 0, "iter", rng.randrange(0, 30)]}
        for _ in range(5):
            yield {**base, "seed": rng.getrandbits(30), "silence": rng.choice(modes), "target": tgt(),
                   "trigger": ["mark", "api", 0, "time", round(rng.uniform(0.0, 13.0), 3)]}


def run_one_scenario(ctx: Ctx, spec):
    if "self_unload" not in spec and ctx.replay_input is None:
        r = ctx.rng.random()
        spec = {**spec, "self_unload": "own-task" if r < 0.06 else "periodic" if r < 0.13 else "cache-task" if r < 0.18 else False}
    if "pre" not in spec and ctx.replay_input is None:
        r = ctx.rng.random()
        # (only when the unload is requested from outside: a task of the overlay that cancels all tasks of the overlay cancels
        # itself before it gets to call unload — that would be the application's doing, not the overlay's)
        spec = {**spec, "pre": None if spec.get("self_unload") else
                "shutdown_task_manager" if r < 0.08 else "cancel_all_pending_tasks" if r < 0.12
                else "request_cache.shutdown" if r < 0.16 else "unload-twice" if r < 0.20 else None}
    ctx.count("unload-requested-from:" + (str(spec.get("self_unload")) if spec.get("self_unload") else "outside"))
    ctx.count("history-before-unload:" + (spec.get("pre") or "none"))
    viol, st = run_scenario(spec)
    trig = spec["trigger"]
    ctx.count(f"scenario:{spec['cls']}")
    ctx.count(f"family:{spec['family']}")
    ctx.count(f"stack:{spec['stack']}")
    ctx.count(f"trigger:{trig[0]}" + (f":{trig[1]}:{trig[3]}" if trig[0] == "mark" else ""))
    if spec["family"] == "inflight":
        ctx.count(f"inflight-silence:{spec.get('silence')}")
        ctx.extra["api_inflight"] = INFLIGHT_APIS
    ctx.count("unload-with-protocol-tasks-pending" if st["pre_tasks"] else "unload-with-only-builtin-periodic-tasks")
    if st.get("owned_children"):
        ctx.count("unload-with-owned-child-overlays")
    if st.get("owner_unloaded"):
        ctx.count("child-overlay-unloaded-by-its-owner")
    if st.get("counter_fast_forward"):
        ctx.count("long-session(white-box counter fast-forward):2^%d" % st["counter_fast_forward"])
    ctx.count("target-traffic:%s" % ("none" if st["pre_sent"] + st["pre_recv"] == 0 else
                                     "1-9" if st["pre_sent"] + st["pre_recv"] < 10 else "10+"))
    nontrivial = (st["pre_sent"] + st["pre_recv"] > 0) or st["pre_tasks"] > 0      # RULE: traffic or a protocol task pending
    ctx.case((spec["cls"], spec["stack"], spec["family"], spec["target"], tuple(trig), spec["hops"], spec.get("silence"),
              str(spec.get("self_unload") or ""), str(spec.get("pre") or "")), nontrivial)
    for sig, what in viol:
        ctx.count("violation:" + sig)
        ctx.oracle_fail(sig, f"[{spec['cls']} on {spec['stack']} endpoint, scenario {spec['family']}, node {spec['target']}, "
                             f"unload at {trig}] {what}", {"kind": "scenario", "spec": spec})
    return viol


def run_scenarios(ctx: Ctx, rng, per_combo_steps, per_combo_times, limit=None):
    steps_cache = {}
    n = 0
    for spec in service_specs(rng, per_combo_steps is None):
        run_one_scenario(ctx, spec)
        n += 1
    for spec in scenario_specs(ctx, rng, per_combo_steps, per_combo_times, steps_cache):
        if spec["target"] is None:                 # exhaustive: every role at every step
            for tgt in range(spec["nodes"]):
                run_one_scenario(ctx, {**spec, "target": tgt})
                n += 1
        else:
            run_one_scenario(ctx, spec)
            n += 1
        if limit is not None and n >= limit:
            break
    ctx.extra.setdefault("scenario_steps", {}).update({"/".join(map(str, k)): v for k, v in steps_cache.items()
                                                       if k[0] != "iters"})
    return n


# Branch classes of the hand-written model definitions (tags computed by the driver from the same conditions as the model).
# Every one of them has to be exercised by the correspondence of EVERY run: a class that stays at zero is a silent loss of
# coverage and makes the run fail with an infrastructure error (exit 2), not pass.
REQUIRED_BRANCHES = [
    # Reg / World (interfaces/endpoint.py, anonymization/endpoint.py, crypto.py proxy)
    "reg.add.direct", "reg.add.via-wrapper-forwarded", "reg.add.no-prefix-lists", "reg.add.appended-to-prefix-lists",
    "reg.addp.existing-prefix", "reg.addp.new-prefix", "reg.addp.no-generic-listeners", "reg.addp.copies-generic-listeners",
    "reg.rm.direct", "reg.rm.via-wrapper-forwarded", "reg.rm.generic-listener", "reg.rm.not-generic", "reg.rm.prefix-listener",
    "reg.rm.not-in-prefix-lists", "reg.rm.prefix-entry-dropped", "reg.rm.prefix-entries-kept",
    "reg.fwd.new", "reg.fwd.replaces", "reg.unfwd", "reg.open", "reg.close", "reg.ref.set", "reg.ref.cleared",
    "reg.anon.on", "reg.anon.off",
    "notify.closed", "notify.prefix-list", "notify.generic-listeners", "notify.proxy-forwards", "notify.no-proxy-forward",
    "tnotify.from-tunnel", "tnotify.from-socket", "tnotify.anonymize-filter-drops", "tnotify.anonymize-filter-keeps-all",
    "tnotify.duplicate-delivered-once", "tnotify.no-duplicate", "driven.refers-to-community", "driven.no-community",
    # TM (taskmanager.py, requestcache.py through the same model)
    "register.ok", "register.active-name-raises", "register.refused-after-shutdown",
    "register.kind.imm", "register.kind.long", "register.kind.delayed", "register.kind.interval", "register.kind.fut",
    "cancel.unknown-name", "cancel.task-cancel-requested", "cancel.future-completes-at-once",
    "replace.waits-for-old-task", "replace.nothing-to-wait-for",
    "shutdown.already-down", "shutdown.nothing-tracked", "shutdown.cancels-tracked-tasks", "shutdown.from-own-task",
    "is-active.true", "is-active.false",
    "deliver.done", "deliver.cancel-immediate", "deliver.cancel-starts-dying", "deliver.cancel-still-dying", "deliver.cancel-died",
    "deliver.imm-runs", "deliver.long-starts", "deliver.long-waits", "deliver.delayed-fires", "deliver.delayed-waits",
    "deliver.interval-fires", "deliver.interval-waits", "deliver.fut-waits",
    "cont.fires-ok", "cont.fires-name-taken", "cont.fires-refused", "cont.still-waiting", "pass.untracks-finished",
    # Svc (ipv8_service.py)
    "svc.add.known-overlay", "svc.add.new-overlay", "svc.unload.no-strategy", "svc.unload.one-strategy",
    "svc.unload.several-strategies", "svc.unload.listed-overlay", "svc.unload.unlisted-overlay",
    # unload scripts (generated): every statement kind that occurs in a shipped script, on every endpoint stack of the model
    "unload.stack.0", "unload.stack.1", "unload.stack.2",
]
# model branches that a correct tree cannot reach (kept for the record): the wrapper's own unused lists
# ("reg.add.via-wrapper-own-lists", "reg.rm.via-wrapper-own-lists": only with a non-forwarding wrapper), "cancel.finished-task"
# (a finished task is untracked by its done-callback before any operation can see it).


def model_batch(ctx: Ctx, lines):
    """Run lines on a fresh model driver; the branch classes they exercised are added to the evidence distribution."""
    replies = ctx.driver().batch([*lines, "coverage"])
    cov = replies.pop()
    for item in cov.split(";"):
        if "=" in item:
            tag, n = item.rsplit("=", 1)
            ctx.count("branch:" + tag, int(n))
    return replies


def check_branch_coverage(ctx: Ctx):
    import gen_c11
    _, meta = gen_c11.translate()
    ops = sorted({re.sub(r"[ (].*", "", op.strip("(")).lstrip(".") for c in meta["classes"] for op in c["script"]})
    required = REQUIRED_BRANCHES + ["uop.Ipv8.C11.UOp." + o for o in ops]
    missing = [b for b in required if ctx.counts.get("branch:" + b, 0) == 0]
    ctx.extra["branch_classes"] = {"required": len(required), "missing": missing}
    if missing:
        raise InfraError("correspondence did not reach these branch classes of the model: " + ", ".join(missing))


def gen_flags_from_driver(ctx: Ctx):
    d = ctx.driver()
    rep = d.batch(["gen"])[0]
    kv = dict(x.split("=", 1) for x in rep.split(" "))
    return (int(kv["fwdAdd"]), int(kv["fwdRemove"])), kv


def run_registry(ctx: Ctx, rng, n_cases, use_model):
    flags = (1, 1)
    if use_model:
        flags, kv = gen_flags_from_driver(ctx)
        ctx.extra["generated_flags"] = kv
    all_lines, all_impl, starts = [], [], []
    for _ in range(n_cases):
        n_ops = rng.randrange(4, 40)
        lines, impl, kinds = registry_case(ctx, rng, n_ops, flags)
        for k in kinds:
            ctx.count("registry-op:" + k)
        ctx.count("registry-len:%s" % ("4-12" if n_ops < 13 else "13-25" if n_ops < 26 else "26-39"))
        ctx.case(("reg", tuple(lines)), bool(kinds & {"notify", "tnotify", "driven"}) and n_ops >= 4)
        starts.append(len(all_lines))
        all_lines += lines
        all_impl += impl
    for _ in range(n_cases):
        registry_oracle(ctx, rng, flags)
    if use_model and all_lines:
        replies = model_batch(ctx, all_lines)
        bad = 0
        for i, (ln, m, im) in enumerate(zip(all_lines, replies, all_impl)):
            mm = canon_reach(m) if ln.startswith(("r notify", "r tnotify", "r driven")) else m
            if mm != im and bad < 5:
                s = max(x for x in starts if x <= i)
                ctx.disagree(f"registry: model {mm} != implementation {im} on `{ln}` (op {i - s} of its sequence)",
                             {"kind": "registry-seq", "lines": all_lines[s:i + 1], "model": mm, "impl": im})
                bad += 1


def run_tm(ctx: Ctx, rng, n_cases, use_model):
    all_lines, all_impl, starts = [], [], []
    for wrap in ANON_WRAPS:
        for on_cache in (False, True):
            ctx.count("tm-anonymous-names(white-box counter fast-forward):2^%d" % (wrap.bit_length() - 1))
            ctx.case(("tm-anon", wrap, on_cache), True)
            for sig, what in tm_anonymous_names_case(wrap, on_cache):
                ctx.count("violation:" + sig)
                ctx.oracle_fail(sig, what, {"kind": "tm-anonymous-names", "wrap": wrap, "on_cache": on_cache})
    for i in range(max(12, n_cases // 25)):
        sub_seed = rng.getrandbits(32)
        on_cache = i % 3 == 2
        desc, findings = tm_self_periodic_case(random.Random(sub_seed), on_cache)
        ctx.count("tm-self-periodic:" + ("request-cache" if on_cache else "task-manager"))
        ctx.case(("tm-self-periodic", desc), True)
        for sig, what in findings:
            ctx.count("violation:" + sig)
            ctx.oracle_fail(sig, what, {"kind": "tm-self-periodic", "seed": sub_seed, "on_cache": on_cache})
    for _ in range(n_cases):
        n_ops = rng.randrange(4, 40)
        lines, impl, kinds, findings = tm_case(ctx, rng, n_ops)
        for k in kinds:
            ctx.count("tm-op:" + k)
        ctx.case(("tm", tuple(lines)), len(lines) >= 4 and any(k.startswith("reg->ok") for k in kinds))
        for sig, what in findings:
            ctx.count("violation:" + sig)
            ctx.oracle_fail(sig, what + f" (op sequence: {lines})", {"kind": "tm", "lines": lines})
        starts.append(len(all_lines))
        all_lines += ["reset 1 1"] + lines
        all_impl += ["ok"] + impl
    if use_model and all_lines:
        replies = model_batch(ctx, all_lines)
        bad = 0
        for i, (ln, m, im) in enumerate(zip(all_lines, replies, all_impl)):
            if " order=0" in m:
                ctx.disagree(f"task manager model: replacement started before the old task finished on `{ln}`",
                             {"kind": "tm-seq", "line": ln})
            if strip_order(m) != im and bad < 5:
                s = max(x for x in starts if x <= i)
                ctx.disagree(f"task manager: model `{strip_order(m)}` != implementation `{im}` on `{ln}` (op {i - s - 1})",
                             {"kind": "tm-seq", "lines": all_lines[s + 1:i + 1], "model": m, "impl": im})
                bad += 1


def run_unload_static(ctx: Ctx, use_model):
    lines, impls, meta = [], [], []
    for cls in sorted(overlay_classes()):
        for stack in STACKS:
            for with_exit in ([False, True] if "Tunnel" in cls else [False]):
                line, impl = unload_static_case(cls, stack, with_exit)
                lines.append(line)
                impls.append(impl)
                meta.append((cls, stack, with_exit))
                ctx.count("unload-static:" + cls)
                ctx.case(("unload-static", cls, stack, with_exit), with_exit)
                want = "listening=0 proxy=0 tm=1 cache=1 db=1 open=0 tables=0 ref=0"
                if impl != want:
                    bad = [kv for kv, w in zip(impl.split(" "), want.split(" ")) if kv != w]
                    sig = {"listening": "on_packet:delivered-after-unload", "proxy": "crypto_endpoint:listener-left-after-unload",
                           "tm": "unload:task-manager-not-shut-down", "cache": "unload:request-cache-not-shut-down",
                           "db": "unload:database-left-open", "open": "exit_socket:transport-open-after-unload",
                           "tables": "unload:tunnel-tables-not-cleared",
                           "ref": "tunnel_endpoint:still-refers-to-unloaded-community"}[bad[0].split("=")[0]]
                    # the tunnel tables are plain dicts (no resource): a difference there is left to the correspondence
                    if sig != "unload:tunnel-tables-not-cleared":
                        ctx.oracle_fail(sig, f"{cls} on {stack} endpoint{' with an open exit socket' if with_exit else ''}: "
                                             f"after unload() of the idle overlay: {' '.join(bad)}",
                                        {"kind": "unload-static", "cls": cls, "stack": stack, "with_exit": with_exit})
    if use_model:
        replies = model_batch(ctx, lines)
        for ln, m, im, mt in zip(lines, replies, impls, meta):
            if m != im:
                ctx.disagree(f"unload script of {mt[0]} on {mt[1]} endpoint: model `{m}` != implementation `{im}`",
                             {"kind": "unload-static", "line": ln, "model": m, "impl": im})


def service_gen(rng, n_ops):
    """add_strategy / unload_overlay sequences; runs of consecutive strategies of one overlay are as likely as
    interleavings, and an unload mostly hits an overlay that has strategies."""
    lines = ["s reset"]
    sid = 0
    have = {1: 0, 2: 0, 3: 0}
    for _ in range(n_ops):
        if rng.random() < 0.65:
            o = rng.choice([1, 2, 3])
            for _ in range(rng.choice([1, 1, 2, 3])):
                sid += 1
                lines.append(f"s add {o} {sid}")
                have[o] += 1
        else:
            with_st = [o for o in have if have[o] > 0]
            o = rng.choice(with_st) if with_st and rng.random() < 0.85 else rng.choice([1, 2, 3])
            lines.append(f"s unload {o}")
            have[o] = 0
        lines.append("s list")
    return lines


async def service_exec(lines):
    """Run service op lines on a real (unstarted) IPv8 with stub overlays and strategies.
    Returns (impl replies, findings, counts)."""
    from ipv8.test.mocking.endpoint import MockEndpoint
    from ipv8_service import IPv8
    ep = MockEndpoint(("10.0.0.9", 1), ("10.0.0.9", 2))
    svc = IPv8({"logger": {"level": "CRITICAL"}, "keys": [], "overlays": [], "walker_interval": 0.5}, endpoint_override=ep)
    logging.disable(logging.CRITICAL)

    class Ov:
        def __init__(self, i):
            self.i = i

        def unload(self):
            pass

    class St:
        def __init__(self, sid, ov):
            self.sid = sid
            self.overlay = ov

    ovs = {i: Ov(i) for i in (1, 2, 3)}
    impl, findings, counts = [], [], []
    shape = []
    for ln in lines:
        t = ln.split()
        if t[1] == "reset":
            impl.append("ok")
        elif t[1] == "add":
            o = int(t[2])
            svc.add_strategy(ovs[o], St(int(t[3]), ovs[o]), -1 if int(t[3]) % 2 else 20)
            shape.append(o)
            impl.append("ok")
        elif t[1] == "unload":
            o = int(t[2])
            had = sum(1 for st, _ in svc.strategies if st.overlay is ovs[o])
            await svc.unload_overlay(ovs[o])
            impl.append("ok")
            left = [st.sid for st, _ in svc.strategies if st.overlay is ovs[o]]
            counts.append(min(had, 4))
            if left or ovs[o] in svc.overlays:
                findings.append(("IPv8.unload_overlay:strategy-left-registered",
                                 f"after unload_overlay of an overlay with {had} strategies (registration order of overlays "
                                 f"{shape}) the service still holds its strategies {left}"))
            shape = [x for x in shape if x != o]
        else:
            impl.append("overlays=[" + ",".join(str(o.i) for o in svc.overlays) + "] strategies=["
                        + ",".join(f"{st.sid}:{st.overlay.i}" for st, _ in svc.strategies) + "]")
    return impl, findings, counts


async def service_ops_case(ctx: Ctx, rng, n_ops):
    lines = service_gen(rng, n_ops)
    impl, findings, counts = await service_exec(lines)
    for c in counts:
        ctx.count("service-unload:%d-strategies" % c)
    for sig, what in findings:
        ctx.oracle_fail(sig, what, {"kind": "service-ops", "lines": lines})
    return lines, impl


def run_service_ops(ctx: Ctx, rng, n_cases, use_model):
    import vclock
    loop = vclock.new_loop()        # maybe_coroutine() inside unload_overlay needs a loop
    all_lines, all_impl, starts = [], [], []

    async def main():
        for _ in range(n_cases):
            lines, impl = await service_ops_case(ctx, rng, rng.randrange(3, 14))
            ctx.case(("svc", tuple(lines)), any(ln.startswith("s unload") for ln in lines))
            starts.append(len(all_lines))
            all_lines.extend(lines)
            all_impl.extend(impl)

    try:
        loop.run_until_complete(main())
    finally:
        vclock.uninstall()
        loop.close()
        asyncio.set_event_loop(None)
    if use_model and all_lines:
        replies = model_batch(ctx, all_lines)
        bad = 0
        for i, (ln, m, im) in enumerate(zip(all_lines, replies, all_impl)):
            if m != im and bad < 5:
                st = max(x for x in starts if x <= i)
                ctx.disagree(f"service: model `{m}` != implementation `{im}` after `{all_lines[i - 1]}`",
                             {"kind": "service-ops", "lines": all_lines[st + 1:i + 1], "model": m, "impl": im})
                bad += 1


def run(ctx: Ctx):
    if ctx.replay_input is not None:
        return replay(ctx, ctx.replay_input)
    install_patches()
    rng = ctx.rng
    use_model = ctx.model_ok
    run_unload_static(ctx, use_model)
    run_registry(ctx, rng, ctx.scale(300, 4000), use_model)
    run_tm(ctx, rng, ctx.scale(300, 4000), use_model)
    run_service_ops(ctx, rng, ctx.scale(300, 3000), use_model)
    run_cache(ctx, rng, ctx.scale(300, 3000), use_model)
    if ctx.thorough():
        run_scenarios(ctx, rng, None, 6)          # every packet index, every role
    else:
        run_scenarios(ctx, rng, 10, 3)
    for cls in sorted(overlay_classes()):
        if not any(k == f"scenario:{cls}" for k in ctx.counts):
            raise InfraError(f"no scenario ran for shipped overlay class {cls}")
    if use_model:
        check_branch_coverage(ctx)


def search(ctx: Ctx, reason: str):
    """Implementation-only: denser scenario sweep and more op sequences."""
    install_patches()
    rng = random.Random(ctx.seed * 7919 + 13)
    run_unload_static(ctx, False)
    run_registry(ctx, rng, 1500, False)
    run_tm(ctx, rng, 800, False)
    run_service_ops(ctx, rng, 1000, False)
    run_cache(ctx, rng, 800, False)
    run_scenarios(ctx, rng, 14, 5)


def replay(ctx: Ctx, rec: dict):
    install_patches()
    r = rec.get("replay", rec)
    kind = r.get("kind")
    if kind == "scenario":
        viol = run_one_scenario(ctx, r["spec"])
        print(f"replay scenario {r['spec']}: {'property FAILS: ' + '; '.join(w for _, w in viol) if viol else 'property holds'}")
    elif kind == "unload-static":
        line, impl = unload_static_case(r["cls"], r["stack"], r["with_exit"])
        ok = impl == "listening=0 proxy=0 tm=1 cache=1 db=1 open=0 tables=0 ref=0"
        print(f"replay unload of idle {r['cls']} on {r['stack']}: {impl}: property {'holds' if ok else 'FAILS'}")
        if not ok:
            ctx.oracle_fail("replay", impl, r)
        ctx.case(("replay",), True)
    elif kind in ("tm", "tm-seq"):
        lines = r["lines"]
        impl, _, findings = tm_exec(lines)
        for ln, im in zip(lines, impl):
            print(f"   {ln:34s} -> {im}")
        for sig, what in findings:
            ctx.oracle_fail(sig, what, r)
        print(f"replay TaskManager sequence ({len(lines)} ops): {'property FAILS: ' + '; '.join(w for _, w in findings) if findings else 'property holds'}")
        ctx.case(("replay",), True)
    elif kind == "tm-anonymous-names":
        findings = tm_anonymous_names_case(r["wrap"], r["on_cache"])
        for sig, what in findings:
            ctx.oracle_fail(sig, what, r)
        print(f"replay anonymous names after ~{r['wrap']} registrations: {'property FAILS: ' + findings[0][1] if findings else 'property holds'}")
        ctx.case(("replay",), True)
    elif kind == "tm-self-periodic":
        desc, findings = tm_self_periodic_case(random.Random(r["seed"]), r["on_cache"])
        for sig, what in findings:
            ctx.oracle_fail(sig, what, r)
        print(f"replay {desc}: {'property FAILS: ' + '; '.join(w for _, w in findings) if findings else 'property holds'}")
        ctx.case(("replay",), True)
    elif kind == "cache-seq":
        lines = r["lines"]
        impl, findings = cache_exec(lines)
        for ln, im in zip(lines, impl):
            print(f"   {ln:20s} -> {im}")
        for sig, what in findings:
            ctx.oracle_fail(sig, what, r)
        print(f"replay RequestCache sequence: {'property FAILS: ' + '; '.join(w for _, w in findings) if findings else 'property holds'}")
        ctx.case(("replay",), True)
    elif kind == "registry-seq":
        lines = r["lines"]
        impl = registry_exec(lines)
        for ln, im in zip(lines, impl):
            print(f"   {ln:20s} -> {im}")
        print("replay registry sequence: replies above (the model's replies are in the record)")
        ctx.case(("replay",), True)
    elif kind == "registry":
        ok = registry_oracle_exec(r["via"], [tuple(x) for x in r["script"]])
        print(f"replay registry history {r['script']}: property {'holds' if ok else 'FAILS'}")
        if not ok:
            ctx.oracle_fail("replay", "removed listener still receives datagrams", r)
        ctx.case(("replay",), True)
    elif kind == "service-ops":
        import vclock
        loop = vclock.new_loop()
        try:
            impl, findings, _ = loop.run_until_complete(service_exec(["s reset"] + [ln for ln in r["lines"] if ln != "s reset"]))
        finally:
            vclock.uninstall()
            loop.close()
            asyncio.set_event_loop(None)
        for sig, what in findings:
            ctx.oracle_fail(sig, what, r)
        print(f"replay service sequence: {'property FAILS: ' + '; '.join(w for _, w in findings) if findings else 'property holds'}")
        ctx.case(("replay",), True)
    else:
        print("replay: unknown record kind", kind)
